From Coq Require Import ZArith List Bool Lia Sorted.
Import ListNotations.
Open Scope Z_scope.
Definition bp := (Z * Z)%type.
Definition lastc (base : Z) (q : list bp) : Z := fold_left (fun _ p => snd p) q base.
Definition upto (t : Z) (q : list bp) := filter (fun p => fst p <=? t) q.
(* value at time t of the step function a breakpoint list denotes: count of the last breakpoint at or before t *)
Definition den (base : Z) (q : list bp) (t : Z) : Z := lastc base (upto t q).

Definition bump (m : list bp) := map (fun p => (fst p, snd p + 1)) m.
Definition upd_split (R M P : list bp) (s e : Z) : list bp :=
  let lr := lastc 0 R in
  let lo := lastc lr M in                    (* FIXED: falls back to lr when M is empty *)
  let n1 := match M with [] => [(s, lr + 1)] | (x, _) :: _ => if s <? x then [(s, lr + 1)] else [] end in
  let n3 := match P with [] => [(e, lo)] | (x, _) :: _ => if e <? x then [(e, lo)] else [] end in
  R ++ n1 ++ bump M ++ n3 ++ P.

Definition all_lt (q : list bp) (b : Z) := Forall (fun p => fst p < b) q.
Definition all_ge (q : list bp) (b : Z) := Forall (fun p => b <= fst p) q.

Lemma lastc_app base A B : lastc base (A ++ B) = lastc (lastc base A) B.
Proof. apply fold_left_app. Qed.
Lemma den_app base A B t : den base (A ++ B) t = den (den base A t) B t.
Proof. unfold den, upto. now rewrite filter_app, lastc_app. Qed.
Lemma upto_all t q : Forall (fun p => fst p <= t) q -> upto t q = q.
Proof. unfold upto. induction 1 as [|p q Hp _ IH]; cbn [filter]; [reflexivity|]. destruct (Z.leb_spec (fst p) t); [now rewrite IH|lia]. Qed.
Lemma upto_none t q : Forall (fun p => t < fst p) q -> upto t q = [].
Proof. unfold upto. induction 1 as [|p q Hp _ IH]; cbn [filter]; [reflexivity|]. destruct (Z.leb_spec (fst p) t); [lia|exact IH]. Qed.
Lemma den_all base q t : Forall (fun p => fst p <= t) q -> den base q t = lastc base q.
Proof. intros H. unfold den. now rewrite upto_all. Qed.
Lemma den_none base q t : Forall (fun p => t < fst p) q -> den base q t = base.
Proof. intros H. unfold den. now rewrite upto_none. Qed.
Lemma lastc_bump base F : lastc (base + 1) (bump F) = lastc base F + 1.
Proof. unfold lastc, bump. revert base; induction F as [|[x c] F IH]; intros base; cbn [map fold_left fst snd]; [reflexivity|]. apply IH. Qed.
Lemma upto_bump t M : upto t (bump M) = bump (upto t M).
Proof. unfold upto, bump. induction M as [|[x c] M IH]; cbn [map filter fst snd]; [reflexivity|]. destruct (x <=? t); cbn [map fst snd]; now rewrite IH. Qed.
Lemma den_bump base M t : den (base + 1) (bump M) t = den base M t + 1.
Proof. unfold den. rewrite upto_bump. apply lastc_bump. Qed.
Lemma lastc_ne b b' F : F <> [] -> lastc b F = lastc b' F.
Proof. destruct F as [|p F]; [congruence|]. reflexivity. Qed.
Lemma den_hd b b' x c q t : x <= t -> den b ((x, c) :: q) t = den b' ((x, c) :: q) t.
Proof. intros H. unfold den, upto. cbn [filter fst]. destruct (Z.leb_spec x t); [|lia]. apply lastc_ne. discriminate. Qed.
Lemma Fimp {A} (P Q : A -> Prop) l : Forall P l -> (forall a, P a -> Q a) -> Forall Q l.
Proof. intros F H. eapply Forall_impl; eauto. Qed.

Theorem den_update R M P s e t :
  s < e -> all_lt R s -> all_ge M s -> all_lt M e -> all_ge P e ->
  den 0 (upd_split R M P s e) t = den 0 (R ++ M ++ P) t + (if (s <=? t) && (t <? e) then 1 else 0).
Proof.
  intros Hse HR HMs HMe HP. unfold upd_split, all_lt, all_ge in *.
  set (lr := lastc 0 R). set (lo := lastc lr M).
  set (n1 := match M with [] => [(s, lr + 1)] | (x, _) :: _ => if s <? x then [(s, lr + 1)] else [] end).
  set (n3 := match P with [] => [(e, lo)] | (x, _) :: _ => if e <? x then [(e, lo)] else [] end).
  rewrite !den_app.
  destruct (Z.leb_spec s t) as [Hst|Hst]; cbn [andb].
  - assert (Ha : den 0 R t = lr) by (apply den_all; eapply Fimp; [exact HR|cbn; lia]).
    rewrite Ha.
    destruct (Z.ltb_spec t e) as [Hte|Hte].
    + (* s <= t < e *)
      assert (HPn : forall b, den b P t = b) by (intros; apply den_none; eapply Fimp; [exact HP|cbn; lia]).
      assert (H3 : forall b, den b n3 t = b).
      { intros b. apply den_none. unfold n3. destruct P as [|[y d] P']; [repeat constructor; cbn; lia|].
        destruct (e <? y); repeat constructor; cbn; lia. }
      rewrite !HPn, !H3.
      unfold n1. destruct M as [|[x c] M'].
      * unfold den at 2. cbn [upto filter fst]. destruct (Z.leb_spec s t); [|lia]. cbn. reflexivity.
      * inversion HMs as [|? ? Hx _]; subst. cbn [fst] in Hx.
        destruct (Z.ltb_spec s x).
        -- unfold den at 2. cbn [upto filter fst]. destruct (Z.leb_spec s t); [|lia].
           cbn [lastc fold_left snd]. apply den_bump.
        -- assert (x = s) by lia. subst x. unfold den at 2. cbn [upto filter lastc fold_left].
           change (bump ((s, c) :: M')) with ((s, c + 1) :: bump M').
           rewrite (den_hd lr (lr + 1) s (c + 1) (bump M') t Hst).
           change ((s, c + 1) :: bump M') with (bump ((s, c) :: M')). apply den_bump.
    + (* e <= t *)
      rewrite Z.add_0_r.
      assert (HMa : Forall (fun p => fst p <= t) M) by (eapply Fimp; [exact HMe|cbn; lia]).
      rewrite (den_all lr M t HMa). fold lo.
      unfold n3. destruct P as [|[y d] P'].
      * unfold den at 1 4. cbn [upto filter]. cbn [lastc fold_left].
        unfold den. cbn [upto filter fst]. destruct (Z.leb_spec e t); [|lia]. reflexivity.
      * inversion HP as [|? ? Hy _]; subst. cbn [fst] in Hy.
        destruct (Z.ltb_spec e y).
        -- f_equal. unfold den at 1. cbn [upto filter fst]. destruct (Z.leb_spec e t); [|lia]. reflexivity.
        -- assert (y = e) by lia. subst y. unfold den at 2. cbn [upto filter lastc fold_left].
           apply den_hd. exact Hte.
  - (* t < s *)
    rewrite Z.add_0_r.
    assert (HMn : forall b, den b M t = b) by (intros; apply den_none; eapply Fimp; [exact HMs|cbn; lia]).
    assert (HPn : forall b, den b P t = b) by (intros; apply den_none; eapply Fimp; [exact HP|cbn; lia]).
    assert (HBn : forall b, den b (bump M) t = b).
    { intros b. apply den_none. unfold bump. rewrite Forall_map. eapply Fimp; [exact HMs|cbn; lia]. }
    assert (H1 : forall b, den b n1 t = b).
    { intros b. apply den_none. unfold n1. destruct M as [|[x c] M']; [repeat constructor; cbn; lia|].
      destruct (s <? x); repeat constructor; cbn; lia. }
    assert (H3 : forall b, den b n3 t = b).
    { intros b. apply den_none. unfold n3. destruct P as [|[y d] P']; [repeat constructor; cbn; lia|].
      destruct (e <? y); repeat constructor; cbn; lia. }
    now rewrite HPn, H3, HBn, H1, HMn, HPn.
Qed.
Print Assumptions den_update.
