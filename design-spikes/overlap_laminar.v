From Coq Require Import ZArith List Bool Lia.
Import ListNotations.
Open Scope Z_scope.
Record sl := { pid : Z; tid : Z; ts : Z; en : Z; uid : Z }.
Definition key := (Z * Z)%type.
Definition lane (a : sl) : key := (pid a, tid a).
Definition keyb (x y : key) : bool := (fst x =? fst y) && (snd x =? snd y).
Lemma keyb_spec x y : reflect (x = y) (keyb x y).
Proof.
  unfold keyb. destruct x as [a b], y as [c d]; cbn [fst snd].
  destruct (Z.eqb_spec a c), (Z.eqb_spec b d); cbn; constructor; congruence.
Qed.
Definition lstate := (Z * list Z)%type.           (* cur, active end times *)
Definition lanes := key -> lstate.
Definition upd (L : lanes) (k : key) (v : lstate) : lanes := fun j => if keyb k j then v else L j.
Definition L0 : lanes := fun _ => (0, []).
Definition overlaps (s e : Z) (ends : list Z) : bool := existsb (fun x => (s <? x) && (x <? e)) ends.
Definition refresh (c : Z) (ends : list Z) : list Z := filter (fun x => c <=? x) ends.
Definition retid (a : sl) (t : Z) : sl := {| pid := pid a; tid := t; ts := ts a; en := en a; uid := uid a |}.
Inductive res := Err | Ok (L : lanes) (out : list sl).
(* nxt: the private tid chain built in the collection phase *)
Fixpoint detect (fuel : nat) (nxt : key -> option Z) (L : lanes) (a : sl) : res :=
  let k := lane a in
  let '(cur, ends) := L k in
  if ts a <? cur then Err else
  if negb (overlaps (ts a) (en a) ends)
  then Ok (upd L k (ts a, refresh (ts a) (ends ++ [en a]))) [a]
  else match fuel, nxt k with
       | S f, Some t' =>
           match detect f nxt L (retid a t') with
           | Ok L' out => Ok (upd L' k (ts a, refresh (ts a) (snd (L' k)))) out
           | Err => Err
           end
       | _, _ => Err
       end.

Definition laminar2 (a b : sl) : Prop :=
  lane a = lane b -> en a <= ts b \/ en b <= ts a \/ (ts a <= ts b /\ en b <= en a) \/ (ts b <= ts a /\ en a <= en b).
Definition Inv (L : lanes) (acc : list sl) : Prop :=
  forall a, In a acc -> ts a <= fst (L (lane a)) /\ (fst (L (lane a)) <= en a -> In (en a) (snd (L (lane a)))).
Definition Lam (acc : list sl) : Prop := forall a b, In a acc -> In b acc -> laminar2 a b.

Lemma upd_same L k v : upd L k v k = v.
Proof. unfold upd. destruct (keyb_spec k k); congruence. Qed.
Lemma upd_other L k v j : k <> j -> upd L k v j = L j.
Proof. unfold upd. destruct (keyb_spec k j); congruence. Qed.


Lemma overlaps_false s e ends x : overlaps s e ends = false -> In x ends -> x <= s \/ e <= x.
Proof.
  unfold overlaps. intros H Hin.
  destruct (Z.leb_spec x s); [now left|]. destruct (Z.leb_spec e x); [now right|].
  exfalso. assert (existsb (fun x => (s <? x) && (x <? e)) ends = true).
  { apply existsb_exists. exists x. split; [assumption|]. apply andb_true_iff. split; apply Z.ltb_lt; lia. }
  congruence.
Qed.
Lemma refresh_In c ends x : In x (refresh c ends) <-> In x ends /\ c <= x.
Proof. unfold refresh. rewrite filter_In. rewrite Z.leb_le. tauto. Qed.

Lemma lam_sym a b : laminar2 a b -> laminar2 b a.
Proof. unfold laminar2. intros H E. symmetry in E. specialize (H E). tauto. Qed.
Lemma lam_refl a : laminar2 a a.
Proof. unfold laminar2. intros _. right. right. left. lia. Qed.

Lemma accept_ok L a acc cur ends :
  ts a < en a -> Inv L acc -> Lam acc ->
  L (lane a) = (cur, ends) -> cur <= ts a -> overlaps (ts a) (en a) ends = false ->
  let L' := upd L (lane a) (ts a, refresh (ts a) (ends ++ [en a])) in
  Inv L' (a :: acc) /\ Lam (a :: acc).
Proof.
  intros Ha HI HL EL Hcur Ov L'. split.
  - intros b [<-|Hb].
    + unfold L'. rewrite upd_same. cbn [fst snd]. split; [lia|]. intros _.
      apply refresh_In. split; [apply in_or_app; right; now left | lia].
    + destruct (HI b Hb) as [H1 H2]. unfold L'.
      destruct (keyb_spec (lane a) (lane b)) as [E|E].
      * rewrite E, upd_same. cbn [fst snd]. rewrite <- E, EL in H1, H2. cbn [fst snd] in *.
        split; [lia|]. intros Hge. apply refresh_In. split; [|lia]. apply in_or_app. left. apply H2. lia.
      * rewrite upd_other by assumption. now split.
  - assert (P : forall b, In b acc -> laminar2 a b).
    { intros b Hb E. destruct (HI b Hb) as [H1 H2]. rewrite <- E, EL in H1, H2. cbn [fst snd] in *.
      destruct (Z.le_gt_cases cur (en b)) as [Hc|Hc].
      - destruct (overlaps_false _ _ _ (en b) Ov (H2 Hc)) as [G|G].
        + right. left. exact G.
        + right. right. right. lia.
      - right. left. lia. }
    intros x y [<-|Hx] [<-|Hy].
    + apply lam_refl.
    + now apply P.
    + apply lam_sym. now apply P.
    + now apply HL.
Qed.

Theorem detect_ok fuel nxt : forall L a acc L' out,
  ts a < en a -> Inv L acc -> Lam acc -> detect fuel nxt L a = Ok L' out ->
  Inv L' (out ++ acc) /\ Lam (out ++ acc) /\
  (exists t, out = [retid a t]) /\
  (forall j, fst (L' j) = fst (L j) \/ fst (L' j) = ts a).
Proof.
  induction fuel as [|f IH]; intros L a acc L' out Ha HI HL H; cbn [detect] in H;
  destruct (L (lane a)) as [cur ends] eqn:EL;
  destruct (Z.ltb_spec (ts a) cur) as [|Hcur]; try discriminate;
  destruct (overlaps (ts a) (en a) ends) eqn:Ov; cbn [negb] in H; try discriminate.
  - injection H as <- <-. destruct (accept_ok L a acc cur ends Ha HI HL EL Hcur Ov) as [A B].
    split; [exact A|]. split; [exact B|]. split.
    + exists (tid a). destruct a; reflexivity.
    + intros j. destruct (keyb_spec (lane a) j) as [<-|E]; [right; now rewrite upd_same|left; now rewrite upd_other].
  - destruct (nxt (lane a)) as [t'|] eqn:En; [|discriminate].
    destruct (detect f nxt L (retid a t')) as [|L1 out1] eqn:Ed; [discriminate|].
    injection H as <- <-.
    destruct (IH L (retid a t') acc L1 out1 Ha HI HL Ed) as (A & B & (t & ->) & C).
    cbn [retid ts en pid uid] in *.
    assert (Hk : fst (L1 (lane a)) <= ts a).
    { destruct (C (lane a)) as [E|E]; rewrite E; [rewrite EL; cbn; lia|lia]. }
    split; [|split; [exact B|split]].
    + intros b Hb. destruct (A b Hb) as [H1 H2].
      destruct (keyb_spec (lane a) (lane b)) as [E|E].
      * rewrite <- E in *. rewrite upd_same. cbn [fst snd]. split.
        -- (* ts b <= ts a *)
           destruct Hb as [<-|Hb]; [cbn; lia|]. destruct (HI b Hb) as [G _]. rewrite <- E, EL in G. cbn in G. lia.
        -- intros Hge. apply refresh_In. split; [apply H2; lia | lia].
      * rewrite upd_other by assumption. now split.
    + exists t. reflexivity.
    + intros j. destruct (keyb_spec (lane a) j) as [<-|E]; [right; now rewrite upd_same|].
      rewrite upd_other by assumption. apply C.
  - injection H as <- <-. destruct (accept_ok L a acc cur ends Ha HI HL EL Hcur Ov) as [A B].
    split; [exact A|]. split; [exact B|]. split.
    + exists (tid a). destruct a; reflexivity.
    + intros j. destruct (keyb_spec (lane a) j) as [<-|E]; [right; now rewrite upd_same|left; now rewrite upd_other].
Qed.
Print Assumptions detect_ok.
