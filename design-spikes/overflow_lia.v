From Coq Require Import ZArith List Bool Lia ZifyBool.
Ltac Zify.zify_post_hook ::= Z.to_euclidean_division_equations.
Open Scope Z_scope.
Definition W := 4294967296.
(* one step of local correction *)
Definition lstep (prev raw : Z) : Z := if raw <? prev then raw + W else raw.
Lemma lstep_ok c1 ck prevc :
  0 <= c1 -> c1 <= prevc -> prevc <= ck -> ck - c1 < W ->
  lstep (prevc - W * (c1 / W)) (ck mod W) = ck - W * (c1 / W).
Proof.
  intros. unfold lstep, W in *.
  destruct (_ <? _) eqn:E; lia.
Qed.
(* phase 2 epoch count, in cycle units: floor((c_ref - qmin*W)/W) - (loc_ref / W) = q1 - qmin *)
Lemma ovc_fixed c1 cref qmin :
  0 <= c1 -> c1 <= cref -> cref - c1 < W ->
  (cref - qmin * W) / W - ((cref - W * (c1 / W)) / W) = c1 / W - qmin.
Proof. intros. unfold W in *. lia. Qed.
