From Coq Require Import List String Bool Arith Lia.
Import ListNotations.
Open Scope string_scope.
Definition prof := list (string * bool).
(* fwd_find_stage: scan forward; on a match consume up to and including it *)
Fixpoint find (P : prof) (nm : string) : option (bool * prof) :=
  match P with
  | [] => None
  | (n, f) :: P' => if String.eqb nm n then Some (f, P') else find P' nm
  end.
(* register_stage over a list of calls; the profile suffix plays the role of reg_idx *)
Fixpoint register (P : prof) (calls : list string) : list bool :=
  match calls with
  | [] => []
  | c :: cs => match find P c with
               | Some (f, P') => f :: register P' cs
               | None => false :: register P cs
               end
  end.
(* selection of calls / expected flags by a mask aligned with the profile *)
Fixpoint sel (P : prof) (M : list bool) : list string :=
  match P, M with
  | (n, _) :: P', b :: M' => if b then n :: sel P' M' else sel P' M'
  | _, _ => []
  end.
Fixpoint selflags (P : prof) (M : list bool) : list bool :=
  match P, M with
  | (_, f) :: P', b :: M' => if b then f :: selflags P' M' else selflags P' M'
  | _, _ => []
  end.
(* structural separation: an unselected entry never carries the name of the next selected entry *)
Fixpoint sep (P : prof) (M : list bool) : Prop :=
  match P, M with
  | (n, _) :: P', b :: M' =>
      sep P' M' /\ (b = false -> match sel P' M' with c :: _ => c <> n | [] => True end)
  | _, _ => True
  end.
Lemma find_sel_hd P : forall M c cs, sel P M = c :: cs -> exists f P', find P c = Some (f, P').
Proof.
  induction P as [|[n f] P IH]; intros M c cs H; [destruct M; discriminate|].
  destruct M as [|b M]; [discriminate|]. cbn [sel] in H. cbn [find].
  destruct (String.eqb_spec c n); [eauto|].
  destruct b; [injection H as -> _; contradiction|]. eapply IH; eauto.
Qed.
Theorem register_sel P : forall M, sep P M -> register P (sel P M) = selflags P M.
Proof.
  induction P as [|[n f] P IH]; intros M H; [destruct M; reflexivity|].
  destruct M as [|b M]; [reflexivity|]. cbn [sel selflags sep] in *. destruct H as [Hs Hb].
  destruct b.
  - cbn [register find]. rewrite String.eqb_refl. f_equal. now apply IH.
  - specialize (Hb eq_refl). rewrite <- (IH M Hs).
    destruct (sel P M) as [|c cs] eqn:E; [reflexivity|].
    cbn [register find]. destruct (String.eqb_spec c n); [contradiction|].
    destruct (find_sel_hd P M c cs E) as (f' & P' & ->). reflexivity.
Qed.
Print Assumptions register_sel.
