From Coq Require Import ZArith List Bool Lia Permutation Sorted.
Import ListNotations.
Open Scope Z_scope.
Section Merge.
Variable Ev : Type.
Variable key : Ev -> Z.                       (* ts, or 0 for events without ts *)
Definition item := (Ev * nat)%type.           (* event and the index of the file it came from *)
(* list.sort(reverse=True) after append: the new item goes behind every item whose key is >= its key *)
Fixpoint ins (x : item) (front : list item) : list item :=
  match front with
  | [] => [x]
  | y :: r => if key (fst x) <=? key (fst y) then y :: ins x r else x :: y :: r
  end.
Definition files := list (list Ev).
Fixpoint take_at (i : nat) (fs : files) : option (Ev * files) :=
  match fs, i with
  | [], _ => None
  | f :: r, O => match f with [] => None | e :: f' => Some (e, f' :: r) end
  | f :: r, S i' => match take_at i' r with Some (e, r') => Some (e, f :: r') | None => None end
  end.
(* pop() takes the LAST element *)
Definition pop (front : list item) : option (item * list item) :=
  match rev front with [] => None | x :: r => Some (x, rev r) end.
(* one __next__ call on (front, remaining files, enabled flags); the real loop would silently
   drop an event of a disabled file and continue - kept as the Lost outcome *)
Inductive step_res := Stop | Lost | Emit (e : Ev) (front : list item) (fs : files) (en : list bool).
Definition step (front : list item) (fs : files) (en : list bool) : step_res :=
  match pop front with
  | None => Stop
  | Some ((e, i), front') =>
      if nth i en false then
        match take_at i fs with
        | Some (x, fs') => Emit e (ins (x, i) front') fs' en
        | None => Emit e front' fs (firstn i en ++ false :: skipn (S i) en)
        end
      else Lost
  end.
Fixpoint run (fuel : nat) (front : list item) (fs : files) (en : list bool) : option (list Ev * files) :=
  match fuel with
  | O => match front with [] => Some ([], fs) | _ => None end
  | S f => match step front fs en with
           | Stop => Some ([], fs)
           | Lost => None
           | Emit e front' fs' en' =>
               match run f front' fs' en' with Some (o, fe) => Some (e :: o, fe) | None => None end
           end
  end.

Lemma ins_perm x front : Permutation (ins x front) (x :: front).
Proof.
  induction front as [|y r IH]; cbn [ins]; [reflexivity|].
  destruct (_ <=? _); [|reflexivity]. rewrite IH. apply perm_swap.
Qed.
Lemma pop_perm front x r : pop front = Some (x, r) -> Permutation front (x :: r).
Proof.
  unfold pop. destruct (rev front) as [|y t] eqn:E; [discriminate|]. intros H; injection H as <- <-.
  rewrite <- (rev_involutive front), E. cbn [rev]. rewrite Permutation_app_comm. reflexivity.
Qed.
Lemma take_at_perm i : forall fs e fs', take_at i fs = Some (e, fs') -> Permutation (concat fs) (e :: concat fs').
Proof.
  induction i as [|i IH]; intros [|f r] e fs' H; cbn [take_at] in H; try discriminate.
  - destruct f as [|x f']; [discriminate|]. injection H as <- <-. reflexivity.
  - destruct (take_at i r) as [[x r']|] eqn:E; [|discriminate]. injection H as <- <-.
    cbn [concat]. rewrite (IH _ _ _ E). symmetry. apply Permutation_middle.
Qed.
(* everything still to come: events in the front plus what is left in the files *)
Definition pending (front : list item) (fs : files) : list Ev := map fst front ++ concat fs.

(* loss-freedom, part 1: whatever is emitted plus what is left unread is exactly what was pending *)
Theorem run_perm fuel : forall front fs en out fe,
  run fuel front fs en = Some (out, fe) -> Permutation (pending front fs) (out ++ concat fe).
Proof.
  induction fuel as [|f IH]; intros front fs en out fe H; cbn [run] in H.
  - destruct front; [|discriminate]. injection H as <- <-. reflexivity.
  - unfold step in H. destruct (pop front) as [[[e i] front']|] eqn:Ep.
    2:{ injection H as <- <-. unfold pop in Ep. destruct (rev front) eqn:E; [|discriminate].
        assert (front = []) by (rewrite <- (rev_involutive front), E; reflexivity). subst. reflexivity. }
    destruct (nth i en false); [|discriminate].
    pose proof (pop_perm _ _ _ Ep) as Pf.
    destruct (take_at i fs) as [[x fs']|] eqn:Et.
    + destruct (run f (ins (x, i) front') fs' en) as [[o fe']|] eqn:Er; [|discriminate].
      injection H as <- <-. specialize (IH _ _ _ _ _ Er). unfold pending in *.
      rewrite Pf. cbn [map fst app]. apply perm_skip.
      rewrite (take_at_perm _ _ _ _ Et).
      rewrite <- IH. rewrite (Permutation_map fst (ins_perm (x, i) front')). cbn [map fst app].
      symmetry. apply Permutation_middle.
    + destruct (run f front' fs _) as [[o fe']|] eqn:Er; [|discriminate].
      injection H as <- <-. specialize (IH _ _ _ _ _ Er). unfold pending in *.
      rewrite Pf. cbn [map fst app]. apply perm_skip. exact IH.
Qed.
End Merge.
Print Assumptions run_perm.
