From Coq Require Import List Arith Lia Bool.
Import ListNotations.
Set Implicit Arguments.
Section Pipe.
Variables E S : Type.
Record stage := { cb : S -> E -> S * list E; cid : nat; dr : S -> S * list E; bar : bool }.
Definition store := nat -> S.
Definition upd (st : store) (i : nat) (s : S) : store := fun j => if Nat.eqb i j then s else st j.
Fixpoint feedc (g : stage) (s : S) (es : list E) : S * list E :=
  match es with
  | [] => (s, [])
  | e :: r => let '(s1, o) := cb g s e in let '(s2, o2) := feedc g s1 r in (s2, o ++ o2)
  end.
Definition feed (g : stage) (st : store) (es : list E) : store * list E :=
  let '(s, o) := feedc g (st (cid g)) es in (upd st (cid g) s, o).
Fixpoint through (gs : list stage) (st : store) (es : list E) : store * list E :=
  match gs with
  | [] => (st, es)
  | g :: r => let '(st1, o) := feed g st es in through r st1 o
  end.
Fixpoint drain (gs : list stage) (st : store) : store * list E :=
  match gs with
  | [] => (st, [])
  | g :: r => let '(s', pend) := dr g (st (cid g)) in
              let '(st1, o1) := through r (upd st (cid g) s') pend in
              let '(st2, o2) := drain r st1 in (st2, o1 ++ o2)
  end.
Fixpoint inputs (gs : list stage) (st : store) (es : list E) : store * list E :=
  match es with
  | [] => (st, [])
  | e :: r => let '(st1, o) := through gs st [e] in
              let '(st2, o2) := inputs gs st1 r in (st2, o ++ o2)
  end.
Definition run (gs : list stage) (st : store) (es : list E) : list E :=
  let '(st1, o) := inputs gs st es in let '(_, o2) := drain gs st1 in o ++ o2.

(* stream view *)
Definition streamc (g : stage) (s : S) (es : list E) : list E :=
  let '(s1, o) := feedc g s es in let '(_, d) := dr g s1 in o ++ d.
Fixpoint compose (gs : list stage) (st : store) (es : list E) : list E :=
  match gs with
  | [] => es
  | g :: r => if bar g then compose r st es else compose r st (streamc g (st (cid g)) es)
  end.

(* ---------- store reasoning ---------- *)
Definition agree (cs : list nat) (a b : store) := forall i, In i cs -> a i = b i.
Definition cids (gs : list stage) := map cid gs.

(* the shared barrier cell and its operations *)
Variable BC : nat.
Variable happ : S -> E -> S.
Variable hlist : S -> list E.
Variable hempty : S.
Hypothesis hlist_app : forall s e, hlist (happ s e) = hlist s ++ [e].
Hypothesis hlist_empty : hlist hempty = [].
Definition is_barrier (g : stage) : Prop :=
  cid g = BC /\ (forall s e, cb g s e = (happ s e, [])) /\ (forall s, dr g s = (hempty, hlist s)).
Inductive wf : list stage -> Prop :=
| wf_nil : wf []
| wf_bar g r : bar g = true -> is_barrier g -> wf r -> wf (g :: r)
| wf_priv g r : bar g = false -> ~ In (cid g) (cids r) -> wf r -> wf (g :: r).

Lemma feedc_app g s a b :
  feedc g s (a ++ b) = let '(s1, oa) := feedc g s a in let '(s2, ob) := feedc g s1 b in (s2, oa ++ ob).
Proof.
  revert s; induction a as [|x a IH]; intros s; cbn [feedc app].
  - destruct (feedc g s b); reflexivity.
  - destruct (cb g s x) as [s1 o]. rewrite IH.
    destruct (feedc g s1 a) as [s2 oa]. destruct (feedc g s2 b) as [s3 ob]. now rewrite app_assoc.
Qed.

Lemma upd_same st i s : upd st i s i = s.
Proof. unfold upd. now rewrite Nat.eqb_refl. Qed.
Lemma upd_other st i s j : i <> j -> upd st i s j = st j.
Proof. unfold upd. intros H. destruct (Nat.eqb_spec i j); congruence. Qed.


Lemma through_frame gs : forall x o i, ~ In i (cids gs) -> fst (through gs x o) i = x i.
Proof.
  induction gs as [|h t IH]; intros x o i Hn; cbn [through]; [reflexivity|].
  unfold feed. destruct (feedc h (x (cid h)) o) as [s' o'].
  rewrite IH by (intro; apply Hn; now right).
  apply upd_other. intro; apply Hn; left; congruence.
Qed.

Lemma through_det gs : forall a b es,
  agree (cids gs) a b ->
  snd (through gs a es) = snd (through gs b es) /\
  agree (cids gs) (fst (through gs a es)) (fst (through gs b es)).
Proof.
  induction gs as [|g r IH]; intros a b es H; cbn [through].
  - split; [reflexivity | intros i []].
  - unfold feed. rewrite <- (H (cid g)) by (left; reflexivity).
    destruct (feedc g (a (cid g)) es) as [s o].
    assert (Hr : agree (cids r) (upd a (cid g) s) (upd b (cid g) s)).
    { intros i Hi. unfold upd. destruct (Nat.eqb (cid g) i); [reflexivity|]. apply H. now right. }
    destruct (IH _ _ o Hr) as [H1 H2]. split; [exact H1|].
    intros i [Hi|Hi]; [|now apply H2].
    subst i. destruct (in_dec Nat.eq_dec (cid g) (cids r)) as [Hin|Hnin]; [now apply H2|].
    rewrite !through_frame by assumption. now rewrite !upd_same.
Qed.

(* pointwise equal stores *)
Definition peq (a b : store) := forall i, a i = b i.
Lemma peq_agree cs a b : peq a b -> agree cs a b.
Proof. intros H i _. apply H. Qed.

Lemma through_peq gs a b es : peq a b ->
  snd (through gs a es) = snd (through gs b es) /\ peq (fst (through gs a es)) (fst (through gs b es)).
Proof.
  intros H. destruct (through_det gs es (peq_agree (cids gs) H)) as [H1 H2]. split; [exact H1|].
  intros i. destruct (in_dec Nat.eq_dec i (cids gs)) as [Hi|Hi]; [now apply H2|].
  rewrite !through_frame by assumption. apply H.
Qed.


Lemma through_nil gs : forall st, snd (through gs st []) = [] /\ peq (fst (through gs st [])) st.
Proof.
  induction gs as [|g t IHt]; intros st; cbn [through]; [split; [reflexivity|intros i; reflexivity]|].
  unfold feed. cbn [feedc]. destruct (IHt (upd st (cid g) (st (cid g)))) as [H1 H2]. split; [exact H1|].
  intros i. rewrite H2. unfold upd. destruct (Nat.eqb_spec (cid g) i); congruence.
Qed.

Lemma feedc_bar g : is_barrier g -> forall es s, snd (feedc g s es) = [] /\ hlist (fst (feedc g s es)) = hlist s ++ es.
Proof.
  intros (_ & Hcb & _). induction es as [|e r IH]; intros s; cbn [feedc].
  - split; [reflexivity | now rewrite app_nil_r].
  - rewrite Hcb. destruct (IH (happ s e)) as [I1 I2]. destruct (feedc g (happ s e) r) as [s2 o2].
    cbn [fst snd] in *. subst o2. split; [reflexivity|]. rewrite I2, hlist_app, <- app_assoc. reflexivity.
Qed.

Lemma through_app gs : wf gs -> forall st a b,
  snd (through gs st (a ++ b)) =
    snd (through gs st a) ++ snd (through gs (fst (through gs st a)) b) /\
  peq (fst (through gs st (a ++ b))) (fst (through gs (fst (through gs st a)) b)).
Proof.
  induction 1 as [|g r Hb Hbar Hwf IH|g r Hb Hnin Hwf IH]; intros st a b; cbn [through].
  - split; [reflexivity | intros i; reflexivity].
  - (* barrier: outputs nothing; everything after sees [] *)
    set (c := cid g) in *.
    unfold feed. fold c. rewrite feedc_app.
    destruct (feedc_bar Hbar a (st c)) as [Oa _].
    destruct (feedc g (st c) a) as [s1 xa] eqn:Ea. cbn [snd] in Oa. subst xa.
    destruct (feedc_bar Hbar b s1) as [Ob _].
    destruct (feedc g s1 b) as [s2 xb] eqn:Eb. cbn [snd] in Ob. subst xb. cbn [app].
    destruct (through_nil r (upd st c s2)) as [N1 N2].
    destruct (through_nil r (upd st c s1)) as [M1 M2].
    set (q1 := fst (through r (upd st c s1) [])) in *.
    assert (Hq : q1 c = s1) by (rewrite M2; apply upd_same).
    rewrite Hq, Eb.
    destruct (through_nil r (upd q1 c s2)) as [K1 K2].
    split.
    + rewrite N1, M1, K1. reflexivity.
    + intros i. rewrite N2, K2. unfold upd. destruct (Nat.eqb_spec c i); [reflexivity|].
      rewrite M2. unfold upd. destruct (Nat.eqb_spec c i); congruence.
  - set (c := cid g) in *.
    assert (Hci : forall i, In i (cids r) -> c <> i) by (intros i Hi Heq; apply Hnin; now rewrite Heq).
    unfold feed. fold c. rewrite feedc_app.
    destruct (feedc g (st c) a) as [s1 xa] eqn:Ea.
    destruct (feedc g s1 b) as [s2 xb] eqn:Eb.
    destruct (IH (upd st c s2) xa xb) as [IH1 IH2].
    assert (Ag1 : agree (cids r) (upd st c s2) (upd st c s1)).
    { intros i Hi. rewrite !upd_other; [reflexivity| |]; now apply Hci. }
    destruct (through_det r xa Ag1) as [D1 D2].
    set (p1 := fst (through r (upd st c s2) xa)) in *.
    set (q1 := fst (through r (upd st c s1) xa)) in *.
    assert (Hq1c : q1 c = s1).
    { unfold q1. rewrite through_frame by assumption. apply upd_same. }
    rewrite Hq1c, Eb.
    assert (Ag2 : agree (cids r) p1 (upd q1 c s2)).
    { intros i Hi. rewrite upd_other by (now apply Hci). now apply D2. }
    destruct (through_det r xb Ag2) as [D3 D4].
    split.
    + rewrite IH1, D1, D3. reflexivity.
    + intros i. rewrite IH2.
      destruct (in_dec Nat.eq_dec i (cids r)) as [Hi|Hi]; [now apply D4|].
      rewrite !through_frame by assumption.
      unfold p1. rewrite through_frame by assumption.
      destruct (Nat.eq_dec c i) as [<-|Hne].
      * now rewrite !upd_same.
      * rewrite !upd_other by assumption. unfold q1. rewrite through_frame by assumption.
        now rewrite upd_other.
Qed.

Lemma inputs_through gs : wf gs -> forall es st,
  snd (inputs gs st es) = snd (through gs st es) /\ peq (fst (inputs gs st es)) (fst (through gs st es)).
Proof.
  intros W. induction es as [|e r IH]; intros st.
  - cbn [inputs]. destruct (through_nil gs st) as [H1 H2]. split; [now rewrite H1 | intros i; now rewrite H2].
  - cbn [inputs]. destruct (through gs st [e]) as [st1 o] eqn:E1.
    destruct (inputs gs st1 r) as [st2 o2] eqn:E2.
    destruct (@through_app gs W st [e] r) as [H1 H2]. cbn [app] in H1, H2.
    rewrite E1 in H1, H2. cbn [fst snd] in *.
    specialize (IH st1). rewrite E2 in IH. cbn [fst snd] in IH. destruct IH as [I1 I2].
    split.
    + rewrite H1, I1. reflexivity.
    + intros i. rewrite I2, H2. reflexivity.
Qed.

Lemma drain_det gs : forall a b, agree (cids gs) a b -> snd (drain gs a) = snd (drain gs b).
Proof.
  induction gs as [|g r IH]; intros a b H; cbn [drain]; [reflexivity|].
  rewrite <- (H (cid g)) by (left; reflexivity).
  destruct (dr g (a (cid g))) as [s' pend].
  assert (Hr : agree (cids r) (upd a (cid g) s') (upd b (cid g) s')).
  { intros i Hi. unfold upd. destruct (Nat.eqb (cid g) i); [reflexivity|]. apply H. now right. }
  destruct (through_det r pend Hr) as [D1 D2].
  destruct (through r (upd a (cid g) s') pend) as [sa oa].
  destruct (through r (upd b (cid g) s') pend) as [sb ob]. cbn [fst snd] in *. subst ob.
  specialize (IH sa sb D2).
  destruct (drain r sa) as [? o2]. destruct (drain r sb) as [? o2']. cbn [snd] in *. now subst.
Qed.


(* compose ignores the cells of barrier stages *)
Definition pcids (gs : list stage) := map cid (filter (fun g => negb (bar g)) gs).
Lemma compose_det gs : forall a b es, agree (pcids gs) a b -> compose gs a es = compose gs b es.
Proof.
  induction gs as [|g r IH]; intros a b es H; cbn [compose]; [reflexivity|].
  unfold pcids in H. cbn [filter] in H. destruct (bar g); cbn [negb map] in H.
  - now apply IH.
  - rewrite <- (H (cid g)) by (left; reflexivity). apply IH. intros i Hi. apply H. now right.
Qed.

Lemma wf_BC_notin gs : wf gs -> ~ In BC (pcids gs) -> True. Proof. trivial. Qed.

Theorem stream_compose gs : wf gs -> ~ In BC (pcids gs) ->
  forall st es, hlist (st BC) = [] -> run gs st es = compose gs st es.
Proof.
  induction 1 as [|g r Hb Hbar Hwf IH|g r Hb Hnin Hwf IH]; intros HB st es H0.
  - unfold run. cbn [compose drain].
    destruct (@inputs_through [] wf_nil es st) as [H1 _]. cbn [through snd] in H1.
    destruct (inputs [] st es) as [st1 o]. cbn [snd] in H1. subst. now rewrite app_nil_r.
  - (* barrier first *)
    assert (W : wf (g :: r)) by (now apply wf_bar).
    assert (HB' : ~ In BC (pcids r)).
    { intro Hin. apply HB. unfold pcids in *. cbn [filter]. now rewrite Hb. }
    cbn [compose]. rewrite Hb.
    destruct Hbar as (Hc & Hcb & Hdr).
    assert (Hbar : is_barrier g) by (repeat split; assumption).
    unfold run at 1.
    destruct (@inputs_through (g :: r) W es st) as [H1 H2].
    destruct (inputs (g :: r) st es) as [sti oi]. cbn [fst snd] in H1, H2.
    cbn [through] in H1, H2. unfold feed in H1, H2. rewrite Hc in H1, H2.
    destruct (feedc_bar Hbar es (st BC)) as [O1 O2].
    destruct (feedc g (st BC) es) as [s1 o] eqn:Ef. cbn [fst snd] in O1, O2. subst o.
    rewrite H0 in O2. cbn [app] in O2.
    destruct (through_nil r (upd st BC s1)) as [N1 N2].
    cbn [drain]. rewrite Hc.
    assert (Hs : sti BC = s1) by (rewrite H2, N2; apply upd_same).
    rewrite Hs, Hdr, O2.
    (* now: through r (upd sti BC hempty) es, then drain r  ==  run r (upd st BC hempty) es *)
    assert (Cd : compose r st es = compose r (upd st BC hempty) es).
    { apply compose_det. intros i Hi. rewrite upd_other; [reflexivity|]. intro Heq; apply HB'; now rewrite Heq. }
    rewrite Cd.
    rewrite <- (IH HB' (upd st BC hempty) es) by (rewrite upd_same; exact hlist_empty).
    unfold run.
    destruct (@inputs_through r Hwf es (upd st BC hempty)) as [J1 J2].
    destruct (inputs r (upd st BC hempty) es) as [stj oj]. cbn [fst snd] in J1, J2.
    assert (Pq : peq (upd sti BC hempty) (upd st BC hempty)).
    { intros i. unfold upd. destruct (Nat.eqb_spec BC i); [reflexivity|].
      rewrite H2, N2. unfold upd. destruct (Nat.eqb_spec BC i); congruence. }
    destruct (through_peq r es Pq) as [T1 T2].
    destruct (through r (upd sti BC hempty) es) as [st2 o2]. cbn [fst snd] in T1, T2.
    assert (Ag : agree (cids r) st2 stj).
    { intros i _. rewrite T2, J2. reflexivity. }
    pose proof (drain_det r Ag) as D5.
    destruct (drain r st2) as [? o3]. destruct (drain r stj) as [? o3']. cbn [snd] in D5. subst o3'.
    rewrite H1, N1, J1, T1. reflexivity.
  - (* private stage first *)
    assert (W : wf (g :: r)) by (now apply wf_priv).
    assert (HB' : ~ In BC (pcids r)).
    { intro Hin. apply HB. unfold pcids in *. cbn [filter]. rewrite Hb. cbn [negb map]. now right. }
    cbn [compose]. rewrite Hb. unfold streamc.
    set (c := cid g).
    assert (Hci : forall i, In i (cids r) -> c <> i) by (intros i Hi Heq; apply Hnin; unfold c in Heq; now rewrite Heq).
    destruct (feedc g (st c) es) as [s1 o] eqn:Ef.
    destruct (dr g s1) as [s' d] eqn:Ed.
    rewrite <- (IH HB' st (o ++ d) H0).
    unfold run at 1.
    destruct (@inputs_through (g :: r) W es st) as [H1 H2].
    destruct (inputs (g :: r) st es) as [sti oi]. cbn [fst snd] in H1, H2.
    cbn [through] in H1, H2. unfold feed in H1, H2. fold c in H1, H2. rewrite Ef in H1, H2.
    set (T1 := through r (upd st c s1) o) in *.
    cbn [drain]. fold c.
    assert (Hc : sti c = s1).
    { rewrite H2. unfold T1. rewrite through_frame by assumption. apply upd_same. }
    rewrite Hc, Ed.
    unfold run.
    destruct (@inputs_through r Hwf (o ++ d) st) as [A' B'].
    destruct (inputs r st (o ++ d)) as [stj oj]. cbn [fst snd] in A', B'.
    destruct (@through_app r Hwf st o d) as [P1 P2].
    assert (Ag1 : agree (cids r) st (upd st c s1)).
    { intros i Hi. rewrite upd_other; [reflexivity|]. now apply Hci. }
    destruct (through_det r o Ag1) as [D1 D2]. fold T1 in D1, D2.
    assert (Ag2 : agree (cids r) (fst (through r st o)) (upd sti c s')).
    { intros i Hi. rewrite upd_other by (now apply Hci). rewrite H2. now apply D2. }
    destruct (through_det r d Ag2) as [D3 D4].
    destruct (through r (upd sti c s') d) as [st2 o2] eqn:E2. cbn [fst snd] in D3, D4.
    assert (Ag3 : agree (cids r) stj st2).
    { intros i Hi. rewrite B', P2. now apply D4. }
    pose proof (drain_det r Ag3) as D5.
    destruct (drain r st2) as [st3 o3]. destruct (drain r stj) as [st3' o3']. cbn [snd] in D5. subst o3'.
    rewrite H1, A', P1, D1, D3. now rewrite app_assoc.
Qed.
End Pipe.
Print Assumptions stream_compose.
