From Coq Require Import ZArith QArith Qround Lia Lqa.
Open Scope Q_scope.
Definition W : Z := 4294967296%Z.
Lemma floor_epochs (f H : Q) (cref qmin : Z) :
  0 < f ->
  Qfloor (((H + inject_Z cref / f) - (H + inject_Z qmin * (inject_Z W / f))) / (inject_Z W / f))
  = ((cref - qmin * W) / W)%Z.
Proof.
  intros Hf.
  assert (E : ((H + inject_Z cref / f) - (H + inject_Z qmin * (inject_Z W / f))) / (inject_Z W / f)
              == inject_Z (cref - qmin * W) / inject_Z W).
  { unfold Z.sub. rewrite inject_Z_plus, inject_Z_opp, inject_Z_mult. unfold W. field. lra. }
  rewrite E. rewrite Zdiv_Qdiv. reflexivity.
Qed.
Print Assumptions floor_epochs.
