From Coq Require Import List Arith Lia Bool.
Import ListNotations.
Require Import P.
(* concrete instance to sanity-check the stream_compose statement incl. shared barrier *)
Definition E := nat. Definition S := list nat.
Inductive beh := Pass | DropOdd | Dup | Hold | Barrier | HoldRev.
Definition mk (b : beh) (c : nat) : stage E S :=
  match b with
  | Pass => {| cb := fun s e => (s, [e]); cid := c; dr := fun s => (s, []) |}
  | DropOdd => {| cb := fun s e => (s, if Nat.odd e then [] else [e]); cid := c; dr := fun s => (s, []) |}
  | Dup => {| cb := fun s e => (s, [e; e+100]); cid := c; dr := fun s => (s, []) |}
  | Hold => {| cb := fun s e => (s ++ [e], []); cid := c; dr := fun s => ([], s) |}
  | HoldRev => {| cb := fun s e => (e :: s, if Nat.even e then [e+1000] else []); cid := c; dr := fun s => ([], s) |}
  | Barrier => {| cb := fun s e => (s ++ [e], []); cid := 0; dr := fun s => ([], s) |}  (* shared cid 0 *)
  end.
Fixpoint mkall (bs : list beh) (n : nat) : list (stage E S) :=
  match bs with [] => [] | b :: r => mk b n :: mkall r (Datatypes.S n) end.
Definition st0 : store S := fun _ => [].
(* stream semantics of one stage, on private cell *)
Definition stream (g : stage E S) (es : list E) : list E :=
  let '(st1, o) := feed E S g st0 es in let '(_, d) := dr E S g (st1 (cid E S g)) in o ++ d.
Definition compose (gs : list (stage E S)) (es : list E) : list E := fold_left (fun s g => stream g s) gs es.
Definition test (bs : list beh) (es : list E) : bool :=
  let gs := mkall bs 1 in
  if list_eq_dec Nat.eq_dec (run E S gs st0 es) (compose gs es) then true else false.
Fixpoint allb (n : nat) : list (list beh) :=
  match n with 0 => [[]] | Datatypes.S k => flat_map (fun l => map (fun b => b :: l) [Pass;DropOdd;Dup;Hold;Barrier;HoldRev]) (allb k) ++ allb k end.
Time Eval vm_compute in forallb (fun bs => test bs [1;2;3;4] && test bs [2;2;5] && test bs []) (allb 5).
Eval vm_compute in run E S (mkall [Dup;Barrier;HoldRev;Barrier;Pass] 1) st0 [1;2;3].
