From Coq Require Import List Arith Lia Permutation.
Import ListNotations.
Section Pipe.
Variable E : Type.      (* events *)
Variable S : Type.      (* context state *)
(* a stage: callback on (its context's state) and the id of the context it is registered with *)
Record stage := { cb : S -> E -> S * list E; cid : nat; dr : S -> S * list E }.
Definition store := nat -> S.
Definition upd (st : store) (i : nat) (s : S) : store := fun j => if Nat.eqb i j then s else st j.

(* feed a list of events to one stage, element-wise, threading the context state *)
Fixpoint feed (g : stage) (st : store) (es : list E) : store * list E :=
  match es with
  | [] => (st, [])
  | e :: r => let '(s', out) := cb g (st (cid g)) e in
              let '(st'', out') := feed g (upd st (cid g) s') r in (st'', out ++ out')
  end.
(* pre_process: through all remaining stages *)
Fixpoint through (gs : list stage) (st : store) (es : list E) : store * list E :=
  match gs with
  | [] => (st, es)
  | g :: r => let '(st', out) := feed g st es in through r st' out
  end.
(* drain: pop stages front to back *)
Fixpoint drain (gs : list stage) (st : store) : store * list E :=
  match gs with
  | [] => (st, [])
  | g :: r => let '(s', pend) := dr g (st (cid g)) in
              let '(st1, out1) := through r (upd st (cid g) s') pend in
              let '(st2, out2) := drain r st1 in (st2, out1 ++ out2)
  end.
Fixpoint inputs (gs : list stage) (st : store) (es : list E) : store * list E :=
  match es with
  | [] => (st, [])
  | e :: r => let '(st', o) := through gs st [e] in
              let '(st'', o') := inputs gs st' r in (st'', o ++ o')
  end.
Definition run (gs : list stage) (st : store) (es : list E) : list E :=
  let '(st', o) := inputs gs st es in let '(_, o') := drain gs st' in o ++ o'.

(* element-wise processing equals batch processing: feeding events one by one through the whole
   chain is NOT the same as batch in general (interleaving differs) -- but per stage the received sequence is *)
Lemma feed_app g st a b :
  feed g st (a ++ b) = let '(st', oa) := feed g st a in let '(st'', ob) := feed g st' b in (st'', oa ++ ob).
Proof.
  revert st; induction a as [|x a IH]; intros st; cbn [feed app].
  - destruct (feed g st b); reflexivity.
  - destruct (cb g (st (cid g)) x) as [s' o].
    rewrite IH. destruct (feed g (upd st (cid g) s') a) as [st' oa].
    destruct (feed g st' b) as [st'' ob]. now rewrite app_assoc.
Qed.
End Pipe.
