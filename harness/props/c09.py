"""C09 - flow arrows connect each matched send to its receive, with unique paired ids.

Ties (model Flow.v evaluated by vm_compute inside coqc vs the REAL functions of pipeline/coll_group.py):
  kernel  Flow.run_val    vs flow_prepare_event_data -> flow_extraction(CollectiveGroupingContext) -> flow_data_cleanup
                             on generated streams (+ the context drain): every exported event, stale_drop, problem_count,
                             flow_sequence_id, or the exception class
  prep    Flow.prep_val   vs flow_prepare_event_data on single events with adversarial names / peer encodings
  group   Flow.group_val  vs CollectiveGroupingContext.insert / detect_final / build_flows on one queue in shuffled order
  fsub    Flow.fsub_val   vs create_flow_events_from_pair's  ts + dur - 0.001  (bit-exact binary64 rounding)
  e2e     Flow.e2e_val    vs Acelyzer(--flow).run() in process on multi-rank chain all-reduce scenarios
                             (common/collectives.py): the events entering flow_prepare_event_data are recorded by wrapping the
                             callback at registration time, pushed through the model, and compared with the s/f events of
                             the exported JSON.
Oracle (independent of the model, brute force on the implementation's output + the generator's ground truth):
  ids paired and unique, same name; s at the start of a send slice (pid, tid, ts) that carries the sync tag; f with bp=e on
  the peer named by the send, inside the end of a WDone receive with the same tag; one arrow per send of every complete group;
  no helper (ph F) event in the output.
Names as data: group names and sync tags are free text to the tool.  Kernel streams and end-to-end scenarios draw them with
  the words the tool itself looks for in event names (Receive/Recv, RDMA/Rdma, Send, sync, Recv_<n>_, digits, underscores,
  brackets) in front of, inside and behind the usual text, repeated (gen_group_name, gen_tag_wrap, rename_collectives).  The
  oracle reads the tag of a slice from the EXPORTED slice name and pairs by the generator's slice uids; it knows nothing of
  the tool's renaming of event names.
"""
import copy
import hashlib
import json
import os
import re
import random
import shutil
import time
from fractions import Fraction

from common import coqrun, enc
from common import collectives

ID = "C09"
PROP_FILE = "props/C09.v"
MODEL_TARGETS = ["theories/Flow.vo"]
THEOREMS = ["C09_ids", "C09_pairs_sound", "C09_arrow_placement", "C09_build_complete", "C09_detect_final_perm",
            "C09_chain", "C09_chain_minus_one", "C09_no_helpers", "C09_sync_tag_read_exactly"]
ALLOWED_AXIOMS = []
MANIFEST = {
    "text": "Proof (partial for whole-stream completeness). Coq theorems over an executable model (Flow.v) of "
            "flow_prepare_event_data, CollectiveGroupingContext.insert/group_candidates/detect_final/find_recv_partner/"
            "build_flows/create_flow_events_from_pair/check_drop_group/drain, flow_extraction and flow_data_cleanup, for "
            "arbitrary event streams (no bound): the arrows of a run are, up to order, s/f pairs numbered by a strictly "
            "increasing counter, every id on exactly one s and one f with the same name (C09_ids); each pair joins a "
            "SEND-typed helper with a DONE-typed helper of the same sync tag on the pid the send names first, s on the "
            "sender's pid/tid at the send's ts, f with bp=e on the receiver's pid/tid at binary64(ts+dur-0.001) "
            "(C09_pairs_sound, C09_arrow_placement), both helpers being the copies made of input slices; a group "
            "check yields exactly one pair per send that has a matching receive and none otherwise (C09_build_complete); "
            "detect_final depends only on the multiset of queued events (C09_detect_final_perm); the canonical chain "
            "all-reduce group of ANY N >= 2 ranks is final in every arrival order and is not final when any single event "
            "is missing (C09_chain, C09_chain_minus_one); no ph F event is exported (C09_no_helpers). The model is tied "
            "to the code by five correspondence runs (kernel streams, prepare, group queue, float subtraction, end to "
            "end through Acelyzer --flow) and an independent oracle on the exported JSON.",
    "note": "partial: that a complete group is actually REACHED by a group check before end of input / not hit by the "
            "stale rule (whole-stream emission) is not a Coq theorem; it is covered by the kernel and end-to-end ties and "
            "the oracle only (the drain half is immediate from the model: every queued group is checked once). "
            "'f lies inside the receive' is proved for the exact value ts+dur-0.001 under dur >= 0.001 "
            "(C09_arrow_placement); the exported double is its binary64 rounding (tied bit-exactly, not proved monotone). "
            "Trusted: Coq kernel + vm_compute; hand model tied by differential testing; Python str hash collisions, "
            "regex engine (three patterns re-implemented in Gallina and tied), IEEE round-to-nearest-even for one "
            "subtraction. Print Assumptions: closed under the global context.",
    "technique": "Coq proof (induction over streams/queues, permutation invariance, general-N counting) + vm_compute "
                 "correspondence against the real coll_group.py functions and Acelyzer --flow + brute-force oracle",
    "design_ref": "DESIGN.md section 4/C09",
}
TRUSTED = [
    "modelled, not verified: Python dict insertion order, str hash collision-freedom on the tags/groups of a run, "
    "copy.deepcopy, list.sort stability, re (the patterns _sync/_bytes/_recv/_send_data are re-implemented in Gallina and "
    "tied on generated and adversarial names), int() on decimal strings",
    "binary64 round-to-nearest-even for ts+dur-0.001 is modelled by Flow.b64_round (normal range) and tied bit-exactly",
    "events are projected to the keys the three stages read or write (io_type/step/jobhash/sync leftovers on arrows are "
    "not compared); build_coll_event=False",
    "end to end: the inflow of flow_prepare_event_data is observed by wrapping the callback when it is registered",
]
ASSUMPTIONS = [
    "--flow without --build_coll_event / --comm_summarize_seq; CollGroup names are not reused by a later collective",
    "times below 2^42 us on the 2^-11 grid; receive slices last at least 1 ns (else the arrow head precedes the slice)",
    "a collective's slices span less than the stale rule (4 x max(span, 5 s)) - otherwise the tool drops the group",
    "group names contain AllReduce_all_reduce (the clock alignment looks for it); names and sync tags are free of white "
    "space and of the lane word DmaI (the event classifier asserts on a send slice whose tag contains it - reported)",
]

TID_O, TID_I, TID_X = 1200, 1000, 1300


# ------------------------------------------------------------------------------------------------ encoding
def _pd(x):
    if x is None:
        return "None"
    if isinstance(x, str):
        return f"(Some (PStr {enc.S(x)}))"
    if isinstance(x, int):
        return f"(Some (PInt {enc.Z(x)}))"
    return "(Some (PList " + enc.L([enc.S(str(p)) for p in x]) + "))"


def coq_iev(ev, uid=None):
    a = ev.get("args") if isinstance(ev.get("args"), dict) else None
    g = (a or {}).get
    return ("(mkI " + " ".join([
        enc.S(ev["ph"]), enc.B(a is not None), enc.S(ev["name"]), enc.Z(ev["pid"]), enc.Z(ev["tid"]), enc.Q(ev["ts"]),
        enc.O(ev.get("dur"), enc.Q), _pd(g("Peer")), _pd(g("Peers")), enc.O(g("Type"), enc.S), enc.O(g("CollGroup"), enc.S),
        enc.B(a is not None and "Bytes" in a), enc.O(g("jobhash"), enc.Z),
        enc.Z(uid if uid is not None else ev.get("uid", 0))]) + ")")


def _pv(x):
    if x is None or isinstance(x, (str, int)):
        return x
    return [str(p) for p in x]


def obs_oev(ev):
    a = ev.get("args") if isinstance(ev.get("args"), dict) else {}
    flow = ev.get("ph") in ("s", "f")
    return [ev["ph"], ev["name"], ev["pid"], ev["tid"], _num(ev["ts"]), _num(ev.get("dur")), ev.get("id"),
            ev.get("bp") == "e", ev.get("cat"), None if flow else ev.get("uid"), _pv(a.get("Peer")), _pv(a.get("Peers"))]


def _num(x):
    if x is None:
        return None
    return Fraction(x)


def coq_hev(h):
    return ("(mkH " + " ".join([enc.Z(h["pid"]), enc.Z(h["tid"]), enc.Q(h["ts"]), enc.O(h.get("dur"), enc.Q),
                                enc.S(h["name"]), enc.S(h["cat"]), enc.S(h["sync"]), enc.Z(h["Type"]),
                                enc.L([enc.Z(p) for p in h["Peers"]]), enc.Z(h["jobhash"])]) + ")")


def obs_hev(h):
    return [h["pid"], h["tid"], _num(h["ts"]), _num(h.get("dur")), h["name"], h["cat"], h["sync"], h["Type"],
            list(h["Peers"]), h["jobhash"]]


# ------------------------------------------------------------------------------------------------ implementation drivers
def _cg():
    import aiu_trace_analyzer.pipeline.coll_group as cg
    return cg


def run_kernel(events):
    """the three registered stages + the context drain, as EventProcessor applies them (C03).  Returns
    (outputs as dicts, stale_drop, problem_count, flow_sequence_id) or enc.Err"""
    cg = _cg()
    ctx = cg.CollectiveGroupingContext(build_coll_event=False)
    out = []
    try:
        for ev in events:
            for e1 in cg.flow_prepare_event_data(copy.deepcopy(ev), None):
                for e2 in cg.flow_extraction(e1, ctx):
                    out += cg.flow_data_cleanup(e2, None)
        for e2 in ctx.drain():
            out += cg.flow_data_cleanup(e2, None)
        res = (out, ctx.stale_drop, ctx.problem_count, ctx.flow_sequence_id)
    except Exception as e:  # noqa: BLE001
        res = enc.Err(type(e).__name__)
    finally:
        ctx.problem_count = 0       # keep __del__ quiet
        ctx.stale_drop = 0
    return res


def kernel_obs(res):
    if isinstance(res, enc.Err):
        return res
    out, stale, prob, nid = res
    return [[obs_oev(o) for o in out], stale, prob, nid]


def run_prep(ev):
    cg = _cg()
    try:
        r = cg.flow_prepare_event_data(copy.deepcopy(ev), None)
    except Exception as e:  # noqa: BLE001
        return enc.Err(type(e).__name__)
    h = None
    if len(r) == 2:
        assert r[1]["ph"] == "F"
        h = obs_hev(r[1])
    return [obs_oev(r[0]), h]


def run_group(helpers):
    """queue of helper dicts (already prepared) -> [detect_final, [(send idx, recv idx)]]"""
    cg = _cg()
    ctx = cg.CollectiveGroupingContext(build_coll_event=False)
    try:
        gid = None
        for k, h in enumerate(helpers):
            d = dict(copy.deepcopy(h), ph="F", hx=k)
            g = ctx.insert(d, queue_id=12345)
            gid = g
        if gid is None:
            return None
        fin = bool(ctx.detect_final(gid))
        try:
            fl = ctx.build_flows(gid)
            canon = [obs_hev(h) for h in helpers]

            def first(k):           # indistinguishable helpers (by the modelled keys) are identified with the first one
                return canon.index(canon[k])
            pairs = [[first(fl[i]["hx"]), first(fl[i + 1]["hx"])] for i in range(0, len(fl), 2)]
        except Exception as e:  # noqa: BLE001
            pairs = enc.Err(type(e).__name__)
        return [fin, pairs]
    except Exception as e:  # noqa: BLE001
        return enc.Err(type(e).__name__)
    finally:
        ctx.problem_count = 0


def run_fsub(ts, dur):
    cg = _cg()
    ctx = cg.CollectiveGroupingContext()
    src = {"ph": "F", "ts": 0.0, "dur": 1.0, "pid": 0, "tid": 0, "sync": "x", "cat": "", "name": "a"}
    dst = dict(src, ts=ts, dur=dur, pid=1)
    _, f = ctx.create_flow_events_from_pair(src, dst)
    ctx.problem_count = 0
    return f["ts"]


# ------------------------------------------------------------------------------------------------ names as data
# A collective's group name and its sync tags are free text chosen by the runtime: the tool may only compare them for
# equality.  The generators therefore also use names / tags that contain the words the tool itself looks for in event
# names (spellings of the event kinds, "sync", digits, underscores, brackets), in several positions and multiplicities.
NAME_WORDS = ["Receive", "RDMA", "Rdma", "Recv", "Send", "sync", "RDMAReceive", "ReceiveRDMA", "RdmaRecv", "ReceiveReceive",
              "SenRDMAReceive", "SenRdmaSend", "Recv_3_", "Receive_12_", "sync=", "[sync=x", "[2", "[", "[[", "_", "__",
              "7", "0x3", "Data", "Xseg", "BcList", "DmaO", "receive", "rdma"]
# not in the list: the closing bracket (the tag is the text between "[sync=" and the next "]": a tag that contains one is
# not expressible in the name grammar), white space (it separates the parts of an event name) and the lane word "DmaI" - the event classifier
# (categorize.py get_event_class, not C09's subject) stops the run with an AssertionError "Flex and generic classificaton
# diff" on a send slice whose tag contains it (reported as a finding of the unchanged tree)
NAME_SEPS = ["_", "_", "", "__", "-", "."]


def _words(rng, lo, hi):
    out = ""
    for _ in range(rng.randint(lo, hi)):
        w = rng.choice(NAME_WORDS)
        if rng.random() < 0.25:
            w = w * 2                                     # the same word twice in a row
        out += w + rng.choice(NAME_SEPS)
    return out


def gen_group_name(rng, k, plain=0.35):
    """a group name that still says it is an all-reduce (the clock alignment of the tool looks for that substring) and is
    unique by its number k, with 0..3 words in front of, inside and behind it"""
    if rng.random() < plain:
        return f"AllReduce_all_reduce_{k}"
    pre = _words(rng, 1, 2) if rng.random() < 0.3 else ""
    mid = _words(rng, 1, 3) if rng.random() < 0.7 else ""
    post = (rng.choice(NAME_SEPS) + _words(rng, 1, 2).rstrip("_-.")) if rng.random() < 0.4 else ""
    if not (pre or mid or post):
        mid = _words(rng, 1, 1)
    return f"{pre}AllReduce_all_reduce_{mid}{k}{post}"


def gen_tag_wrap(rng, plain=0.6):
    """(prefix, suffix) put around every sync tag of one group: the tag stays unique within the run"""
    if rng.random() < plain:
        return "", ""
    pre = _words(rng, 1, 2) if rng.random() < 0.6 else ""
    post = (rng.choice(NAME_SEPS) + _words(rng, 1, 2).rstrip("_-.")) if rng.random() < 0.6 else ""
    return pre, post


_TAG_OR_NAME = re.compile(r"(AllReduce_all_reduce_\d+)(_s\d+_r(?:0x[0-9a-f]+|\d+)_\d+)?")


def rename_collectives(rng, sc):
    """collectives.py names every group AllReduce_all_reduce_<k> and every tag <group>_s<i>_r<j>_<n>: give each group a
    drawn name and tag decoration, consistently in every string of the files (event names, CollGroup) and of the ground
    truth (group names, sync tags of sends / receives / helpers, slice names)."""
    plan = {}
    for g in sc.coll["groups"]:
        k = int(g["name"].rsplit("_", 1)[1])
        plan[g["name"]] = (gen_group_name(rng, k),) + gen_tag_wrap(rng)
    if all(new == old and not a and not b for old, (new, a, b) in plan.items()):
        return sc

    def sub(m):
        new, a, b = plan.get(m.group(1), (m.group(1), "", ""))
        return (a + new + m.group(2) + b) if m.group(2) else new

    def walk(x):
        if isinstance(x, str):
            return _TAG_OR_NAME.sub(sub, x)
        if isinstance(x, list):
            return [walk(y) for y in x]
        if isinstance(x, dict):
            return {k: walk(v) for k, v in x.items()}
        return x

    sc.files = {fn: walk(evs) for fn, evs in sc.files.items()}
    sc.coll = walk(sc.coll)
    sc.truth = walk(sc.truth)
    sc.meta["renamed"] = {old: list(v) for old, v in plan.items()}
    return sc



# ------------------------------------------------------------------------------------------------ kernel stream generator
def _g(k):
    """times on the 2^-11 grid"""
    return k / 2048.0


def gen_stream(rng, R=None, groups=None, anomalies=True, t_scale=None):
    """a stream of slices in the shape they have when they reach flow_prepare_event_data (see a recorded inflow),
    made of chain all-reduce groups; returns (events, truth)."""
    R = R or rng.choice([2, 2, 3, 3, 4, 5, 6, 8])
    ngroups = groups if groups is not None else rng.choice([1, 1, 2, 2, 3, 4])
    scale = t_scale or rng.choice([1, 16, 2048])
    base = rng.choice([0, 0, 4096 * rng.randrange(1, 1 << 20)])
    evs, truth = [], {"groups": [], "flags": [], "ranks": R}
    uid = [0]
    serial = [rng.randrange(100, 90000)]
    flags = truth["flags"]
    size_last = rng.random() < 0.15        # the "[<n>B]" size tag of a receive may stand behind its sync tag

    def mk(name, pid, tid, a, b, args):
        uid[0] += 1
        args = dict(args, jobhash=1000 + pid, uid=uid[0])
        e = {"ph": "X", "name": name, "pid": pid, "tid": tid, "ts": _g(base + a * scale), "dur": _g((b - a) * scale),
             "uid": uid[0], "args": args}
        evs.append(e)
        return e

    t = rng.randrange(0, 50)
    ends = []
    no_cat_used = False
    for gi in range(ngroups):
        N = rng.randint(2, R)
        lo = rng.randrange(0, R - N + 1)
        ranks = list(range(lo, lo + N))
        name = gen_group_name(rng, 4 + 3 * gi, plain=0.6)
        tpre, tpost = gen_tag_wrap(rng, plain=0.75)
        if anomalies and gi > 0 and rng.random() < 0.06:
            name = truth["groups"][-1]["name"]
            flags.append("name_reuse")
        with_cat = True
        if anomalies and not no_cat_used and rng.random() < 0.08:
            with_cat, no_cat_used = False, True
        g = {"name": name if with_cat else "", "ranks": ranks, "sends": [], "recvs": [], "clean": True, "uids": []}
        cgd = {"CollGroup": name} if with_cat else {}
        nb = rng.choice([4096, 65536])
        t0 = t
        post = {r: t0 + rng.randrange(0, 5) for r in ranks}
        ready = t0 + rng.randrange(1, 10)
        mask = hex((1 << (N - 1)) - 1)
        sync_m = f"{tpre}{name}_s{ranks[-1]}_r{mask}_{2 * (N - 1)}{tpost}"
        peer_style = rng.choice(["str", "str", "str", "int"]) if anomalies else "str"
        for i in range(N - 1):
            src, dst = ranks[i], ranks[i + 1]
            sync = f"{tpre}{name}_s{src}_r{dst}_{2 * i}{tpost}"
            sa = ready + rng.randrange(0, 8)
            sb = sa + rng.randrange(1, 40)
            serial[0] += 1
            s = mk(f"SenRdmaSend_{serial[0]} [sync={sync}] DmaO", src, TID_O, sa, sb,
                   dict(cgd, Peer=(str(dst) if peer_style == "str" else dst), Type="SingleCast", bytes=str(nb)))
            ra, rb = post[dst], max(sb, post[dst] + 1) + rng.randrange(1, 9)
            serial[0] += 1
            r = mk((f"SenRdmaRecv_{serial[0]} [sync={sync}] [{nb}B] DmaI" if size_last else
                    f"SenRdmaRecv_{serial[0]} [{nb}B] [sync={sync}] DmaI"), dst, TID_I, ra, rb,
                   dict(cgd, Peer=str(src), Type="WDone Barrier", bytes=str(nb)))
            g["sends"].append({"uid": s["uid"], "peer": dst, "sync": sync, "recv": r["uid"]})
            g["recvs"].append({"uid": r["uid"], "sync": sync})
            post[dst] = rb + rng.randrange(0, 4)
            ready = rb
            if rng.random() < 0.5:
                mk(f"{name}_Add_{2 * i + 1} Cmpt Exec", dst, TID_X, rb, rb + rng.randrange(1, 9), dict(cgd))
        last = ranks[-1]
        serial[0] += 1
        n = serial[0]
        a = ready + rng.randrange(0, 5)
        b = a + rng.randrange(1, 9)
        plist = ",".join(str(r) for r in ranks[:-1])
        if anomalies and rng.random() < 0.15:
            plist = [str(r) for r in ranks[:-1]]
        mk(f"SenRdmaSend_{n} - Set BcList [sync={sync_m}] DmaO", last, TID_O, a, b, dict(cgd, Peers=plist, Type="Set BCList"))
        xs = []
        for j in range(N - 1):
            a = b + rng.randrange(0, 3)
            b = a + rng.randrange(1, 9)
            x = mk(f"SenRdmaSend_{n} - Xseg to rank {ranks[j]} [sync={sync_m}] DmaO", last, TID_O, a, b,
                   dict(cgd, Peer=str(ranks[j]), Type="MultiCast XSEG"))
            xs.append(x)
        a = b + rng.randrange(0, 3)
        b = a + rng.randrange(1, 40)
        mk(f"SenRdmaSend_{n} Data [sync={sync_m}] DmaO", last, TID_O, a, b, dict(cgd, Type="MultiCast", bytes=str(nb)))
        end = b
        for j in range(N - 1):
            dst = ranks[j]
            ra, rb = post[dst], max(b, post[dst] + 1) + rng.randrange(1, 12)
            serial[0] += 1
            r = mk((f"SenRdmaRecv_{serial[0]} [sync={sync_m}] [{nb}B] DmaI" if size_last else
                    f"SenRdmaRecv_{serial[0]} [{nb}B] [sync={sync_m}] DmaI"), dst, TID_I, ra, rb,
                   dict(cgd, Peer=str(last), Type="WDone Barrier", bytes=str(nb)))
            g["sends"].append({"uid": xs[j]["uid"], "peer": dst, "sync": sync_m, "recv": r["uid"]})
            g["recvs"].append({"uid": r["uid"], "sync": sync_m})
            end = max(end, rb)
        g["uids"] = [e["uid"] for e in evs if e["uid"] > (truth["groups"][-1]["uids"][-1] if truth["groups"] else 0)]
        g["t0"], g["end"] = t0, end
        truth["groups"].append(g)
        ends.append(end)
        if rng.random() < 0.5:
            t = t0 + rng.randrange(1, max(2, end - t0))            # interleaved with the next group
        else:
            t = end + rng.choice([rng.randrange(1, 30), rng.randrange(30, 3000)])
            if anomalies and rng.random() < 0.1:
                t += rng.choice([19, 21, 45]) * 1000000 * 2048 // scale     # silence around the 20 s stale bound
                flags.append("long_gap")
    # a trailing foreign slice with a sync tag: makes the streaming path (not only the drain) emit the last groups
    if rng.random() < 0.6:
        tt = max(ends) + rng.randrange(1, 50)
        mk("SenRdmaSend_7 [sync=Tail_s0_r1_0] DmaO", 0, TID_O, tt, tt + 3, {"CollGroup": "Tail", "Peer": "1", "Type": "SingleCast"})
    # ---- anomalies
    if anomalies:
        r = rng.random()
        gsel = rng.choice(truth["groups"])
        members = [e for e in evs if e["uid"] in gsel["uids"] and "[sync=" in e["name"]]
        if r < 0.14 and members:
            victim = rng.choice(members)
            evs.remove(victim)
            gsel["clean"] = False
            flags.append("missing_one")
        elif r < 0.22 and members:
            cut = sorted(e["ts"] + e["dur"] for e in members)[rng.randrange(len(members))]
            for e in [e for e in evs if e["uid"] in gsel["uids"] and e["ts"] + e["dur"] > cut]:
                evs.remove(e)
            gsel["clean"] = False
            flags.append("tail_cut")
        elif r < 0.28 and members:
            d = copy.deepcopy(rng.choice(members))
            uid[0] += 1
            d["uid"] = d["args"]["uid"] = uid[0]
            evs.append(d)
            gsel["clean"] = False
            flags.append("duplicate")
        elif r < 0.31 and members:
            rng.choice(members)["dur"] = rng.choice([0.0, -1.0])
            flags.append("nonpositive_dur")
        elif r < 0.33 and members:
            del rng.choice(members)["dur"]
            flags.append("no_dur")
        elif r < 0.36 and members:
            rng.choice(members)["args"]["Type"] = rng.choice(["Multicast", "WDone", "SingleCast XSEG"])
            flags.append("unknown_type")
        elif r < 0.39 and members:
            rng.choice(members)["args"]["Peer"] = rng.choice(["", "a", "1,,2", "x1"])
            flags.append("bad_peer")
        elif r < 0.42 and members:
            v = rng.choice(members)
            v["args"].pop("Peer", None)
            v["args"].pop("Peers", None)
            gsel["clean"] = False
            flags.append("no_peer")
        elif r < 0.45 and members:
            v = rng.choice(members)
            del v["args"]["jobhash"]
            flags.append("no_jobhash")
        elif r < 0.48 and members:
            v = rng.choice(members)
            v["args"]["Bytes"] = "77"        # name keeps its byte token
            flags.append("Bytes_key")
        elif r < 0.51 and members:
            v = rng.choice(members)
            v["ph"] = rng.choice(["b", "e", "B", "i"])
            gsel["clean"] = False
            flags.append("other_ph")
        elif r < 0.54 and members:
            v = rng.choice([e for e in members if e["args"].get("Type") == "WDone Barrier"] or members)
            v["pid"] = rng.randrange(0, R)
            gsel["clean"] = False
            flags.append("recv_on_other_pid")
        elif r < 0.66 and members and "long_gap" not in flags and "name_reuse" not in flags:
            # silence INSIDE a group (after the single-cast phase) with a foreign helper just before its end: within the
            # stale bound (4 x 5 s) the group must still be completed and drawn, beyond it the tool drops it
            bc = [e for e in members if e["args"].get("Type") == "Set BCList"]
            if bc and len(gsel["ranks"]) == 2:      # 2 ranks: the part before the cut has one sync tag, never "final"
                a0 = bc[0]["ts"]
                secs = rng.choice([16, 19, 19, 21, 45])
                delta = float(secs * 1000000)
                before = [e for e in evs if e["uid"] in gsel["uids"] and e["ts"] < a0 and e["ts"] + e["dur"] <= a0]
                for e in evs:
                    if e["ts"] >= a0 or e["ts"] + e["dur"] > a0:
                        e["ts"] += delta          # everything not finished at the cut (all groups) moves behind the silence
                if before:
                    latest = max(e["ts"] + e["dur"] for e in before)
                    uid[0] += 1
                    evs.append({"ph": "X", "name": "SenRdmaSend_9 [sync=Probe_s0_r1_0] DmaO", "pid": 0, "tid": TID_O,
                                "ts": latest + delta - _g(rng.choice([1, 2048, 4096])), "dur": _g(1), "uid": uid[0],
                                "args": {"CollGroup": "Probe", "Peer": "1", "Type": "SingleCast", "jobhash": 1000,
                                         "uid": uid[0]}})
                    flags.append(f"inner_gap_{secs}s")
                    for g in truth["groups"]:      # other groups may be split by the silence as well
                        if g is not gsel or secs > 19:
                            g["clean"] = False
        elif r < 0.69:
            e0 = min(evs, key=lambda e: e["ts"])
            shift = e0["ts"]
            if base == 0 or rng.random() < 0.5:
                for e in evs:
                    e["ts"] -= shift       # first slice at ts = 0.0: isclose(first_ts, 0) quirk
                flags.append("ts_zero")
    # arrival order: global (ts, -dur) sort as the pipeline's sorter delivers it
    evs.sort(key=lambda e: (e["ts"], -(e.get("dur") or 0.0)))
    if anomalies and rng.random() < 0.12 and len(evs) > 3:
        for _ in range(rng.randrange(1, 4)):
            i = rng.randrange(len(evs) - 1)
            evs[i], evs[i + 1] = evs[i + 1], evs[i]
        flags.append("unsorted")
        for g in truth["groups"]:
            g["clean"] = False
    if "name_reuse" in flags or "long_gap" in flags:
        for g in truth["groups"]:
            g["clean"] = False
    return evs, truth


ADV_NAMES = [
    "SenRdmaSend_1 [sync=A_s0_r1_0] DmaO", "SenRdmaRecv_2 [4096B] [sync=A_s0_r1_0] DmaI", "RdmaRecv_3_x [sync=q] DmaI",
    "rdmaRECV_12_ [8b] [sync=a]b] DmaI", "Send_9 Data [sync=z] DmaO", "Send_9 Data  [sync=z] DmaO", "Send Data [sync=z] DmaO",
    "xSend__1_ Data [sync=z] DmaO ", "Send_1 Data [sync= z] DmaO", "k [sync=] x", "k [sync=a", "k [sync=a] [sync=b] t]",
    "k[sync=a]", "k [Sync=a]", "n [12B]", "n [12B] [3b] [B] [12 B] [sync=[1B]]", "Recv_5_ [sync=p] Prep", "recv_5 [sync=p] Exec",
    "Recv__5_ [sync=p]", "AllReduce_x Cmpt Exec", "", " [sync=s]", "a [77B][sync=s] [9B]",
]


def gen_prep_event(rng):
    name = rng.choice(ADV_NAMES)
    if rng.random() < 0.3:
        name = name.replace("z", rng.choice(["zz", "a b", "]", ""]))
    args = {"jobhash": rng.randrange(0, 9999)}
    r = rng.random()
    if r < 0.4:
        args["Peer"] = rng.choice(["0", "3", " 4", "+2", "-1", "1,2", "1, 2 ,3", "", "a", "1,,2", 7, 0, ["1", "2"], [3], []])
    elif r < 0.6:
        args["Peers"] = rng.choice(["0,1,2", "5", ["0", "1"], 4, "x"])
    elif r < 0.65:
        args["Peer"], args["Peers"] = "1", "2,3"
    if rng.random() < 0.7:
        args["Type"] = rng.choice(["WDone Barrier", "MultiCast", "MultiCast XSEG", "SingleCast", "Set BCList", "WDone  Barrier",
                                   "Other"])
    if rng.random() < 0.7:
        args["CollGroup"] = rng.choice(["G1", "AllReduce_all_reduce_4", ""])
    if rng.random() < 0.2:
        args["Bytes"] = "12"
    if rng.random() < 0.08:
        del args["jobhash"]
    ev = {"ph": rng.choice(["X", "X", "X", "X", "b", "e", "B", "M", "C", "Xb", "i"]), "name": name, "pid": rng.randrange(0, 8),
          "tid": rng.choice([1000, 1200]), "ts": _g(rng.randrange(0, 1 << 30)), "uid": rng.randrange(1, 1000), "args": args}
    if rng.random() < 0.9:
        ev["dur"] = _g(rng.randrange(0, 5000))
    if rng.random() < 0.06:
        del ev["args"]
    return ev


def helpers_of(events):
    """the helper events the real flow_prepare_event_data derives (used to build group-tie cases)"""
    cg = _cg()
    hs = []
    for ev in events:
        try:
            r = cg.flow_prepare_event_data(copy.deepcopy(ev), None)
        except Exception:  # noqa: BLE001
            continue
        if len(r) == 2 and r[1].get("dur") is not None and r[1]["dur"] > 0:
            hs.append(r[1])
    return hs


# ------------------------------------------------------------------------------------------------ oracle (kernel level)
def _sync_of(name):
    name = re.sub(r" \[\d+[Bb]\]", "", name)        # a "[<n>B]" size tag (before or behind the sync tag) is not part of it
    i = name.find(" [sync=")
    if i < 0:
        return None
    j = name.rfind("]")
    return name[i + 7:j] if j >= i + 7 else None


def _first_peer(args):
    p = args.get("Peer", args.get("Peers"))
    if isinstance(p, str):
        p = p.split(",")[0]
    elif isinstance(p, (list, tuple)):
        p = p[0] if p else None
    try:
        return int(p)
    except Exception:  # noqa: BLE001
        return None


SEND_TYPES = ("SingleCast", "MultiCast XSEG")


def check_arrows(flows, slices, peer_of=None):
    """soundness of the exported arrows against the exported/entered slices.  flows: dicts with ph,id,name,pid,tid,ts,bp;
    slices: dicts with name(orig), pid, tid, ts, dur, args.  Returns (list of failure dicts, {id: (send slice, recv slice)})"""
    fails, by_id, match = [], {}, {}
    for f in flows:
        by_id.setdefault(f.get("id"), []).append(f)
    for fid, l in sorted(by_id.items(), key=lambda x: str(x[0])):
        ss = [x for x in l if x["ph"] == "s"]
        ff = [x for x in l if x["ph"] == "f"]
        if len(ss) != 1 or len(ff) != 1 or len(l) != 2:
            fails.append({"kind": "id_not_paired", "id": fid, "s": len(ss), "f": len(ff), "n": len(l)})
            continue
        s, f = ss[0], ff[0]
        if s["name"] != f["name"]:
            fails.append({"kind": "names_differ", "id": fid})
            continue
        sends = [x for x in slices if x["pid"] == s["pid"] and x["tid"] == s["tid"] and x["ts"] == s["ts"]
                 and x["args"].get("Type") in SEND_TYPES and _sync_of(x["name"]) == s["name"]]
        if not sends:
            fails.append({"kind": "s_not_at_send_start", "id": fid, "tag": s["name"]})
            continue
        if f.get("bp") != "e":
            fails.append({"kind": "f_without_bp_e", "id": fid})
            continue
        ok = None
        for snd in sends:
            peer = peer_of(snd) if peer_of else _first_peer(snd["args"])
            for r in slices:
                # a (malformed) send slice that names no peer at all leaves the rank of the receive open
                if (r["pid"] == peer or peer is None) and r["pid"] == f["pid"] and r["tid"] == f["tid"] \
                        and r["args"].get("Type") == "WDone Barrier" and _sync_of(r["name"]) == s["name"]:
                    end = Fraction(r["ts"]) + Fraction(r["dur"])
                    inside = (Fraction(r["ts"]) <= Fraction(f["ts"]) <= end) or Fraction(r["dur"]) < Fraction(1, 1000)
                    if inside and abs(Fraction(f["ts"]) - (end - Fraction(1, 1000))) <= Fraction(1, 100000):
                        ok = (snd, r)
                        break
            if ok:
                break
        if not ok:
            fails.append({"kind": "f_not_inside_end_of_matching_receive", "id": fid, "tag": s["name"]})
            continue
        match[fid] = ok
    return fails, match


# anomalies of the generator that make the real code raise (malformed slices; compared by exception class in the tie)
ERROR_FLAGS = {"nonpositive_dur", "no_dur", "unknown_type", "bad_peer", "no_peer", "no_jobhash"}


def oracle_stream(events, truth, res):
    """property on the implementation's output for a kernel stream.  Returns list of failure dicts (kind + facts)."""
    if isinstance(res, enc.Err):
        if not (set(truth.get("flags", [])) & ERROR_FLAGS):
            return [{"kind": "exception_on_wellformed_stream", "exc": res.tag}]
        return []
    out, _, _, _ = res
    fails = []
    if any(o.get("ph") == "F" for o in out):
        fails.append({"kind": "helper_event_exported"})
    flows = [o for o in out if o.get("ph") in ("s", "f", "t")]
    slices = [e for e in events if isinstance(e.get("args"), dict) and e.get("dur") is not None]
    f2, match = check_arrows(flows, slices)
    fails += f2
    ids = [o["id"] for o in flows if o["ph"] == "s"]
    if len(set(ids)) != len(ids):
        fails.append({"kind": "duplicate_id"})
    # pass-through: every input slice leaves exactly once
    ups = [o.get("uid") for o in out if o.get("ph") not in ("s", "f")]
    if sorted(ups) != sorted(e["uid"] for e in events):
        fails.append({"kind": "slices_not_passed_through_once"})
    # completeness on clean groups
    by_send = {}
    for fid, (snd, rcv) in match.items():
        by_send.setdefault(snd["uid"], []).append((fid, rcv["uid"]))
    for g in truth["groups"]:
        if not g["clean"]:
            continue
        for s in g["sends"]:
            got = by_send.get(s["uid"], [])
            if len(got) != 1 or got[0][1] != s["recv"]:
                fails.append({"kind": "complete_group_send_without_exactly_one_arrow", "group": g["name"],
                              "ranks": len(g["ranks"]), "arrows": len(got),
                              # the same collective executed again right after its first instance (known finding)
                              "collgroup_name_reused": bool(g.get("reused")),
                              # a slice of the group carries a Bytes attribute AND its "[<n>B]" size tag behind the sync tag
                              "bytes_attr_and_size_tag_behind_sync": any(
                                  e["uid"] in g["uids"] and "Bytes" in e["args"]
                                  and re.search(r" \[sync=\S*\] \[\d+[Bb]\]", e["name"]) for e in slices)})
                break
    return fails


# ------------------------------------------------------------------------------------------------ end to end
E2E_OPTS = [["--flow"], ["--flow", "--no_mp_sync"], ["--flow", "--keep_prep"], ["--flow", "--disable_tb"],
            ["--flow", "-F", "XsfM"], ["--flow", "--drop_globals"], ["--flow", "-t"],
            # pseudo options (taken out before the tool sees the list): @distinfo = rank files in object form with
            # distributedInfo.rank and OS pids in the events; @D<n> = log level -D n (changes what is printed, nothing else)
            ["--flow", "@distinfo"], ["--flow", "@D3"], ["--flow", "@D4", "@distinfo"], ["--flow", "@D2", "--keep_prep"]]


def run_e2e(sc, opts, work):
    """Acelyzer in process; records the inflow of flow_prepare_event_data.  Returns dict(exc|events, inflow)."""
    import aiu_trace_analyzer.core.acelyzer as acel
    import aiu_trace_analyzer.core.processing as processing
    from common import e2e
    d = os.path.join(work, "e2e")
    shutil.rmtree(d, ignore_errors=True)
    inp = collectives.write(sc, d, dist_info="@distinfo" in opts)
    dlevel = ([o[2:] for o in opts if o.startswith("@D")] or ["0"])[0]
    opts = [o for o in opts if not o.startswith("@")]
    outp = os.path.join(d, "out.json")
    inflow = []

    class Rec(processing.EventProcessor):
        def register_stage(self, callback, context=None, **kw):
            if callback.__name__ == "flow_prepare_event_data":
                def wrapped(event, ctx, *a, _cb=callback):
                    if isinstance(event, dict) and event.get("ph") in ("X", "b", "e"):
                        inflow.append(copy.deepcopy(event))
                    return _cb(event, ctx, *a)
                wrapped.__name__ = callback.__name__
                return super().register_stage(wrapped, context, **kw)
            return super().register_stage(callback, context, **kw)

    saved = acel.processor.EventProcessor
    acel.processor.EventProcessor = Rec
    try:
        res = e2e.run_inproc(["-i", inp, "-o", outp, "-D", dlevel, "--freq", str(sc.freq)] + list(opts), outp)
    finally:
        acel.processor.EventProcessor = saved
    r = {"rc": res.rc, "exc": res.exc, "events": res.events, "inflow": inflow}
    shutil.rmtree(d, ignore_errors=True)
    return r


def e2e_flow_obs(events):
    fl = [e for e in events if e.get("ph") in ("s", "f")]
    fl.sort(key=lambda e: (e.get("id", 0), 0 if e["ph"] == "s" else 1))
    return [[e["ph"], e["name"], e.get("id"), e.get("bp") == "e", e["pid"], e["tid"], _num(e["ts"]), e.get("cat")] for e in fl]


def oracle_e2e(sc, r):
    if r["exc"] is not None or r["rc"] != 0 or r["events"] is None:
        return [{"kind": "run_failed", "exc": str(r["exc"])[:200], "rc": r["rc"]}]
    evs = r["events"]
    fails = []
    if any(e.get("ph") == "F" for e in evs):
        fails.append({"kind": "helper_event_exported"})
    flows = [e for e in evs if e.get("ph") in ("s", "f", "t")]
    slices = []
    for e in evs:
        if e.get("ph") == "X" and isinstance(e.get("args"), dict):
            slices.append({"name": e["args"].get("orig_name", e["name"]), "pid": e["pid"], "tid": e["tid"], "ts": e["ts"],
                           "dur": e["dur"], "args": e["args"], "uid": e["args"].get("uid")})
    truth_peer = {}
    for g in sc.coll["groups"]:
        for s in g["sends"]:
            truth_peer[s["uid"]] = s["peer"]
    f2, match = check_arrows(flows, slices, peer_of=lambda snd: truth_peer.get(snd["uid"]))
    fails += f2
    by_send = {}
    for fid, (snd, rcv) in match.items():
        by_send.setdefault(snd["uid"], []).append(rcv["uid"])
    for (su, ru, sync) in collectives.expected_pairs(sc):
        got = by_send.get(su, [])
        if got != [ru]:
            fails.append({"kind": "complete_group_send_without_exactly_one_arrow", "ranks": sc.ranks, "arrows": len(got)})
            break
    return fails


def gen_e2e_scenario(rng, opts=()):
    """the default multi-AIU alignment needs every rank in every group; only -M runs get sub-chains / emptied ranks"""
    free = "--no_mp_sync" in opts
    for _ in range(50):
        R = rng.choice([2, 2, 3, 3, 4, 4, 5, 6, 8])
        sc = collectives.gen_collective_scenario(
            rng, ranks=R, groups=rng.choice([1, 2, 2, 3, 4]), interleave=rng.random() < 0.7,
            incomplete_tail=rng.choice([None, None, "tail", "one"]), be_ratio=rng.choice([0.0, 0.4, 1.0]),
            subsets=free and rng.random() < 0.5, long_gap=rng.random() < 0.15, wraps=rng.random() < 0.3)
        if rng.random() < 0.75:
            rename_collectives(rng, sc)
        if free or collectives.all_ranks_contribute(sc):
            return sc
    raise RuntimeError("no admissible scenario in 50 draws")


# ------------------------------------------------------------------------------------------------ check
IMPORTS = "From AiuModel Require Import Flow."


def _sig(f):
    s = {"kind": f["kind"]}
    for k in ("ranks", "arrows", "s", "f", "exc", "collgroup_name_reused", "bytes_attr_and_size_tag_behind_sync"):
        if k in f:
            s[k] = f[k]
    return s


def stream_failure(events, truth, fails):
    return {"input": {"kind": "stream", "events": events, "truth": truth},
            "expected": "arrows paired by id with equal names, s at the send start, f inside the end of the matching "
                        "receive on the named peer, one arrow per send of a complete group, no ph F",
            "observed": fails[:3], "signature": _sig(fails[0])}


def shrink_stream(events, truth, kind):
    """delta-debug the event list (whole groups first, then single events) while the oracle reports the same kind"""
    def bad(evs, tr):
        fs = oracle_stream(evs, tr, run_kernel(evs))
        return [f for f in fs if f["kind"] == kind]
    evs = list(events)
    tr = copy.deepcopy(truth)
    t0 = time.time()
    for g in list(tr["groups"]):
        if time.time() - t0 > 20:
            break
        e2 = [e for e in evs if e["uid"] not in g["uids"]]
        t2 = dict(tr, groups=[x for x in tr["groups"] if x is not g])
        if e2 and bad(e2, t2):
            evs, tr = e2, t2
    keep_uids = set()
    for g in tr["groups"]:
        if g["clean"]:
            keep_uids |= set(g["uids"])          # removing a member of a clean group would falsify the ground truth
    changed = True
    while changed and time.time() - t0 < 40:
        changed = False
        for k in range(len(evs)):
            if evs[k]["uid"] in keep_uids:
                continue
            e2 = evs[:k] + evs[k + 1:]
            if bad(e2, tr):
                evs, changed = e2, True
                break
    return evs, tr, bad(evs, tr)


def run(ctx):
    rng = ctx.rng
    notes, mism, oracle_failures, ties = [], [], [], []
    dist = {"stream_ranks": {}, "stream_flags": {}, "stream_outcomes": {}, "e2e_ranks": {}, "e2e_groups": {}, "e2e_opts": {},
            "e2e_incomplete": {}, "prep_outcomes": {}, "e2e_groups_with_drawn_names": {}, "stream_groups_with_drawn_names": 0}
    nontriv_keys = set()
    evaluations = 0

    # ---- corpus + generated kernel streams
    streams = []
    cdir = os.path.join(coqrun.VERIF, "corpus", "C09")
    for fn in sorted(os.listdir(cdir)) if os.path.isdir(cdir) else []:
        if fn.endswith(".json"):
            c = json.load(open(os.path.join(cdir, fn)))
            if c.get("kind") == "stream":
                streams.append((c["events"], c["truth"], "corpus:" + fn))
    n_corpus = len(streams)
    for k in range(ctx.pick(300, 4000)):
        evs, tr = gen_stream(rng, anomalies=(k % 3 != 0))
        streams.append((evs, tr, "gen"))
    kterms, kcases = [], []
    for evs, tr, src in streams:
        res = run_kernel(evs)
        kterms.append((enc.L([coq_iev(e) for e in evs]), enc.V(kernel_obs(res))))
        kcases.append((evs, tr))
        fs = oracle_stream(evs, tr, res)
        if fs:
            oracle_failures.append(stream_failure(evs, tr, fs))
        oc = res.tag if isinstance(res, enc.Err) else "ok"
        dist["stream_outcomes"][oc] = dist["stream_outcomes"].get(oc, 0) + 1
        dist["stream_ranks"][tr.get("ranks", 0)] = dist["stream_ranks"].get(tr.get("ranks", 0), 0) + 1
        for fl in tr.get("flags", []) or ["none"]:
            dist["stream_flags"][fl] = dist["stream_flags"].get(fl, 0) + 1
        for g in tr["groups"]:
            tags = sorted({s["sync"] for s in g["sends"]})
            if not all(re.fullmatch(r"AllReduce_all_reduce_\d+_s\d+_r\w+_\d+", t) for t in tags):
                dist["stream_groups_with_drawn_names"] += 1
            if len(tags) >= 2:
                key = hashlib.sha1(json.dumps([[e["name"], e["pid"], e["ts"], e.get("dur")] for e in evs
                                               if e["uid"] in g["uids"]]).encode()).hexdigest()
                nontriv_keys.add(key)
    bad, extras, secs = coqrun.run_cases("C09_kernel", IMPORTS, "(list iev)", "run_val", kterms, shard=25)
    evaluations += len(kterms)
    ties.append({"name": "Flow.run_val = flow_prepare_event_data -> flow_extraction -> flow_data_cleanup (+ drain)",
                 "cases": len(kterms), "corpus": n_corpus, "mismatching": len(bad), "coq_seconds": round(secs, 1)})
    for j in bad[:3]:
        mism.append({"name": "correspondence Flow.run_val vs coll_group.py kernel", "case": {"events": kcases[j][0]},
                     "impl": kterms[j][1][:600]})

    # ---- flow_prepare_event_data on single events
    pterms = []
    pevs = [gen_prep_event(rng) for _ in range(ctx.pick(1000, 8000))]
    for evs, _, _ in streams[:ctx.pick(25, 400)]:
        pevs += evs
    for ev in pevs:
        o = run_prep(ev)
        pterms.append((coq_iev(ev), enc.V(o)))
        oc = o.tag if isinstance(o, enc.Err) else ("helper" if o[1] is not None else "pass")
        dist["prep_outcomes"][oc] = dist["prep_outcomes"].get(oc, 0) + 1
    bad, _, secs = coqrun.run_cases("C09_prep", IMPORTS, "iev", "prep_val", pterms, shard=350)
    evaluations += len(pterms)
    ties.append({"name": "Flow.prep_val = flow_prepare_event_data", "cases": len(pterms), "mismatching": len(bad),
                 "coq_seconds": round(secs, 1)})
    for j in bad[:3]:
        mism.append({"name": "correspondence Flow.prep_val vs flow_prepare_event_data", "case": {"event": pevs[j]},
                     "impl": pterms[j][1][:600]})

    # ---- one queue in shuffled order: detect_final / build_flows
    gterms, gcases = [], []
    for evs, tr, _ in streams[:ctx.pick(250, 2000)]:
        hs = helpers_of(evs)
        cats = sorted({h["cat"] for h in hs})
        if not cats:
            continue
        q = [h for h in hs if h["cat"] == rng.choice(cats)]
        if rng.random() < 0.3 and len(q) > 1:
            q.pop(rng.randrange(len(q)))
        if rng.random() < 0.1 and q:
            q.append(copy.deepcopy(rng.choice(q)))
        rng.shuffle(q)
        o = run_group(q)
        if o is None:
            continue
        gterms.append((enc.L([coq_hev(h) for h in q]), enc.V(o)))
        gcases.append(q)
    bad, _, secs = coqrun.run_cases("C09_group", IMPORTS, "(list hev)", "group_val", gterms, shard=45)
    evaluations += len(gterms)
    ties.append({"name": "Flow.group_val = CollectiveGroupingContext.insert/detect_final/build_flows (shuffled queue)",
                 "cases": len(gterms), "mismatching": len(bad), "coq_seconds": round(secs, 1)})
    for j in bad[:3]:
        mism.append({"name": "correspondence Flow.group_val vs detect_final/build_flows", "case": {"queue": gcases[j]},
                     "impl": gterms[j][1][:600]})

    # ---- the float subtraction
    fterms = []
    for _ in range(ctx.pick(600, 6000)):
        ts = _g(rng.choice([rng.randrange(0, 64), rng.randrange(0, 1 << 30), rng.randrange(0, 1 << 52)]))
        dur = _g(rng.choice([rng.randrange(1, 8), rng.randrange(1, 1 << 24)]))
        fterms.append((enc.Q(Fraction(ts) + Fraction(dur)), enc.V(Fraction(run_fsub(ts, dur)))))
    bad, _, secs = coqrun.run_cases("C09_fsub", IMPORTS, "Q", "fsub_val", fterms, shard=600)
    evaluations += len(fterms)
    ties.append({"name": "Flow.fsub_val = binary64 (ts + dur - 0.001) of create_flow_events_from_pair", "cases": len(fterms),
                 "mismatching": len(bad), "coq_seconds": round(secs, 1)})
    for j in bad[:3]:
        mism.append({"name": "correspondence Flow.fsub_val vs create_flow_events_from_pair", "case": {"term": fterms[j][0]},
                     "impl": fterms[j][1][:200]})

    # ---- end to end
    eterms, ecases = [], []
    t_e2e = time.time()
    for k in range(ctx.pick(100, 700)):
        if time.time() - t_e2e > ctx.pick(60, 600):
            notes.append(f"end-to-end stream cut after {k} scenarios by its time budget")
            break
        opts = E2E_OPTS[k % len(E2E_OPTS)]
        sc = gen_e2e_scenario(rng, opts)
        r = run_e2e(sc, opts, ctx.work)
        fs = oracle_e2e(sc, r)
        if fs:
            oracle_failures.append(e2e_failure(sc, opts, fs))
        if r["events"] is not None and r["exc"] is None:
            eterms.append((enc.L([coq_iev(e, uid=0) for e in r["inflow"]]), enc.V(e2e_flow_obs(r["events"]))))
            ecases.append((sc, opts))
        dist["e2e_ranks"][sc.ranks] = dist["e2e_ranks"].get(sc.ranks, 0) + 1
        ng = len(sc.coll["groups"])
        dist["e2e_groups"][ng] = dist["e2e_groups"].get(ng, 0) + 1
        dist["e2e_opts"][" ".join(opts)] = dist["e2e_opts"].get(" ".join(opts), 0) + 1
        it = str(sc.meta.get("incomplete_tail"))
        dist["e2e_incomplete"][it] = dist["e2e_incomplete"].get(it, 0) + 1
        nn = str(sum(1 for old, v in (sc.meta.get("renamed") or {}).items() if v != [old, "", ""]))
        dist["e2e_groups_with_drawn_names"][nn] = dist["e2e_groups_with_drawn_names"].get(nn, 0) + 1
        for g in sc.coll["groups"]:
            if len({s["sync"] for s in g["sends"]}) >= 2:
                nontriv_keys.add(hashlib.sha1(json.dumps([g["name"], g["ranks"], [(s["start"], s["end"]) for s in g["sends"]]]
                                                         ).encode()).hexdigest())
    bad, _, secs = coqrun.run_cases("C09_e2e", IMPORTS, "(list iev)", "e2e_val", eterms, shard=8)
    evaluations += len(eterms)
    ties.append({"name": "Flow.e2e_val(recorded inflow of flow_prepare_event_data) = s/f events exported by Acelyzer --flow",
                 "cases": len(eterms), "mismatching": len(bad), "coq_seconds": round(secs, 1)})
    for j in bad[:3]:
        sc, opts = ecases[j]
        mism.append({"name": "correspondence Flow.e2e_val vs Acelyzer --flow", "case": {"opts": opts, "summary": sc.summary()},
                     "impl": eterms[j][1][:600]})

    # shrink what the oracle found (inputs of a listed known finding last: they must not crowd out anything else)
    oracle_failures.sort(key=lambda f: bool(f.get("signature", {}).get("collgroup_name_reused"))
                         or bool(f.get("signature", {}).get("bytes_attr_and_size_tag_behind_sync")))
    shr = []
    for f in oracle_failures[:3]:
        try:
            shr.append(shrink_failure(f, ctx))
        except Exception as e:  # noqa: BLE001
            notes.append("shrink failed: " + repr(e)[:200])
            shr.append(f)
    oracle_failures = shr + oracle_failures[3:6]
    return {
        "evaluations": evaluations, "distinct_nontrivial": len(nontriv_keys),
        "rule": "distinct generated collective groups (kernel streams and end-to-end scenarios, keyed by a hash of their "
                "slices) that carry >= 2 sync tags (DESIGN Appendix C). Kernel streams: 2..8 ranks, 1..4 chain all-reduce "
                "groups on sub-chains, interleaved, 2/3 of them with one anomaly (missing slice, tail cut, duplicate, reused "
                "group name, 19..45 s silence, ts 0, unsorted arrival, malformed peer/type/dur -> exception classes); "
                "end to end: collectives.gen_collective_scenario, 2..8 ranks, 1..4 groups, interleaved, incomplete tail "
                "(tail cut / one slice missing), B/E and X files, counter wraps, option sets " + str(E2E_OPTS) +
                "; names as data: 40 % of the kernel groups and 65 % of the groups of 3/4 of the end-to-end scenarios carry "
                "words of the tool's own name vocabulary (Receive, RDMA, Recv_<n>_, Send, sync=, brackets ...) in their group "
                "name, 25..40 % of them also around every sync tag",
        "samples": [{"stream": streams[n_corpus][0][:4]}, {"e2e": ecases[0][0].summary() if ecases else None}],
        "mismatches": mism, "oracle_failures": oracle_failures, "ties": ties, "distribution": dist, "notes": notes,
        "traces_validated_against_impl": evaluations,
    }


def e2e_failure(sc, opts, fails):
    return {"input": {"kind": "e2e", "files": sc.files, "coll": sc.coll, "freq": sc.freq, "ranks": sc.ranks, "opts": opts,
                      "meta": sc.meta},
            "expected": "every exported flow id on one s and one f with the same name; s at a send slice start; f (bp=e) "
                        "inside the end of the matching receive on the named peer; one arrow per send of each complete group",
            "observed": fails[:3], "signature": _sig(fails[0])}


def _sc_from(inp):
    sc = collectives.CollScenario()
    sc.files, sc.coll, sc.freq, sc.ranks = inp["files"], inp["coll"], inp["freq"], inp["ranks"]
    sc.meta = inp.get("meta", {})
    return sc


def shrink_failure(f, ctx):
    inp = f["input"]
    kind = f["signature"]["kind"]
    if inp["kind"] == "stream":
        evs, tr, fs = shrink_stream(inp["events"], inp["truth"], kind)
        return stream_failure(evs, tr, fs) if fs else f
    # end to end: drop whole groups (all their slices in every file) while the same kind of failure remains
    sc = _sc_from(copy.deepcopy(inp))
    t0 = time.time()
    for g in list(sc.coll["groups"]):
        if time.time() - t0 > 40 or len(sc.coll["groups"]) <= 1:
            break
        trial = _sc_from(copy.deepcopy({"files": sc.files, "coll": sc.coll, "freq": sc.freq, "ranks": sc.ranks,
                                        "meta": sc.meta}))
        trial.coll["groups"] = [x for x in trial.coll["groups"] if x["name"] != g["name"]]
        for fn in trial.files:
            trial.files[fn] = [e for e in trial.files[fn] if (e.get("attr") or {}).get("CollGroup") != g["name"]]
        fs = [x for x in oracle_e2e(trial, run_e2e(trial, inp["opts"], ctx.work)) if x["kind"] == kind]
        if fs:
            sc = trial
    fs = [x for x in oracle_e2e(sc, run_e2e(sc, inp["opts"], ctx.work)) if x["kind"] == kind]
    return e2e_failure(sc, inp["opts"], fs) if fs else f


def search(ctx, res, broken):
    """something broke but the run's oracle was silent: oracle on a fresh, larger stream (bounded by time)"""
    r = random.Random(ctx.seed + 1009)
    t0 = time.time()
    budget = ctx.pick(90, 600)
    n = 0
    while time.time() - t0 < budget:
        n += 1
        if n % 12 == 0:
            opts = E2E_OPTS[(n // 12) % len(E2E_OPTS)]
            sc = gen_e2e_scenario(r, opts)
            fs = oracle_e2e(sc, run_e2e(sc, opts, ctx.work))
            if fs:
                return [shrink_failure(e2e_failure(sc, opts, fs), ctx)]
            continue
        evs, tr = gen_stream(r, anomalies=(n % 2 == 0))
        fs = oracle_stream(evs, tr, run_kernel(evs))
        if fs:
            return [shrink_failure(stream_failure(evs, tr, fs), ctx)]
    return []


def replay(ctx, payload):
    f = payload.get("failing")
    if not f:
        return True, "replay file names only broken obligations: " + str(payload.get("broken"))[:500]
    inp = f["input"]
    if inp["kind"] == "stream":
        res = run_kernel(inp["events"])
        fs = oracle_stream(inp["events"], inp["truth"], res)
    else:
        sc = _sc_from(inp)
        fs = oracle_e2e(sc, run_e2e(sc, inp["opts"], ctx.work))
    return (not fs), {"oracle_failures": fs[:5]}
