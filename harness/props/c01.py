"""C01 — every input slice is exported exactly once unless a documented rule removes it.

Theorems (coq/props/C01.v): the pipeline mechanics conserve accounted items for ANY stage graph with ANY context
sharing (Conservation.v), and the registration program generated from acelyzer.py, instantiated with abstract
per-stage behaviours on slice identities, exports every uid as often as it came in minus recorded documented drops,
for every guard valuation / profile / option values / input.
Tie: generated multi-file scenarios x option sets are run through the REAL analyzer (in-process Acelyzer API) with
every registered callback wrapped to record the uids entering it; the model (C01Model.c01_run, vm_compute) must
reproduce the exported uid multiset, the uids discarded at each discarding stage and the number of stages.
Oracle (independent of the model and of the per-stage account): the documented rules evaluated on the generator's
ground truth decide which uids must be in the export, exactly once, still carrying their user keys.
"""
import copy
import json
import os
import re
import shutil
import sys
import tempfile
from collections import Counter

from common import collectives, coqrun, e2e, enc, scenario

ID = "C01"
MANIFEST = {
    "text": "Proof. (1) Conservation.v: for ANY list of stages over ANY event/state types, with contexts shared by any "
            "stages at any positions (no well-formedness), if every callback invocation and every drain balances "
            "'keys returned + keys withheld + keys recorded as discarded' per key, then Engine.run (all inputs through "
            "the pipeline, then drain) exports each key exactly as often as it came in minus what the ledgers record, and "
            "after the drain no context withholds anything (C01_mechanics, C01_nothing_withheld; induction over stages and "
            "inputs, unbounded). (2) C01_program: the registration program REGENERATED from acelyzer.py on every run, with "
            "abstract stage behaviours (limiter+event filter, barrier, Prep removal, --drop_globals, -O drop, -F, holding "
            "stages, all others pass), satisfies those laws, hence for every valuation of the guard atoms, every profile, "
            "every option value and every input stream: exported uid count + recorded documented drops = input count, and "
            "every recorded drop satisfies its stage's documented predicate on an input event (C01_drops_documented). "
            "Partial: the abstract behaviour table (which real stage is of which kind) is validated against the real "
            "callbacks on every run (per-stage uid account of the real pipeline), not derived from their source; that the "
            "recorded drops are exactly the documented predicates is checked by the tie and the oracle (and is the "
            "subject of C17/C13/C04 for the stateful rules).",
    "note": "Trusted: Coq kernel + vm_compute; translator tools/translate_registration.py; the kind table of C01Model.v (tested "
            "in vivo on every run: per registered stage, uids in vs uids reaching the next stage); the scenario generator "
            "and its ground truth. The stage list of the instance equals the list forward name matching registers (C01_stage_list_is_registered, from C16's lemmas). "
            "--comm_summarize_seq merges (C20) and the experimental -S/-s/-R/-O async|shift/--flex_ts_fix paths are "
            "outside the scenarios. Print Assumptions: closed under the global context.",
    "technique": "Coq proof (accounting invariant by induction over the operational pipeline model; instance over the "
                 "registration program regenerated from source) + vm_compute correspondence and ground-truth oracle "
                 "against the real analyzer end to end",
    "design_ref": "DESIGN.md sections 3 and 4/C01",
}
PROP_FILE = "props/C01.v"
MODEL_TARGETS = ["theories/C01Model.vo"]
THEOREMS = ["C01_mechanics", "C01_nothing_withheld", "C01_program", "C01_drops_documented",
            "C01_stage_list_is_registered"]
ALLOWED_AXIOMS = []
TRUSTED = [
    "abstract stage kinds of C01Model.v (validated in vivo by the per-stage uid account, not proved from the stage sources)",
    "modelled, not verified: ingestion (C15), the real limiter/filter arithmetic (C17), overlap decisions (C04), "
    "JSON I/O, convert_events' key move (checked by the oracle on every exported slice)",
]
ASSUMPTIONS = [
    "well-formed FLEX inputs as produced by harness/common/scenario.py (exact grid, one rank per file)",
    "stage-selecting options drawn from the documented, non-experimental set",
]

PREP_RE = re.compile(r"Cmpt Prep$")
GLB = ["Execute graph", "SenFusedDeviceNode", "AIU Roundtrip", "Flex RoundTrip", "PostKeys", "FetchKeys", "Callback",
       "HostPrep", "AllocateFrame of", "Update CBs"]


# ---------------------------------------------------------------- the documented rules that look at a slice NAME
def is_prep_name(name):
    """README "keep_prep" / --keep_prep help: the *prep* events of the accelerator are replaced by the ConcurrentPreps
    counter.  A FLEX prep event is the `Cmpt Prep` phase of a kernel: its name ENDS in "Cmpt Prep" (case-sensitive)."""
    return PREP_RE.search(name) is not None


def is_global_name(name):
    """--drop_globals ("drop throw-away events", drop_global_events' list of space takers): the name CONTAINS one of
    the listed keywords, case-sensitive"""
    return any(g in name for g in GLB)


def well_formed_name(name):
    """the well-formed name domain of DESIGN.md 8.7: the tool checks its two FLEX classifiers against each other and
    aborts when they disagree, which they do when a phase keyword is not the suffix of the name, when a DMA keyword is
    part of a longer word, and when a dialect name that one of them compares with == is only contained in the name"""
    for k in ("Cmpt Prep", "Cmpt Exec"):
        if k in name and name.find(k) != len(name) - len(k):       # every occurrence is the suffix
            return False
    if "DmaI" in name or "DmaO" in name or "Compute of" in name or "Barrier:" in name or "PrepareAndSyncRdma" in name:
        return False                    # no removal rule reads them; left to the fixed vocabulary of the shared generator
    if "Flex RoundTrip" in name and name != "Flex RoundTrip":
        return False
    return bool(name.strip())


def _edits(pat):
    """near misses of a rule's pattern: other case, every single character removed, the blank doubled / replaced /
    removed, two neighbours swapped - none of them contains the pattern itself"""
    out = [pat.lower(), pat.upper(), pat.swapcase(), pat[0].swapcase() + pat[1:], pat[:-1] + pat[-1].swapcase()]
    out += [pat[:i] + pat[i + 1:] for i in range(len(pat))]
    out += [pat[:i] + pat[i + 1] + pat[i] + pat[i + 2:] for i in range(0, len(pat) - 1, 3)]
    if " " in pat:
        out += [pat.replace(" ", "  "), pat.replace(" ", "_"), pat.replace(" ", "-")]
    else:
        m = len(pat) // 2
        out += [pat[:m] + " " + pat[m:], pat[:m] + "_" + pat[m:]]
    return [x for x in dict.fromkeys(out) if pat not in x]


_NEAR = None


def near_miss_names():
    """NAMES AS DATA: slice names around every documented removal rule that reads the name - near misses (which no rule
    removes) and hits in unusual positions (which the rule may remove).  What may be removed is decided by
    is_prep_name / is_global_name, i.e. by the documented rule, never by the tool."""
    global _NEAR
    if _NEAR is not None:
        return _NEAR
    stems = ["conv", "Tokenizer", "Weights", "mm_3 Wgt", "add_11"]
    out = []
    P = "Cmpt Prep"
    for st in stems:
        out += [f"{st} Prep", f"Prep {st}", f"{st}_Prep", f"{st}Prep", f"{st} Prep_1", f"{st} Prep Exec", f"{st} prep",
                f"{st} PREP", f"{st} Prepare", f"{st} {P}", f"{st}X{P}", f"{st}_{P}"]
        out += [f"{st} {v}" for v in _edits(P)]
    out += ["Prep", " Prep", "Preprocess_3", "PrepQueue fill", "Prepare", "Host Prep", "Device Prep", P, "X" + P]
    out += _edits(P)
    for K in GLB:
        out += [K, K + "s", "x" + K + "y", f"pre {K} 3", f"{K} Prep", f"{K[:4]} Prep"]
        out += _edits(K) + [f"{v} 7" for v in _edits(K)[:6]]
    _NEAR = [n for n in dict.fromkeys(out) if well_formed_name(n)]
    return _NEAR


KERNEL_BASES = ["Prep_conv", "conv_Prep", "Weights Prep", "Prep", "HostPrep_2", "Hostprep_2", "callback_k", "Callback_k",
                "Cmpt_Prep_k", "cmpt prep", "PostKey_1", "Exec Prep"]


def near_miss_rename(r, s):
    """rename host slices and whole-span device slices to names of near_miss_names(), and give some kernels a base name
    that carries a rule keyword in front of its (unchanged) phase suffix"""
    pool = near_miss_names()
    n = 0
    hosts = [u for u, t in s.truth.items() if t["kind"] == "host" and t["name"].startswith("HostFn_")]
    devs = [u for u, t in s.truth.items() if t["kind"] == "other"]
    for u in hosts + devs:
        if r.random() < 0.6:
            rename_slice(s, u, r.choice(pool))
            n += 1
    if r.random() < 0.5:
        bases = {}
        for u, t in s.truth.items():
            if t["kind"] in ("Cmpt Prep", "Cmpt Exec") and t["name"].endswith(" " + t["kind"]):
                b = t["name"][:-len(t["kind"]) - 1]
                if b not in bases:
                    bases[b] = r.choice(KERNEL_BASES) if r.random() < 0.4 else None
                if bases[b] and well_formed_name(f"{bases[b]} {t['kind']}"):
                    rename_slice(s, u, f"{bases[b]} {t['kind']}")
                    n += 1
    s.meta["near_miss_names"] = n
DROP_STAGES = ["normalize_phase1", "queueing_counter", "drop_global_events", "processing_filter",
               "detect_partial_overlap_events"]
RULE_OF_STAGE = {"normalize_phase1": (0, 1), "queueing_counter": (2,), "drop_global_events": (3,),
                 "processing_filter": (4,), "detect_partial_overlap_events": (5,)}


def rename_slice(s, u, new):
    """give slice u of scenario s the name `new` (the X record, or the B record and the E record right behind it)"""
    for evs in s.files.values():
        for i, e in enumerate(evs):
            if e2e.uid_of(e) == u and e.get("ph", "X") in ("X", "B"):
                e["name"] = new
                if e.get("ph") == "B" and i + 1 < len(evs) and evs[i + 1].get("ph") == "E":
                    evs[i + 1]["name"] = new
    s.truth[u]["name"] = new


def _tr():
    sys.path.insert(0, os.path.join(coqrun.VERIF, "tools"))
    import translate_registration
    return translate_registration


def uz(u):
    return int(u[1:])


def gen_options(r, s):
    """(argv tail, descriptor) from the documented stage-selecting options"""
    o = []
    d = {"keep_prep": False, "F": "", "drop": False, "limit": None, "filter": "", "counters": None, "tb": False}
    if r.random() < 0.3:
        o.append("--keep_prep")
        d["keep_prep"] = True
    if r.random() < 0.25:
        o.append("-M")
    if r.random() < 0.2:
        o.append("--disable_tb")
    if r.random() < 0.15:
        o.append("--tb")
        d["tb"] = True
    if r.random() < 0.3:
        o.append("--drop_globals")
    u = r.random()
    if u < 0.15:
        d["counters"] = []
        o += ["-C"]
    elif u < 0.45:
        d["counters"] = [c for c in ["power_ts4", "coll_bw", "prep_queue", "bandwidth"] if r.random() < 0.5]
        o += ["-C"] + d["counters"]
    if r.random() < 0.2:
        d["F"] = r.choice(["X", "C", "XC", "M"])
        o += ["-F", d["F"]]
    if r.random() < 0.2:
        o += ["-O", "drop"]
        d["drop"] = True
    if r.random() < 0.2:
        o.append("--flow")
    if r.random() < 0.15:
        o.append("-I")
    if r.random() < 0.15:
        o.append("-t")
    if r.random() < 0.2:
        o.append("--power-stats")
    if r.random() < 0.08:
        o.append("--flex_ts_fix")       # README "troubleshooting": moves device slices of a job, removes nothing
    if r.random() < 0.35:
        starts = sorted(t["start"] for t in s.truth.values())
        lim = {}
        if r.random() < 0.6:
            lim["skip"] = r.randrange(0, 6)
        if r.random() < 0.6:
            lim["count"] = r.randrange(0, max(2, len(starts)))
        if r.random() < 0.5 and starts:
            lim["ts_start"] = r.choice(starts) + r.choice([0.0, 0.5, -0.5])
        if r.random() < 0.5 and starts:
            lim["ts_end"] = r.choice(starts) + r.choice([0.0, 0.5, 300.0])
        d["limit"] = lim
        o += ["--event_limit", json.dumps(lim)]
    if len(s.files) >= 2 and r.random() < 0.1:
        d["collide"] = True      # two input files of the run share a job id (file names chosen when written)
    if r.random() < 0.25:
        d["filter"] = r.choice(["name:Exec$", "name:^HostFn_[01]", "args.uid:[37]$", "args.note:^1", "comment:note",
                                "name:Exec$,args.uid:2$", "name:DmaO$", "name: Prep$", "name:Prep", "name:[Cc]allback",
                                "name:^Cmpt"])
        o += ["--event_filter", d["filter"]]
    return o, d


def matches_filter(filterstr, ev_name, args, top):
    """NormalizationContext.extract_eventfilters / event_filtered on the normalized event (documented semantics)"""
    if not filterstr.strip():
        return False
    for f in filterstr.split(","):
        kv = f.split(":")
        if len(kv) != 2:
            continue
        e = dict(top, name=ev_name, args=args)
        for a in kv[0].split("."):
            if not isinstance(e, dict) or a not in e:
                break
            e = e[a]
        if not isinstance(e, dict) and re.search(kv[1], str(e)) is not None:
            return True
    return False


def input_events(s):
    """uid -> the input event dict (B part for pairs) and its duration"""
    out = {}
    for fn, evs in s.files.items():
        for e in evs:
            u = e2e.uid_of(e)
            if u is not None and e["ph"] in ("X", "B"):
                out[u] = e
    return out


def run_case(s, opts, desc, work, atoms, record=True):
    shutil.rmtree(os.path.join(work, "in"), ignore_errors=True)
    inp = scenario.write(s, os.path.join(work, "in"), collide=desc.get("collide", False))
    out = os.path.join(work, "out", "o.json")
    shutil.rmtree(os.path.join(work, "out"), ignore_errors=True)
    os.makedirs(os.path.join(work, "out"))
    argv = ["-i", inp, "-o", out, "--freq", f"{s.freq}:1100.0", "-D", "0"] + opts
    res = e2e.run_inproc(argv, out, record=record)
    return argv, res


def valuation(argv, atoms):
    from aiu_trace_analyzer.core.acelyzer import Acelyzer
    import aiu_trace_analyzer.pipeline as event_pipe
    from aiu_trace_analyzer.constants import TS_CYCLE_KEY
    a = Acelyzer(list(argv))
    env = {"args": a.args, "self": a, "event_pipe": event_pipe, "TS_CYCLE_KEY": TS_CYCLE_KEY}
    return [bool(eval(t, {"__builtins__": {"any": any, "len": len}}, env)) for t in atoms], a.args  # noqa: S307


def analyse(s, desc, res, args):
    """abstract events (arrival order) + implementation-side observations + oracle verdicts"""
    acc = res.stage_in
    names = [n for n, _ in acc]
    arrival = acc[0][1] if acc else []
    exported = [e for e in (res.events or []) if e.get("ph") == "X" and e2e.uid_of(e) is not None]
    exp_uids = [e2e.uid_of(e) for e in exported]
    seq = [(n, Counter(us)) for n, us in acc] + [("EXPORT", Counter(exp_uids))]
    drops = {n: [] for n in DROP_STAGES}
    other_drops, dups = [], []
    for (a, ca), (b, cb) in zip(seq, seq[1:]):
        miss, extra = ca - cb, cb - ca
        if miss:
            if a in drops:
                drops[a] += list(miss.elements())
            else:
                other_drops.append((a, sorted(miss.elements())[:5]))
        if extra:
            dups.append((a, b, sorted(extra.elements())[:5]))
    inev = input_events(s)
    lim = dict(args.event_limit)
    ts_start, ts_end = lim.get("ts_start", 0.0), lim.get("ts_end", sys.float_info.max)
    ovl_dropped = set(drops["detect_partial_overlap_events"])
    aevs = []
    for u in arrival:
        if u not in s.truth:        # a slice that is not in the input at all (leaked from elsewhere): the oracle reports it
            continue
        t = s.truth[u]
        e = inev[u]
        a = {**(e.get("args") or {}), **(e.get("attr") or {})}
        top = {k: v for k, v in e.items() if k not in ("attr", "args", "name")}
        name = t["name"].replace("RDMA", "Rdma").replace("Receive", "Recv")
        aevs.append({"uid": uz(u), "x": True, "meta": False,
                     "inwin": (t["end"] >= ts_start) and (t["start"] <= ts_end),
                     "filt": matches_filter(args.event_filter, name, a, top),
                     "prep": is_prep_name(name),
                     "glob": is_global_name(name),
                     "ovl": u in ovl_dropped})
    return names, arrival, exported, exp_uids, drops, other_drops, dups, aevs


def oracle(s, desc, args, res, arrival, exported, drops):
    """documented rules on ground truth -> expected uid multiset; user keys; legitimacy of -O drop removals"""
    fails = []
    # what the COMMAND LINE asked for (not what the parser made of it: parsed values may carry state of earlier runs)
    lim = dict(desc.get("limit") or {})
    skip, cnt = lim.get("skip", 0), lim.get("count", 1 << 60)
    ts_start, ts_end = lim.get("ts_start", 0.0), lim.get("ts_end", sys.float_info.max)
    inev = input_events(s)
    prep_active = bool(any(args.counter) and "prep_queue" in args.counter) and not desc["tb"]
    expect, pos = [], 0
    arrived = Counter(arrival)
    mult = input_multiplicity(s)
    for u, t in s.truth.items():
        if t.get("nonpositive"):
            if u in arrived:
                fails.append(("nonpositive_duration_slice_ingested", u))
            continue
        if arrived[u] < mult.get(u, 1):         # a record present k times in the input is k input slices
            fails.append(("slice_lost_in_ingestion", u))
    foreign = sorted({u for u in list(arrival) + [e2e.uid_of(e) for e in exported] if u not in s.truth})
    if foreign:
        fails.append(("slice_invented", foreign[:5]))
    for u in arrival:
        if u not in s.truth:
            continue
        t = s.truth[u]
        e = inev[u]
        inwin = t["end"] >= ts_start and t["start"] <= ts_end
        if inwin:
            pos += 1
        if not (inwin and skip < pos <= skip + cnt):
            continue
        a = {**(e.get("args") or {}), **(e.get("attr") or {})}
        top = {k: v for k, v in e.items() if k not in ("attr", "args", "name")}
        if matches_filter(desc.get("filter") or "", t["name"], a, top):
            continue
        if prep_active and is_prep_name(t["name"]) and not args.keep_prep:
            continue
        if args.drop_globals and is_global_name(t["name"]):
            continue
        if args.filter != "" and "X" not in args.filter:
            continue
        expect.append(u)
    got = Counter(e2e.uid_of(e) for e in exported)
    exp = Counter(expect)
    if desc["drop"]:
        # -O drop is a documented rule whose decision (which slices overlap partially, after the tool's own 0.1 ns
        # rounding of slice ends) is C04's subject: what the overlap stage itself discarded is accepted here; any
        # other disappearance is not
        exp = exp - Counter(drops["detect_partial_overlap_events"])
        # ... but -O drop is about slices that overlap on a lane: a discarded slice must at least intersect (touch, up to
        # 1 ns) another slice it can share a lane with - host slices of a rank are merged onto one lane, device slices stay on
        # the stream they were logged on.  A host slice discarded "because of" a device slice (or the other way round) is
        # not covered by the rule: the two are never on one lane of the exported trace.
        eps = 1e-3
        for u in sorted(set(drops["detect_partial_overlap_events"])):
            t = s.truth.get(u)
            if t is None:
                continue
            def lane_mate(v, w):
                if v == u or w["rank"] != t["rank"] or bool(w.get("device")) != bool(t.get("device")):
                    return False
                return (not t.get("device")) or w.get("tid") == t.get("tid")
            if not any(lane_mate(v, w) and w["start"] < t["end"] + eps and t["start"] < w["end"] + eps
                       for v, w in s.truth.items()):
                fails.append(("slice_dropped_by_O_drop_without_a_lane_mate_it_overlaps",
                              {"uid": u, "name": t["name"], "device": bool(t.get("device")),
                               "interval": [t["start"], t["end"]]}))
                break
    if got != exp:
        miss, extra = exp - got, got - exp
        # the documented rules are permissions to remove: a slice that a rule could have removed but that is still
        # exported (e.g. --drop_globals under the --tb profile, which disables that stage) is not a C01 failure
        if miss:
            fails.append(("slice_missing_without_documented_rule", sorted(miss.elements())[:5]))
        if any(v > max(1, mult.get(u, 1)) for u, v in got.items()):
            fails.append(("slice_duplicated", sorted(u for u, v in got.items() if v > max(1, mult.get(u, 1)))[:5]))
        if any(u not in s.truth for u in extra):
            fails.append(("slice_invented", sorted(u for u in extra if u not in s.truth)[:5]))
    # user keys survive (top-level unknown keys are moved into args by convert_events)
    for e in exported:
        u = e2e.uid_of(e)
        if u not in s.truth:
            continue
        t = s.truth[u]
        ea = e.get("args", {})
        for k in t["user_keys"]:
            kk = k.split(".")[-1]
            if kk not in ea and kk not in e:
                fails.append(("user_key_lost", (u, k)))
                break
    return fails


def coq_input(val, psel, args, desc, aevs):
    lim = dict(args.event_limit)
    skip, cnt = int(lim.get("skip", 0)), int(lim.get("count", 1 << 60))
    fx = (args.filter == "") or ("X" in args.filter)
    opts = enc.P(enc.Z(skip), enc.Z(cnt), enc.P(enc.B(args.keep_prep), enc.P(enc.B(fx), enc.B(desc["drop"]))))
    evs = enc.L([enc.P(enc.P(enc.Z(a["uid"]), enc.P(enc.B(a["x"]), enc.B(a["meta"]))),
                       enc.P(enc.P(enc.B(a["inwin"]), enc.B(a["filt"])),
                             enc.P(enc.B(a["prep"]), enc.P(enc.B(a["glob"]), enc.B(a["ovl"])))))
                 for a in aevs])
    return enc.P(enc.P(enc.P(enc.L([enc.B(b) for b in val]), enc.N(psel)), opts), evs)


def epoch_host_scenario(r):
    """host-only slices at today's epoch in microseconds (~1.76e15: doubles are 0.25 us apart there) with short but
    POSITIVE durations - some below half that spacing, so that ts + dur == ts in double arithmetic.  Every slice has a
    positive duration and no rule removes it."""
    s = scenario.Scenario()
    s.freq = 1024.0
    s.ranks = r.choice([1, 2])
    uid = 0
    for rank in range(s.ranks):
        evs, t = [], 1.76e15 + 1024.0 * r.randrange(0, 1 << 20)
        for k in range(r.randrange(3, 10)):
            t += 4.0 * r.randrange(1, 50)
            d = r.choice([0.0625, 0.1, 0.125, 0.25, 0.5, 3.0])
            uid += 1
            u = f"u{uid}"
            e = {"name": f"HostFn_{k % 4}", "ph": "X", "pid": rank, "tid": r.choice([11, 12]), "ts": t, "dur": d,
                 "args": {"uid": u}}
            s.truth[u] = {"rank": rank, "kind": "host", "name": e["name"], "start": t, "end": t + d, "device": False,
                          "job": 0, "user_keys": [], "tid": e["tid"]}
            evs.append(e)
        s.files[f"rank{rank}_job0.json"] = evs
    s.meta["epoch_host"] = True
    return s


def repeat_records(r, s):
    """a record that the tracer wrote twice (the repository's own sample_flex_3062_job_4.json ends with one): an exact
    copy of an X record, or of an adjacent B/E pair, right behind the original.  Every copy is an input slice of its own:
    both are exported (identical intervals nest, they are no partial overlap)."""
    n = 0
    for fn, evs in s.files.items():
        if r.random() < 0.5:
            continue
        for _ in range(r.choice([1, 1, 2])):
            cand = [i for i, e in enumerate(evs) if e2e.uid_of(e) is not None and
                    (e.get("ph") == "X" or (e.get("ph") == "B" and i + 1 < len(evs) and evs[i + 1].get("ph") == "E"))]
            if not cand:
                break
            i = r.choice(cand)
            k = 1 if evs[i]["ph"] == "X" else 2
            evs[i + k:i + k] = copy.deepcopy(evs[i:i + k])
            n += 1
    s.meta["repeated_records"] = n


def input_multiplicity(s):
    c = Counter()
    for evs in s.files.values():
        for e in evs:
            if e.get("ph") in ("X", "B") and e2e.uid_of(e) is not None:
                c[e2e.uid_of(e)] += 1
    return c


def one(ctx, r, atoms, work, case=None):
    """generate (or take) one case, run it, return record"""
    if case is None:
        s = epoch_host_scenario(r) if r.random() < 0.06 else scenario.gen_scenario(r)
        if r.random() < 0.5 and not s.meta.get("epoch_host"):
            near_miss_rename(r, s)
        if r.random() < 0.15 and not s.meta.get("epoch_host"):
            repeat_records(r, s)
        if s.ranks >= 2 and r.random() < 0.5 and not s.meta.get("epoch_host"):
            # chain all-reduce groups (complete, every rank contributes): clock alignment and bandwidth stages then
            # buffer and shift real work instead of passing everything through
            collectives.add_chain_allreduce(r, s, n_groups=r.choice([1, 2, 3]))
            if r.random() < 0.4:
                collectives.add_host_dma(r, s)
        opts, desc = gen_options(r, s)
        if hasattr(s, "coll") and ("--event_limit" in opts or "--event_filter" in opts) and "-M" not in opts:
            # limiting/filtering may remove a rank's whole contribution to a collective; the clock alignment then refuses
            # the trace (exit 1 with a message) - a documented precondition of that stage, not a loss of events
            opts.append("-M")
    else:
        s, opts, desc = case
    argv, res = run_case(s, opts, desc, work, atoms)
    rec = {"opts": opts, "desc": desc, "summary": s.summary(), "res": res, "s": s, "argv": argv}
    if not res.ok() or res.events is None:
        rec["crash"] = (res.rc, res.exc)
        return rec
    val, args = valuation(argv, atoms)
    names, arrival, exported, exp_uids, drops, other_drops, dups, aevs = analyse(s, desc, res, args)
    rec.update(val=val, args=args, names=names, arrival=arrival, exported=exported, drops=drops,
               other_drops=other_drops, dups=dups, aevs=aevs)
    rec["oracle"] = oracle(s, desc, args, res, arrival, exported, drops)
    if other_drops:
        rec["oracle"].append(("slice_discarded_by_stage_without_documented_rule", other_drops[:3]))
    if dups:
        rec["oracle"].append(("slice_duplicated_between_stages", dups[:3]))
    impl = [sorted(uz(u) for u in exp_uids),
            [sorted(uz(u) for u in drops["normalize_phase1"]), sorted(uz(u) for u in drops["queueing_counter"]),
             sorted(uz(u) for u in drops["drop_global_events"]), sorted(uz(u) for u in drops["processing_filter"]),
             sorted(uz(u) for u in drops["detect_partial_overlap_events"])],
            len(names)]
    rec["term"] = (coq_input(val, 1 if desc["tb"] else 0, args, desc, aevs), enc.V(impl))
    return rec


def scenario_to_json(s):
    return {"freq": s.freq, "files": s.files,
            "truth": {u: {k: v for k, v in t.items()} for u, t in s.truth.items()}}


def scenario_from_json(d):
    s = scenario.Scenario()
    s.freq = d["freq"]
    s.files = d["files"]
    s.truth = d["truth"]
    s.ranks = len({t["rank"] for t in s.truth.values()}) if s.truth else 0
    return s


def run(ctx):
    tr = _tr()
    atoms = tr.analyze(coqrun.REPO)["atoms"]
    r = ctx.rng
    work = tempfile.mkdtemp(prefix="c01_", dir=ctx.work)
    recs = []
    try:
        cdir = os.path.join(coqrun.VERIF, "corpus", "C01")
        if os.path.isdir(cdir):
            for fn in sorted(os.listdir(cdir)):
                c = json.load(open(os.path.join(cdir, fn)))
                recs.append(one(ctx, r, atoms, work, (scenario_from_json(c["scenario"]), c["opts"], c["desc"])))
        bad = 0
        for _ in range(ctx.pick(300, 6000)):
            recs.append(one(ctx, r, atoms, work))
            bad += int("crash" in recs[-1] or bool(recs[-1].get("oracle")))
            if bad >= 8:      # enough failing inputs: stop early (a leak between in-process runs makes every further run slower)
                break
    finally:
        shutil.rmtree(work, ignore_errors=True)
    fails, terms, idx = [], [], []
    dist = {"ranks": {}, "slices": {}, "options": {}, "crashes": 0, "stages": {}, "cases_with_near_miss_names": 0,
            "near_miss_named_slices": 0}
    seen, nontriv = set(), 0
    for i, rec in enumerate(recs):
        sm = rec["summary"]
        dist["ranks"][sm["ranks"]] = dist["ranks"].get(sm["ranks"], 0) + 1
        nm = rec["s"].meta.get("near_miss_names", 0)
        dist["cases_with_near_miss_names"] += int(nm > 0)
        dist["near_miss_named_slices"] += nm
        b = min(sm["slices"] // 10 * 10, 60)
        dist["slices"][b] = dist["slices"].get(b, 0) + 1
        for o in rec["opts"]:
            if o.startswith("-"):
                dist["options"][o] = dist["options"].get(o, 0) + 1
        if "crash" in rec:
            dist["crashes"] += 1
            fails.append({"input": {"scenario": scenario_to_json(rec["s"]), "opts": rec["opts"], "desc": rec["desc"]},
                          "expected": "exit 0 and an exported trace", "observed": {"rc": rec["crash"][0], "exc": rec["crash"][1]},
                          "signature": {"kind": "run_failed_on_wellformed_scenario", "exc": (rec["crash"][1] or [""])[0]}})
            continue
        dist["stages"][len(rec["names"])] = dist["stages"].get(len(rec["names"]), 0) + 1
        for kind, detail in rec["oracle"][:1]:
            fails.append({"input": {"scenario": scenario_to_json(rec["s"]), "opts": rec["opts"], "desc": rec["desc"]},
                          "expected": "every input slice exported exactly once unless a documented rule removes it",
                          "observed": {"kind": kind, "detail": detail}, "signature": {"kind": kind}})
        terms.append(rec["term"])
        idx.append(i)
        key = (json.dumps(rec["s"].files, sort_keys=True), tuple(rec["opts"]))
        if key not in seen:
            seen.add(key)
            held = sm["slices"] >= 2 and any(len(v) for v in rec["drops"].values()) or sm["ranks"] >= 2
            nontriv += int(bool(held))
    bad, _, secs = coqrun.run_cases(
        "C01", "From AiuModel Require Import C01Model.",
        "(((list bool * nat) * (Z * Z * (bool * (bool * bool)))) * "
        "list ((Z * (bool * bool)) * ((bool * bool) * (bool * (bool * bool)))))", "c01_run", terms, shard=25)
    mism = []
    for j in bad[:5]:
        rec = recs[idx[j]]
        mism.append({"name": "correspondence C01Model.c01_run vs real analyzer (exported uids / per-stage drops / stage count)",
                     "case": {"opts": rec["opts"], "summary": rec["summary"]}, "impl": rec["term"][1][:500]})
        fails_extra = {"input": {"scenario": scenario_to_json(rec["s"]), "opts": rec["opts"], "desc": rec["desc"]},
                       "expected": "model prediction", "observed": rec["term"][1][:300],
                       "signature": {"kind": "model_mismatch_only"}}
        rec["mismatch"] = fails_extra
    return {
        "evaluations": len(recs), "distinct_nontrivial": nontriv,
        "rule": "scenarios from harness/common/scenario.py (1-4 rank files, host+device lanes, B/E and X, wraps, pipelined "
                "kernels, globals, zero/negative durations, user keys; in half of them host slices, whole-span device "
                "slices and kernel base names are renamed to near misses / unusual hits of the name-reading removal rules "
                "(Prep suffix, --drop_globals keywords) inside the well-formed name domain of DESIGN 8.7) x random documented option sets (keep_prep, -M, "
                "--disable_tb, --tb, --drop_globals, -C subsets, -F, -O drop, --flow, -I, -t, --power-stats, --event_limit, "
                "--event_filter). non-trivial = distinct (scenario, options) where some stage discarded slices or >= 2 ranks "
                "were buffered by clock alignment",
        "samples": [{"opts": recs[j]["opts"], "summary": recs[j]["summary"]} for j in (0, len(recs) // 2, len(recs) - 1)],
        "mismatches": mism, "oracle_failures": [shrink(f) for f in fails[:3]],
        "ties": [{"name": "C01Model.c01_run = exported uids / per-stage drops / #stages of the real run",
                  "cases": len(terms), "mismatching": len(bad), "coq_seconds": round(secs, 1)}],
        "distribution": dist, "traces_validated_against_impl": len(terms),
    }


def still_fails(inp, kind):
    tr = _tr()
    atoms = tr.analyze(coqrun.REPO)["atoms"]
    work = tempfile.mkdtemp(prefix="c01r_")
    try:
        rec = one(None, None, atoms, work, (scenario_from_json(inp["scenario"]), inp["opts"], inp["desc"]))
    finally:
        shutil.rmtree(work, ignore_errors=True)
    if "crash" in rec:
        return kind == "run_failed_on_wellformed_scenario", rec["crash"]
    ks = [k for k, _ in rec["oracle"]]
    return kind in ks, rec["oracle"][:2]


def shrink(f):
    """delta-debug the scenario: drop whole files, then single slices (B/E pairs together)"""
    kind = f["signature"]["kind"]
    inp = f["input"]
    try:
        changed = True
        budget = 60
        while changed and budget > 0:
            changed = False
            sc = inp["scenario"]
            for fn in list(sc["files"]):
                if len(sc["files"]) <= 1:
                    break
                budget -= 1
                uids = {e2e.uid_of(e) for e in sc["files"][fn]}
                cand = {"freq": sc["freq"], "files": {k: v for k, v in sc["files"].items() if k != fn},
                        "truth": {u: t for u, t in sc["truth"].items() if u not in uids}}
                t = dict(inp, scenario=cand)
                if still_fails(t, kind)[0]:
                    inp, changed = t, True
                    break
            if changed:
                continue
            sc = inp["scenario"]
            for u in list(sc["truth"]):
                if budget <= 0:
                    break
                budget -= 1
                cand = {"freq": sc["freq"],
                        "files": {k: [e for e in v if e2e.uid_of(e) != u and not _pair_of(v, e, u)] for k, v in sc["files"].items()},
                        "truth": {x: t for x, t in sc["truth"].items() if x != u}}
                t = dict(inp, scenario=cand)
                if still_fails(t, kind)[0]:
                    inp, changed = t, True
                    break
    except Exception:  # noqa: BLE001
        pass
    return dict(f, input=inp)


def _pair_of(evs, e, u):
    """the E event that closes the B event of uid u (adjacent, same name)"""
    if e.get("ph") != "E":
        return False
    i = evs.index(e)
    return i > 0 and evs[i - 1].get("ph") == "B" and e2e.uid_of(evs[i - 1]) == u


def search(ctx, res, broken):
    import random
    import time
    tr = _tr()
    try:
        atoms = tr.analyze(coqrun.REPO)["atoms"]
    except Exception:  # noqa: BLE001
        atoms = []
    r = random.Random(ctx.seed + 11)
    work = tempfile.mkdtemp(prefix="c01s_", dir=ctx.work)
    t0 = time.time()
    try:
        while time.time() - t0 < ctx.pick(90, 900):
            s = scenario.gen_scenario(r)
            opts, desc = gen_options(r, s)
            argv, rs = run_case(s, opts, desc, work, atoms)
            inp = {"scenario": scenario_to_json(s), "opts": opts, "desc": desc}
            if not rs.ok() or rs.events is None:
                return [{"input": inp, "expected": "exit 0", "observed": {"rc": rs.rc, "exc": rs.exc},
                         "signature": {"kind": "run_failed_on_wellformed_scenario", "exc": (rs.exc or [""])[0]}}]
            from aiu_trace_analyzer.core.acelyzer import Acelyzer
            args = Acelyzer(list(argv)).args
            names, arrival, exported, exp_uids, drops, other_drops, dups, aevs = analyse(s, desc, rs, args)
            fl = oracle(s, desc, args, rs, arrival, exported, drops)
            if other_drops:
                fl.append(("slice_discarded_by_stage_without_documented_rule", other_drops[:3]))
            if dups:
                fl.append(("slice_duplicated_between_stages", dups[:3]))
            if fl:
                return [shrink({"input": inp, "expected": "conservation", "observed": {"kind": fl[0][0], "detail": fl[0][1]},
                                "signature": {"kind": fl[0][0]}})]
    finally:
        shutil.rmtree(work, ignore_errors=True)
    return []


def replay(ctx, payload):
    f = payload.get("failing")
    if not f:
        return True, "replay file names only broken obligations: " + str(payload.get("broken"))[:500]
    bad, detail = still_fails(f["input"], f["signature"]["kind"])
    return not bad, {"observed": detail}
