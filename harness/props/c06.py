"""C06 — device slice durations equal cycle deltas divided by the SoC frequency.

Ties (the REAL code vs Timesync.v evaluated by vm_compute inside coqc, exact rationals on the exact grid):
  * stage:  cycle_count_to_wallclock then tighten_hts_by_instr_type called directly on one event dict
            (mode 0: both, observing ts/dur/args.ts_all/args.ts_dev/args.time_adjust after EACH stage; mode 1/2: one
            stage alone), incl. a malformed stream for the error enum (KeyError/ValueError/ZeroDivisionError/
            AssertionError)                                              -> Timesync.stage_val
  * names:  _match_opIds_from_event, get_opIds_from_event, FlexEventMapToTS()[name] and the reference index that
            _convert_cycle_timestamps picks (observed through its result)  -> Timesync.names_val
  * e2e:    single-rank FLEX files through Acelyzer(...).run() with --freq f and --freq k*f; exported (ts, dur) of
            every input slice (identified by args.uid)                    -> Timesync.e2e_val
            f: powers of two, and SoC frequencies with a non-zero fractional part p/q MHz (q = 2,4,8; counters multiples
            of p keep cycle/f exact) in every spelling --freq accepts (f, f.0, f:core, exponent); arbitrary decimal
            frequencies (559.873, 1066.67) oracle-only.  The oracle reads the frequency of a run from the digits of the
            spelling given to --freq (exact rational), never from the tool's parser.
Oracle (written from the property text, independent of the model): for every device slice with a canonical name
("<prefix> DmaI|Cmpt Prep|Cmpt Exec|DmaO", or no phase keyword at all) dur == (TSb-TSa)/f for the pair of its phase,
ts+dur == host ts+dur, dur > 0 iff TSa < TSb, finite, no exception when counters are monotone and the widened slice
starts at >= 0; host-only slices unchanged; for a pair of runs (f, k*f): dur scales by 1/k, end and host slices
identical, the start moves by exactly the duration difference.
"""
import contextlib
import copy
import glob
import hashlib
import io
import json
import math
import os
import random
import shutil
import tempfile
import time
import zlib
from fractions import Fraction

from common import coqrun, enc

ID = "C06"
PROP_FILE = "props/C06.v"
MODEL_TARGETS = ["theories/Timesync.vo", "theories/Tables_C06.vo"]
THEOREMS = ["C06_duration", "C06_end_fixed", "C06_positive", "C06_scale", "C06_host_unchanged", "C06_no_error",
            "C06_domain_exact", "C06_stream", "C06_slice_ok_unfold", "C06_canonical_names", "C06_flex_table_agrees"]
ALLOWED_AXIOMS = []
MANIFEST = {
    "text": "Proof. Coq theorems over an executable model (Timesync.v) of cycle_count_to_wallclock followed by "
            "tighten_hts_by_instr_type (incl. _convert_cycle_timestamps, _align_hts_by_type, _align_hts_to_beg, the "
            "phase keyword tables of both stages and FlexEventMapToTS, every assertion as an explicit Err), for ALL "
            "device events: any name, any integer counters, any rational host ts/dur, any non-zero --freq. "
            "C06_duration: whenever the two stages return, dur' = (TSb - TSa)/f for the counter pair the name selects "
            "(DmaI 1-2, Prep 2-3, Exec 3-4, DmaO 4-5, other 1-5); C06_end_fixed: ts'+dur' = ts+dur (for names without "
            "phase keyword under the condition that stage 1 also classifies them as 'other'); C06_positive: dur' > 0 iff "
            "TSa < TSb; C06_scale: with k*f the duration is dur'/k, the end is the same and the start moves by the "
            "difference; C06_host_unchanged: events failing the guard are returned unchanged; C06_no_error / C06_domain_exact: for f > 0 "
            "and a consistently classified name the stages return if and only if the counters are non-decreasing "
            "and the widened slice starts at >= 0; C06_stream lifts all of it to whole event "
            "streams; C06_canonical_names: '<p> DmaI', and '<p> <kw>' without an earlier keyword, classify "
            "consistently in both stages; C06_flex_table_agrees: FlexEventMapToTS names the same pair on those names. "
            "The model is tied to the code on every run by direct drive of the two stage functions (observing every "
            "intermediate field) and end to end through Acelyzer with pairs of --freq values.",
    "note": "Print Assumptions: closed under the global context for every theorem. Trusted: Coq kernel + vm_compute; the "
            "hand-written model (incl. its copy of the keyword tables) is tied by differential testing only, on the "
            "exact grid (f a power of two - end to end also f = p/q MHz, q | 8, with counters multiples of p, in every "
            "spelling of --freq - host times multiples of 2^-10, integer counters) where every double "
            "operation of the code is exact; IEEE rounding itself is not modelled (an off-grid stream is checked by "
            "the oracle with relative tolerance 1e-9 only). Names whose phase keyword is not a suffix preceded by a "
            "space (e.g. 'xCmpt Prep', 'a DmaI b') are classified differently by the two stages: the model is "
            "faithful to that (C06_midname_end_moves shows the end moving) and the property's claim is restricted to "
            "consistently classified names (name_ok). Later pipeline stages are covered by the end-to-end tie only "
            "(single rank, -O tid default).",
    "technique": "Coq proof (case analysis over the phase tables + field arithmetic in Q, induction over the stream) + "
                 "vm_compute correspondence against the real stage functions and Acelyzer end to end",
    "design_ref": "DESIGN.md section 4/C06, section 2.2",
}
TRUSTED = [
    "modelled, not verified: IEEE double rounding in float(TSk)/freq, the differences and ts+dur (exact on the tie's "
    "grid; off-grid stream oracle-only with tolerance)",
    "modelled, not verified: Python str.endswith / `in` on str (tied on generated and adversarial names), "
    "float(str(int)), numpy.nonzero on a bool vector",
    "hand copy of op_keywords, the endswith chain of _convert_cycle_timestamps and FlexEventMapToTS inside Timesync.v "
    "(no translator: the names tie and the stage tie compare them with the code on every run)",
    "end-to-end tie identifies exported slices by args.uid; Prep slices are removed by the default prep_queue "
    "counter stage unless --keep_prep (harness rule, checked by the tie)",
]
ASSUMPTIONS = [
    "f != 0 (the CLI asserts f > 0); counters are integers (str(int) after normalize_phase2)",
    "claims about the end time need a consistently classified name: phase keyword as ' <kw>' suffix, or no keyword",
    "no exception: TS1 <= .. <= TS5 and host ts+dur >= (TSref - TS1)/f (TSref = end counter of the phase, TS5 for "
    "other events) - exactly the code's assertions",
    "single-rank trace, default profile, -O tid; multi-rank alignment is C07",
]

PH = ["DmaI", "Cmpt Prep", "Cmpt Exec", "DmaO"]
GRID_F = [256.0, 512.0, 1024.0, 2048.0]
OFF_F = [560.0, 1000.0, 1100.5, 833.3, 1234.567]
W = 1 << 32
COQ_IMPORTS = "From AiuModel Require Import Timesync."


# ---------------------------------------------------------------- the property's own reading of a name
def phase_pair(name):
    """(a, b, label) 0-based counter pair of the slice's phase by the property text; None for names outside the
    well-formed domain (a phase keyword that is not the ' <kw>' suffix of an otherwise keyword-free name)."""
    for k, kw in enumerate(PH):
        if name.endswith(" " + kw):
            pre = name[: -len(kw) - 1]
            # a DMA keyword glued into a word of the kernel name ("DmaI_prefetch Cmpt Exec", "xDmaO_y Cmpt Prep") is part of
            # that name, not a phase marker: the phase is still the ' <kw>' suffix
            glued = pre.replace("DmaI", "").replace("DmaO", "") if not any((" " + w) in (" " + pre) for w in ("DmaI", "DmaO")) \
                else pre
            if any(w in glued for w in PH):
                return None
            return (k, k + 1, kw)
    if any(w in name for w in PH):
        return None
    return (0, 4, "other")


# ---------------------------------------------------------------- case representation
# event: {"ph", "args": bool, "name", "ts", "dur", "tsx": [entry x5], "fmt": "str"|"int", "uid": int}
# tsx entry: ["n", int] number | ["m"] key missing | ["b", text] string float() cannot parse
def mk_ev(name, ts, dur, cs=None, ph="X", args=True, fmt="str", uid=0, tid=7):
    return {"ph": ph, "args": args, "name": name, "ts": ts, "dur": dur,
            "tsx": [["n", int(c)] for c in cs] if cs is not None else [["m"]] * 5, "fmt": fmt, "uid": uid, "tid": tid}


def counters(e):
    if all(t[0] == "n" for t in e["tsx"]) and len(e["tsx"]) == 5:
        return [t[1] for t in e["tsx"]]
    return None


def is_device(e):
    """guard of both stages, read from the property text: X slice with args.TS1"""
    return e["ph"] == "X" and e["args"] and len(e["tsx"]) > 0 and e["tsx"][0][0] != "m"


def to_dict(e, for_file=False):
    args = {}
    for k, t in enumerate(e["tsx"]):
        key = f"TS{k + 1}"
        if t[0] == "n":
            args[key] = (hex(t[1]) if e["fmt"] == "hex" else str(t[1])) if (e["fmt"] != "int") else t[1]
        elif t[0] == "b":
            args[key] = t[1]
    d = {"ph": e["ph"], "pid": e.get("pid", 0), "tid": e.get("tid", 7), "name": e["name"], "ts": e["ts"]}
    if e["ph"] == "X" or not for_file:
        d["dur"] = e["dur"]
    if e["args"]:
        args["uid"] = e["uid"]
        d["args"] = args
    return d


# ---------------------------------------------------------------- implementation drivers
def _quiet():
    return contextlib.redirect_stdout(io.StringIO()), contextlib.redirect_stderr(io.StringIO())


def _obs(d):
    a = d.get("args") if isinstance(d.get("args"), dict) else {}
    adj = a.get("time_adjust")
    return [d["ts"], d["dur"], a.get("ts_all"), a.get("ts_dev"),
            [adj["ts"], adj["dur"]] if isinstance(adj, dict) else adj]


def _call(fn, d, f):
    try:
        r = fn(d, None, {"soc_frequency": f})
    except Exception as ex:  # noqa: BLE001
        return enc.Err(type(ex).__name__)
    if not (isinstance(r, list) and len(r) == 1 and r[0] is d):
        return ["returned", len(r) if isinstance(r, list) else -1]
    return _obs(d)


def drive_stage(case):
    import aiu_trace_analyzer.pipeline.timesync as tsy
    import aiu_trace_analyzer.logger as aiulog
    aiulog.setloglevel(0)
    d = to_dict(case["ev"])
    f = case["f"]
    mode = case.get("mode", 0)
    o, e_ = _quiet()
    with o, e_:
        if mode == 1:
            return _call(tsy.cycle_count_to_wallclock, d, f)
        if mode == 2:
            return _call(tsy.tighten_hts_by_instr_type, d, f)
        o1 = _call(tsy.cycle_count_to_wallclock, d, f)
        if isinstance(o1, enc.Err):
            return [o1, None]
        o1 = copy.deepcopy(o1)
        return [o1, _call(tsy.tighten_hts_by_instr_type, d, f)]


def drive_names(name):
    """[op ids, get_opIds_from_event, FlexEventMapToTS pair, reference index of _convert_cycle_timestamps]"""
    import aiu_trace_analyzer.pipeline.timesync as tsy
    from aiu_trace_analyzer.pipeline.tools import FlexEventMapToTS
    ev = {"name": name}
    try:
        ids = [int(x) for x in tsy._match_opIds_from_event(ev)]
        one = int(tsy.get_opIds_from_event(ev))
        p = FlexEventMapToTS()[name]
        pair = None if p is None else [int(p[0][2:]), int(p[1][2:])]
        # reference index: counters 0,1,2,3,4 at f = 1, host end 16 -> stage 1 leaves dur = ref index
        d = {"ph": "X", "name": name, "ts": 8.0, "dur": 8.0, "args": {f"TS{k + 1}": str(k) for k in range(5)}}
        o, e_ = _quiet()
        with o, e_:
            tsy._convert_cycle_timestamps(d, 1.0)
        ref = d["dur"]
        ref = int(ref) if float(ref).is_integer() else ref
        return [ids, one, pair, ref]
    except Exception as ex:  # noqa: BLE001
        return enc.Err(type(ex).__name__)


def prep_dropped(case, e):
    """harness rule: the default prep_queue counter stage removes Prep slices unless --keep_prep"""
    return (e["ph"] == "X" and e["name"].endswith("Cmpt Prep") and "--keep_prep" not in case.get("opts", []))


def write_file(case, d):
    salt = 0
    p = os.path.join(d, f"rank0_{salt}.json")
    evs = []
    for e in case["events"]:
        x = to_dict(e, for_file=True)
        x["pid"] = case.get("pid", 0)
        evs.append(x)
    with open(p, "w") as fh:
        # the same events may come in torch-profiler style (an object with deviceProperties: the TORCH dialect)
        if case.get("torch_form"):
            json.dump({"deviceProperties": [{"id": 0, "name": "AIU", "type": "aiu"}], "traceEvents": evs}, fh)
        else:
            json.dump(evs, fh)
    return p


def drive_e2e(case, workdir=None):
    """Acelyzer end to end on one single-rank file; per input event [ts, dur] of the exported slice with the same
    uid, 'missing' if it was not exported"""
    from aiu_trace_analyzer.core.acelyzer import Acelyzer
    d = tempfile.mkdtemp(prefix="c06_", dir=workdir)
    o, e_ = _quiet()
    try:
        p = write_file(case, d)
        outp = os.path.join(d, "out.json")
        argv = ["-i", p, "-o", outp, "--freq", case.get("spec") or repr(case["freq"]), "-D", "0"] \
            + list(case.get("opts", []))
        with o, e_:
            try:
                ace = Acelyzer(argv)
                rc = ace.run()
                del ace
            except SystemExit as ex:
                return enc.Err("SystemExit%s" % ex.code)
            except Exception as ex:  # noqa: BLE001
                return enc.Err(type(ex).__name__)
        if rc != 0:
            return enc.Err("rc%s" % rc)
        res = json.load(open(outp))
        byuid = {}
        for x in res["traceEvents"]:
            a = x.get("args")
            if x.get("ph") == "X" and isinstance(a, dict) and "uid" in a:
                byuid.setdefault(a["uid"], []).append(x)
        slots = []
        for e in case["events"]:
            xs = byuid.get(e["uid"], [])
            if len(xs) == 1:
                slots.append([xs[0]["ts"], xs[0]["dur"]])
            elif not xs:
                slots.append("missing")
            else:
                slots.append(["exported-times", len(xs)])
        return slots
    finally:
        shutil.rmtree(d, ignore_errors=True)


def drive(case, workdir=None):
    k = case.get("kind")
    if k == "seq":          # stage cases one after the other in ONE process (state left over between events)
        return [drive_stage(c) for c in case["cases"]]
    if k == "e2e":
        return drive_e2e(case, workdir)
    if k == "pair":
        return [drive_e2e(dict(case, freq=case["freq"]), workdir),
                drive_e2e(dict(case, freq=case["freq"] * case["k"], spec=case.get("spec2")), workdir)]
    return drive_stage(case)


# ---------------------------------------------------------------- the --freq option as the user spells it
def spec_freq(spec):
    """SoC frequency (MHz) a --freq spelling '<soc>[:<core>]' denotes, as an exact rational read from its decimal
    digits (never through the tool's parser, never through a double)"""
    return Fraction(spec.split(":")[0].strip())


def run_freqs(case):
    """exact SoC frequency of each run of an end-to-end case: from the spelling handed to --freq when there is one"""
    f1 = spec_freq(case["spec"]) if case.get("spec") else enc.frac(case["freq"])
    if case.get("kind") != "pair":
        return [f1]
    return [f1, spec_freq(case["spec2"]) if case.get("spec2") else enc.frac(case["freq"]) * enc.frac(case["k"])]


def dec_str(fr):
    """plain decimal digits of a rational with a finite decimal expansion: 1125 -> '1125', 1125/2 -> '562.5'"""
    fr = Fraction(fr)
    n = 0
    while (fr * 10 ** n).denominator != 1:
        n += 1
        assert n < 40, fr
    digits = str(int(fr * 10 ** n)).rjust(n + 1, "0")
    return digits if n == 0 else digits[:-n] + "." + digits[-n:]


CORES = ["1100", "1100.0", "800", "1000.5", "1100.25", "560"]


def freq_spelling(r, fr):
    """one of the spellings --freq accepts for the SoC frequency fr: 'f', 'f.0'/'f0' (trailing zeros), 'f:core',
    and (rarely) leading zero / exponent form"""
    s = dec_str(fr)
    m = r.random()
    if m < 0.3:
        s = s + ("0" if "." in s else r.choice([".0", ".", ".00"]))
    elif m < 0.36:
        s = "0" + s
    elif m < 0.42:
        s = dec_str(Fraction(fr) / 100) + "e2"
    if r.random() < 0.5:
        s += ":" + r.choice(CORES)
    assert spec_freq(s) == fr, (s, fr)
    return s


# ---------------------------------------------------------------- Coq encoding
def coq_tsv(t):
    if t[0] == "n":
        return f"(TNum {enc.Z(t[1])})"
    if t[0] == "m":
        return "TMissing"
    return "TBad"


def coq_ev(e):
    tsx = list(e["tsx"]) + [["m"]] * (5 - len(e["tsx"]))
    return (f"(mkev {enc.B(e['ph'] == 'X')} {enc.B(e['args'])} {enc.S(e['name'])} {enc.Q(e['ts'])} {enc.Q(e['dur'])} "
            f"{enc.L([coq_tsv(t) for t in tsx])} None None None)")


def coq_stage(case):
    return enc.P(enc.N(case.get("mode", 0)), enc.Q(case["f"]), coq_ev(case["ev"]))


def coq_e2e(case, freq):
    return enc.P(enc.Q(freq), enc.L([enc.P(coq_ev(e), enc.B(prep_dropped(case, e))) for e in case["events"]]))


def safe_V(x):
    try:
        return enc.V(x)
    except (ValueError, TypeError, AssertionError) as ex:
        return enc.V(enc.Err("unencodable:" + type(ex).__name__))


# ---------------------------------------------------------------- oracle
def _close(a, b, exact, scale=1.0):
    """exact grid: equality of rationals.  off grid: |a-b| <= 1e-14 * scale, scale = magnitude of the operands the code
    subtracts (TS5/f, host end): a handful of double roundings, far below one cycle"""
    if exact:
        return enc.frac(a) == enc.frac(b)
    a, b = float(a), float(enc.frac(b))
    return abs(a - b) <= 1e-14 * max(1.0, abs(a), abs(b), scale)


def _which_pair(dur, cs, f):
    """which counter pair (1-based) reproduces the observed duration - for a discriminating signature"""
    scale = abs(cs[4] / float(f)) if f else 1.0
    for a in range(5):
        for b in range(a + 1, 5):
            if cs[b] != cs[a] and _close(dur, Fraction(cs[b] - cs[a]) / enc.frac(f), False, scale):
                return [a + 1, b + 1]
    return None


def expect_ok(e, f):
    """the property's no-exception domain: monotone counters, widened slice starts at >= 0, f > 0"""
    cs = counters(e)
    pp = phase_pair(e["name"])
    if cs is None or pp is None or f <= 0:
        return False
    if any(cs[i] > cs[i + 1] for i in range(4)):
        return False
    ref = 4 if pp[2] == "other" else pp[1]
    return enc.frac(e["ts"]) + enc.frac(e["dur"]) - Fraction(cs[ref] - cs[0]) / enc.frac(f) >= 0


def check_slice(e, f, ts, dur, exact, where):
    """property on one exported/returned slice; returns list of (signature, expected, observed)"""
    out = []
    if not is_device(e):
        if not (_close(ts, e["ts"], True) and _close(dur, e["dur"], True)):
            out.append(({"kind": "host_slice_changed", "where": where}, [e["ts"], e["dur"]], [ts, dur]))
        return out
    pp = phase_pair(e["name"])
    cs = counters(e)
    if pp is None or cs is None:
        return out
    a, b, label = pp
    if not (isinstance(ts, (int, float)) and isinstance(dur, (int, float)) and math.isfinite(ts) and math.isfinite(dur)):
        out.append(({"kind": "not_finite", "phase": label, "where": where}, "finite numbers", [str(ts), str(dur)]))
        return out
    want = Fraction(cs[b] - cs[a]) / enc.frac(f)
    scale = max(abs(cs[4] / float(f)), abs(e["ts"] + e["dur"]))
    if not _close(dur, want, exact, scale):
        out.append(({"kind": "duration_not_cycle_delta_over_freq", "phase": label, "where": where,
                     "observed_pair": _which_pair(dur, cs, f)},
                    {"dur": float(want), "pair": [a + 1, b + 1]}, {"dur": dur}))
    elif (cs[a] < cs[b]) != (dur > 0):
        out.append(({"kind": "duration_sign", "phase": label, "where": where}, "dur > 0 iff TSa < TSb", dur))
    end = enc.frac(e["ts"]) + enc.frac(e["dur"])
    if exact:
        ok_end = enc.frac(ts) + enc.frac(dur) == end
    else:
        ok_end = _close(ts + dur, end, False, scale)
    if not ok_end:
        out.append(({"kind": "end_moved", "phase": label, "where": where}, {"end": float(end)},
                    {"ts": ts, "dur": dur, "end": ts + dur}))
    return out


def oracle(case, obs):
    """independent statement of the property on what the implementation produced"""
    fails = []

    def fail(sig, exp, got):
        inp = {k: v for k, v in case.items() if k not in ("corpus",)}
        fails.append({"input": inp, "expected": exp, "observed": got, "signature": dict(sig, case=case.get("kind", "stage"))})

    kind = case.get("kind", "stage")
    exact = case.get("grid", True)
    if kind == "seq":
        for j, (c, o) in enumerate(zip(case["cases"], obs)):
            for x in oracle(c, o):
                fails.append({"input": {k: v for k, v in case.items() if k != "corpus"}, "expected": x["expected"],
                              "observed": x["observed"],
                              "signature": dict(x["signature"], case="seq", order_dependent=True, position=j)})
        return fails
    if kind == "stage":
        if case.get("mode", 0) != 0:
            return fails
        e, f = case["ev"], case["f"]
        o1, o2 = obs
        final = o2 if not isinstance(o1, enc.Err) else o1
        if isinstance(final, enc.Err):
            if not is_device(e) or expect_ok(e, f):
                pp = phase_pair(e["name"])
                fail({"kind": "unexpected_exception", "type": final.tag, "phase": pp[2] if pp else None,
                      "stage": 1 if isinstance(o1, enc.Err) else 2,
                      "boundary_ts0": bool(is_device(e) and expect_ok(e, f) and _starts_at_zero(e, f)),
                      "equal_counters": bool(counters(e) and len(set(counters(e))) < 5)},
                     "no exception", repr(final))
            return fails
        if not (isinstance(final, list) and len(final) == 5):
            fail({"kind": "stage_return_shape"}, "[event]", final)
            return fails
        for sig, exp, got in check_slice(e, f, final[0], final[1], exact, "stage"):
            fail(sig, exp, got)
        if not is_device(e) and (final[2] is not None or final[3] is not None):
            fail({"kind": "host_slice_changed", "where": "args"}, "no ts_all/ts_dev", final[2:4])
        return fails
    # the frequency of a run is what the spelling given to --freq denotes (exact rational from its digits)
    fqs = run_freqs(case)
    runs = [(fqs[0], obs)] if kind == "e2e" else [(fqs[0], obs[0]), (fqs[1], obs[1])]
    all_ok = all(expect_ok(e, fr) for e in case["events"] if is_device(e) for fr, _ in runs)
    fsig = {"fractional_freq": fqs[0].denominator != 1}
    for run_no, (fr, ob) in enumerate(runs):
        if isinstance(ob, enc.Err):
            if all_ok:
                fail(dict(fsig, kind="unexpected_exception", type=ob.tag, freq_is_scaled=run_no == 1),
                     "exit 0", {"error": repr(ob), "freq": case.get("spec2" if run_no else "spec")})
            return fails
        for e, slot in zip(case["events"], ob):
            if prep_dropped(case, e) and slot == "missing":
                continue
            if e["ph"] != "X":
                continue
            if not (isinstance(slot, list) and len(slot) == 2 and not isinstance(slot[0], str)):
                fail({"kind": "slice_not_exported_once", "device": is_device(e)}, "one exported slice",
                     {"uid": e["uid"], "got": slot})
                continue
            for sig, exp, got in check_slice(e, fr, slot[0], slot[1], exact, "e2e"):
                fail(dict(sig, freq_is_scaled=run_no == 1, **fsig),
                     dict(exp, uid=e["uid"]) if isinstance(exp, dict) else exp, got)
    if kind == "pair" and not fails:
        k = fqs[1] / fqs[0]
        for e, s1, s2 in zip(case["events"], obs[0], obs[1]):
            if not (isinstance(s1, list) and isinstance(s2, list)):
                if s1 != s2:
                    fail({"kind": "pair_export_differs"}, s1, s2)
                continue
            t1, d1, t2, d2 = (enc.frac(x) for x in (s1[0], s1[1], s2[0], s2[1]))
            if not is_device(e):
                if (t1, d1) != (t2, d2):
                    fail({"kind": "host_slice_depends_on_freq"}, s1, s2)
                continue
            if phase_pair(e["name"]) is None:
                continue
            if not exact:
                # off the exact grid: the same statements up to a few double roundings of the operands' magnitude
                cs = counters(e)
                tol = Fraction(1, 10 ** 14) * max(1, abs(t1 + d1), abs(t2 + d2), Fraction(cs[4]) / min(fqs))
                if abs(d2 * k - d1) > tol * max(1, k):
                    fail(dict(fsig, kind="duration_not_scaled_by_1_over_k", phase=phase_pair(e["name"])[2]),
                         {"dur": float(d1 / k)}, {"dur": s2[1], "uid": e["uid"]})
                elif abs((t1 + d1) - (t2 + d2)) > tol or abs((t2 - t1) - (d1 - d2)) > 2 * tol:
                    fail(dict(fsig, kind="scaling_moved_the_end", phase=phase_pair(e["name"])[2]),
                         {"end": float(t1 + d1)}, {"end": float(t2 + d2), "uid": e["uid"]})
                continue
            if d2 * k != d1:
                fail(dict(fsig, kind="duration_not_scaled_by_1_over_k", phase=phase_pair(e["name"])[2]),
                     {"dur": float(d1 / k)}, {"dur": s2[1], "uid": e["uid"]})
            elif t1 + d1 != t2 + d2 or t2 - t1 != d1 - d2:
                fail({"kind": "scaling_moved_the_end", "phase": phase_pair(e["name"])[2]},
                     {"end": float(t1 + d1)}, {"end": float(t2 + d2), "uid": e["uid"]})
    return fails


def _starts_at_zero(e, f):
    cs = counters(e)
    pp = phase_pair(e["name"])
    end = enc.frac(e["ts"]) + enc.frac(e["dur"])
    ref = 4 if pp[2] == "other" else pp[1]
    return end - Fraction(cs[ref] - cs[0]) / enc.frac(f) == 0 or end - Fraction(cs[pp[1]] - cs[pp[0]]) / enc.frac(f) == 0


def shrink(f):
    """e2e failures: drop events while a failure of the same kind persists (stage cases are one event already)"""
    case = f["input"]
    if case.get("kind", "stage") in ("stage", "seq"):
        return f
    kind = f["signature"]["kind"]
    evs = list(case["events"])
    t0 = time.time()
    changed = True
    while changed and time.time() - t0 < 25:
        changed = False
        for k in range(len(evs)):
            c2 = dict(case, events=evs[:k] + evs[k + 1:])
            if not c2["events"]:
                continue
            fs = [x for x in oracle(c2, drive(c2)) if x["signature"]["kind"] == kind]
            if fs:
                evs, changed = c2["events"], True
                break
    c2 = dict(case, events=evs)
    fs = [x for x in oracle(c2, drive(c2)) if x["signature"]["kind"] == kind]
    return fs[0] if fs else f


# ---------------------------------------------------------------- generators
NAMES = ["k DmaI", "k Cmpt Prep", "k Cmpt Exec", "k DmaO", "DmaI", " DmaI", "k DmaI ", "kDmaI", "k Cmpt Exec DmaO",
         "k DmaO Cmpt Exec", "Cmpt Exec", "Cmpt Prep", "xCmpt Prep", "xCmpt Exec", "k Cmpt Exec x", "k cmpt exec",
         "k  Cmpt  Exec", "k Cmpt Prep Cmpt Exec", "", " ", "k Prep", "k Cmpt", "x Cmpt ExecCmpt Exec", "a DmaI DmaI",
         "RDMA Receive DmaO", "k CmptExec", "k Cmpt Exe", "Cmpt Exec ", "k_Cmpt Exec", "k Cmpt Prep ", " Cmpt Prep",
         "k DmaO0", " DmaO", "DmaO", "a DmaI b DmaO", "a DmaO b DmaI", "other dev", "AllReduce_all_reduce", "k DmaIO",
         "k Cmpt Exec Cmpt Prep", "k DmaI Cmpt Prep"]
ALPHABET = ["k", " ", "DmaI", "DmaO", "Cmpt", "Exec", "Prep", " Cmpt Exec", " Cmpt Prep", " DmaI", " DmaO", "x", "_",
            "Cmpt Exec", "Cmpt Prep"]


def rand_name(r):
    return "".join(r.choice(ALPHABET) for _ in range(r.randint(0, 5)))


def canon_name(r, ki=None):
    pre = r.choice(["k%d" % (ki if ki is not None else r.randint(0, 99)), "matmul_7 fused", "a b", "x", "add-12",
                    "xDmaI_prefetch", "pre_DmaO2"])
    if r.random() < 0.15 and "Dma" not in pre:
        return pre + r.choice([" other", "", " Cmpt", " Wait", " Dma"])
    return pre + " " + r.choice(PH)


def rand_counters(r):
    """TS1..TS5: non-decreasing, arbitrary gaps, equal counters in unused phases, epochs above 2^32, kernels that
    straddle a multiple of 2^32"""
    m = r.random()
    base = r.randint(0, 5000) if m < 0.3 else r.randint(0, W - 1) if m < 0.6 else r.randint(W, 15 * W)
    gaps = []
    for _ in range(4):
        g = r.random()
        gaps.append(0 if g < 0.3 else r.randint(1, 3) if g < 0.45 else r.randint(4, 40000) if g < 0.92
                    else r.randint(W // 8, W // 2))
    if r.random() < 0.15:       # straddle a 2^32 boundary inside a chosen phase
        j = r.randrange(4)
        tot = sum(gaps[:j])
        base = r.randint(1, 14) * W - tot - r.randint(0, max(gaps[j], 1))
        if gaps[j] == 0:
            gaps[j] = r.randint(1, 5000)
    cs = [base]
    for g in gaps:
        cs.append(cs[-1] + g)
    return cs


def grid_time(r, lo=0, hi=1 << 36):
    return r.randint(lo * 1024, hi * 1024) / 1024.0


def host_for(r, name, cs, f, slack=None):
    """host ts/dur consistent with the counters: ts at the phase start counter, dur = phase length; H >= TS span"""
    pp = phase_pair(name) or (0, 4, "other")
    a, b = pp[0], pp[1]
    span = (cs[4] - cs[0]) / f
    H = (slack if slack is not None else grid_time(r, 0, 1 << 30)) + math.ceil(span) - cs[0] / f
    return H + cs[a] / f, (cs[b] - cs[a]) / f


def gen_stage_valid(r, on_grid=True):
    f = r.choice(GRID_F if on_grid else OFF_F)
    name = canon_name(r) if r.random() < 0.85 else r.choice(NAMES)
    cs = rand_counters(r)
    pp = phase_pair(name) or (0, 4, "other")
    m = r.random()
    if on_grid and m < 0.12:
        # boundary: the widened (stage 1) or the tightened (stage 2) slice starts exactly at 0
        ref = 4 if pp[2] == "other" else pp[1]
        end = (cs[ref] - cs[0]) / f
        dur = r.choice([0.0, end, (cs[pp[1]] - cs[pp[0]]) / f, min(end, 0.25)])
        ts = end - dur
    elif on_grid and m < 0.3:
        # host-recorded ts/dur unrelated to the counters (but late enough)
        dur = grid_time(r, 0, 4096)
        ts = grid_time(r, 0, 1 << 30) + math.ceil((cs[4] - cs[0]) / f)
    elif on_grid:
        ts, dur = host_for(r, name, cs, f)
    else:
        H = r.choice([1e6, 1e7 * (1 + r.random()), 1.7e9 + r.random() * 1e6]) + 2 * (cs[4] - cs[0]) / f
        ts, dur = H + (cs[pp[0]] - cs[0]) / f, (cs[pp[1]] - cs[pp[0]]) / f
    return {"kind": "stage", "mode": 0, "f": f, "grid": on_grid,
            "ev": mk_ev(name, ts, dur, cs, fmt=r.choice(["str", "str", "int"]))}


def gen_stage_host(r):
    c = gen_stage_valid(r)
    e = c["ev"]
    k = r.random()
    if k < 0.35:
        e["tsx"] = [["m"]] * 5
    elif k < 0.55:
        e["args"] = False
    elif k < 0.8:
        e["ph"] = r.choice(["C", "i", "B", "M", "E"])
    else:
        e["tsx"][0] = ["m"]            # TS2.. present but no TS1: not a device slice for the guard
    e["ts"], e["dur"] = grid_time(r, 0, 1 << 20), grid_time(r, 0, 1 << 10)
    return c


def gen_stage_malformed(r):
    """outside the no-exception domain: error enum and assertion boundaries (tie only)"""
    c = gen_stage_valid(r)
    e, f = c["ev"], c["f"]
    c["mode"] = r.choice([0, 0, 1, 2])
    c["malformed"] = True
    k = r.random()
    if k < 0.15:
        e["tsx"][r.randrange(1, 5)] = ["m"]
    elif k < 0.3:
        e["tsx"][r.randrange(5)] = ["b", r.choice(["zz", "0x1f", "", "1e", "TS"])]
        e["fmt"] = "str"
    elif k < 0.4:
        c["f"] = r.choice([0.0, 0.0, -1024.0, -256.0])
    elif k < 0.65:
        j = r.randrange(4)              # non-monotone counters
        cs = counters(e)
        cs[j], cs[j + 1] = cs[j + 1] + r.choice([0, 1, 1, 77]), cs[j]
        e["tsx"] = [["n", x] for x in cs]
    elif k < 0.9:
        # host end just before / at / after the point where the new ts becomes negative
        cs = counters(e)
        pp = phase_pair(e["name"]) or (0, 4, "other")
        ref = 4 if pp[2] == "other" else pp[1]
        lim = r.choice([(cs[ref] - cs[0]) / f, (cs[pp[1]] - cs[pp[0]]) / f, (cs[4] - cs[0]) / f])
        end = max(0.0, lim + r.choice([-1.0, -1 / 1024, 0.0, 1 / 1024, 1.0]))
        e["dur"] = min(end, r.choice([0.0, 0.5, end]))
        e["ts"] = end - e["dur"]
    else:
        e["name"] = rand_name(r)
        c["mode"] = r.choice([1, 2])
    return c


def gen_stage_single(r):
    """one stage alone on arbitrary valid inputs (profiles may disable either stage)"""
    c = gen_stage_valid(r)
    c["mode"] = r.choice([1, 2])
    if r.random() < 0.3:
        c["ev"]["name"] = r.choice(NAMES)
    return c


# SoC frequencies with a non-zero fractional part that are exact in binary (k/2, k/4, k/8 MHz)
FRAC_F = ["562.5", "1066.5", "700.25", "281.25", "562.125", "999.75", "1100.5", "833.375", "559.875", "0.5", "12.75"]
# ... and decimal ones that no double represents (the tool itself recommends such values: "use: --freq=559.873")
DEC_F = ["559.873", "1066.67", "833.3", "1234.567", "562.5", "560.1", "999.999", "1000.001", "560", "1000"]


def gen_e2e(r, pair=True, fmode="grid"):
    """single-rank FLEX trace whose host times agree with its counters at frequency f; run with --freq f (and k*f).
    fmode 'grid': f a power of two, spelled repr(f).
    fmode 'frac': f = p/q MHz with q in {2,4,8}, p odd (non-zero fractional part), in every spelling --freq accepts; all
                  counters are multiples of p, so cycle/f, cycle/(k*f) and every host time stay on the exact grid.
    fmode 'dec':  any decimal f in every spelling; off the exact grid (oracle with exact rationals + tolerance)."""
    u = 1                                  # counters are multiples of u
    if fmode == "grid":
        f = r.choice(GRID_F)
    else:
        fq = Fraction(r.choice(FRAC_F if fmode == "frac" else DEC_F))
        f = float(fq)
        if fmode == "frac":
            u = fq.numerator
            while u % 2 == 0:
                u //= 2

    def q_(x):                             # smallest multiple of u that is >= x
        return -(-x // u) * u

    k = r.choice([2.0, 2.0, 4.0, 0.5, 0.25, 8.0])
    nk = r.randint(1, 5)
    H = grid_time(r, 1 << 12, 1 << 28)
    cur = q_(r.choice([0, r.randint(0, W - 1), r.randint(W, 4 * W)]))
    c0 = cur
    evs, uid = [], 0
    spread = r.random() < 0.5
    for ki in range(nk):
        cur += q_(r.randint(2000, 400000))
        gaps = []
        for _ in range(4):
            g = r.random()
            gaps.append(0 if g < 0.25 else q_(r.randint(600, 60000)))
        if r.random() < 0.1:
            gaps[r.randrange(4)] += q_(r.randint(W // 16, W // 4))
        gaps[2] = max(gaps[2], q_(600))    # frequency_stats divides by the Exec slice's host duration
        cs = [cur]
        for g in gaps:
            cs.append(cs[-1] + g)
        cur = cs[4]
        if r.random() < 0.15:
            names = [f"k{ki} {r.choice(['other', 'Cmpt', 'Wait', 'sync'])}"]
        else:
            # ingestion ignores X slices of duration 0: only phases with a positive own gap are written
            names = [f"k{ki} {p}" for j, p in enumerate(PH) if gaps[j] > 0 and r.random() < 0.75] or [f"k{ki} Cmpt Exec"]
        for nm in names:
            a, b, _ = phase_pair(nm)
            e = mk_ev(nm, H + (cs[a] - c0) / f, (cs[b] - cs[a]) / f, cs, fmt=r.choice(["str", "hex"]), uid=uid,
                      tid=(10 + a + (4 if b == 4 and a == 0 else 0)) if spread else 7)
            evs.append(e)
            uid += 1
        if r.random() < 0.5:
            evs.append(mk_ev(f"launch {ki}", H + (cs[0] - c0) / f - grid_time(r, 0, 2), grid_time(r, 0, 3) + 1 / 1024,
                             None, uid=uid, tid=3))
            uid += 1
    # widened slices must start at >= 0 for both frequencies
    need = max([(e_cs[4] - e_cs[0]) / (f * min(1.0, k)) for e_cs in [counters(e) for e in evs] if e_cs] + [0.0])
    if H < need + 1:
        shift = math.ceil(need) + 1
        for e in evs:
            e["ts"] += shift
    evs.sort(key=lambda e: (e["ts"], -e["dur"]))
    if r.random() < 0.2:
        r.shuffle(evs)
    case = {"kind": "pair" if pair else "e2e", "freq": f, "k": k, "pid": r.choice([0, 0, 1, 5]), "events": evs,
            "opts": r.choice([[], ["--keep_prep"], ["--keep_prep", "-M"], ["-t"], ["--keep_prep", "--keep_names"],
                              ["--disable_tb", "--keep_prep"], ["--drop_globals", "--keep_prep"], ["--drop_globals"]])}
    if "--keep_prep" in case["opts"] and r.random() < 0.3:
        case["torch_form"] = True       # prep slices are only removed for FLEX input: object form with --keep_prep only
    if fmode != "grid":
        case["fmode"] = fmode
        case["grid"] = fmode == "frac"
        case["spec"] = freq_spelling(r, fq)
        case["spec2"] = freq_spelling(r, fq * Fraction(k))
    return case


def multi_rank_durations(ctx, n):
    """the duration clause in MULTI-rank traces (clock alignment active): shared scenario generator + chain all-reduce
    groups, Acelyzer end to end, every exported device slice must have dur = (TSb - TSa)/f of its phase (exact: power-of-two
    frequencies, times on the grid).  Oracle only."""
    from fractions import Fraction
    from common import scenario, collectives, e2e as e2e_drv
    import random
    r = random.Random(ctx.seed * 7919 + 6)
    fails, checked = [], 0
    work = tempfile.mkdtemp(prefix="c06m_", dir=ctx.work)
    try:
        for k in range(n):
            s = scenario.gen_scenario(r, ranks=r.choice([2, 3, 4]), zero_dur=False)
            collectives.add_chain_allreduce(r, s, n_groups=r.choice([1, 2]))
            inp = scenario.write(s, os.path.join(work, f"m{k}", "in"))
            out = os.path.join(work, f"m{k}", "o.json")
            opts = r.choice([[], ["--keep_prep"], ["--flow"]])
            res = e2e_drv.run_inproc(["-i", inp, "-o", out, "--freq", f"{s.freq}:1100.0", "-D", "0"] + opts, out)
            if not res.ok() or res.events is None:
                continue            # exit codes are C02's business
            pair = {"DmaI": (0, 1), "Cmpt Prep": (1, 2), "Cmpt Exec": (2, 3), "DmaO": (3, 4), "other": (0, 4)}
            for x in res.events:
                u = e2e_drv.uid_of(x)
                t = s.truth.get(u)
                if x.get("ph") != "X" or t is None or not t.get("device") or "true_ts" not in t:
                    continue
                ph = next((q for q in ("DmaI", "Cmpt Prep", "Cmpt Exec", "DmaO") if t["name"].endswith(" " + q)), "other")
                a, b = pair[ph]
                want = Fraction(t["true_ts"][b] - t["true_ts"][a]) / Fraction(int(s.freq))
                checked += 1
                if Fraction(x["dur"]) != want and len(fails) < 3:
                    fails.append({"input": {"kind": "multi_rank", "freq": s.freq, "files": s.files, "opts": opts},
                                  "expected": {"uid": u, "name": t["name"], "dur": float(want)},
                                  "observed": {"dur": x["dur"], "ts": x["ts"]},
                                  "signature": {"kind": "duration_not_cycle_delta_over_freq", "where": "multi_rank_e2e",
                                                "phase": ph, "ranks": s.ranks}})
    finally:
        shutil.rmtree(work, ignore_errors=True)
    return fails, checked


def names_tie(r, n):
    names = list(NAMES) + [f"p{j} {kw}" for j, kw in enumerate(PH)]
    for _ in range(n):
        names.append(rand_name(r))
    cases = [(enc.S(nm), safe_V(drive_names(nm))) for nm in names]
    bad, _, secs = coqrun.run_cases("C06_names", COQ_IMPORTS, "string", "names_val", cases)
    return names, bad, secs


def load_corpus():
    d = os.path.join(coqrun.VERIF, "corpus", "C06")
    out = []
    for p in sorted(glob.glob(os.path.join(d, "*.json"))):
        doc = json.load(open(p))
        for i, c in enumerate(doc["cases"]):
            c["corpus"] = f"{os.path.basename(p)}#{i}"
            out.append(c)
    return out


def case_key(case):
    c = {k: v for k, v in case.items() if k != "corpus"}
    return hashlib.sha1(json.dumps(c, sort_keys=True, default=str).encode()).hexdigest()


def positive_gap(e):
    """Appendix C rule: device slice with a positive phase gap (classification as stage 2 does it)"""
    cs = counters(e)
    if not is_device(e) or cs is None:
        return False
    ops = [k for k, kw in enumerate(PH) if (" " + kw) in e["name"]]
    a, b = (ops[0], ops[0] + 1) if ops else (0, 4)
    return cs[a] < cs[b]


# ---------------------------------------------------------------- check
def _bump(d, k):
    d[str(k)] = d.get(str(k), 0) + 1


def run(ctx):
    r = ctx.rng
    stage_cases = [c for c in load_corpus() if c.get("kind", "stage") == "stage"]
    e2e_cases = [c for c in load_corpus() if c.get("kind") in ("e2e", "pair")]
    n_corpus = len(stage_cases) + len(e2e_cases)
    for _ in range(ctx.pick(1400, 36000)):
        stage_cases.append(gen_stage_valid(r))
    for _ in range(ctx.pick(250, 5000)):
        stage_cases.append(gen_stage_host(r))
    for _ in range(ctx.pick(350, 7000)):
        stage_cases.append(gen_stage_malformed(r))
    for _ in range(ctx.pick(200, 4000)):
        stage_cases.append(gen_stage_single(r))
    off_cases = [gen_stage_valid(r, on_grid=False) for _ in range(ctx.pick(400, 8000))]
    for _ in range(ctx.pick(100, 1000)):
        e2e_cases.append(gen_e2e(r, pair=True))
    # SoC frequencies with a fractional part, in every spelling of --freq: exact (tied to the model as well) ...
    for _ in range(ctx.pick(60, 600)):
        e2e_cases.append(gen_e2e(r, pair=True, fmode="frac"))
    # ... and arbitrary decimals (oracle only: exact rationals from the spelling, tolerance of a few double roundings)
    for _ in range(ctx.pick(40, 400)):
        e2e_cases.append(gen_e2e(r, pair=True, fmode="dec"))

    oracle_failures, seen, nontriv = [], set(), 0
    dist = {"stage_mode": {}, "phase": {}, "freq": {}, "errors": {}, "name_class": {}, "e2e_opts": {}, "e2e_k": {},
            "e2e_events": {}, "e2e_freq_kind": {}, "e2e_freq_spelling": {}, "equal_counters_in_unused_phase": 0, "zero_own_gap": 0, "straddles_2^32": 0,
            "starts_at_zero": 0, "host_only": 0, "malformed": 0, "off_grid_oracle_only": len(off_cases)}

    # --- stage tie
    terms = []
    for case in stage_cases:
        obs = drive_stage(case)
        terms.append((coq_stage(case), safe_V(obs)))
        for x in oracle(case, obs)[:2]:
            x["_idx"] = len(terms) - 1
            oracle_failures.append(x)
        e = case["ev"]
        key = case_key(case)
        if key not in seen:
            seen.add(key)
            nontriv += positive_gap(e)
        _bump(dist["stage_mode"], case.get("mode", 0))
        _bump(dist["freq"], case["f"])
        pp = phase_pair(e["name"])
        _bump(dist["name_class"], "outside-domain" if pp is None else "canonical")
        if pp:
            _bump(dist["phase"], pp[2])
        cs = counters(e)
        if not is_device(e):
            dist["host_only"] += 1
        elif cs and pp:
            a, b = pp[0], pp[1]
            dist["equal_counters_in_unused_phase"] += any(cs[i] == cs[i + 1] for i in range(4) if not (a <= i < b))
            dist["zero_own_gap"] += cs[a] == cs[b]
            dist["straddles_2^32"] += cs[0] // W != cs[4] // W
            if expect_ok(e, case["f"]) and _starts_at_zero(e, case["f"]):
                dist["starts_at_zero"] += 1
        dist["malformed"] += bool(case.get("malformed"))
        flat = obs if case.get("mode", 0) else (obs[1] if not isinstance(obs[0], enc.Err) else obs[0])
        if isinstance(flat, enc.Err):
            _bump(dist["errors"], flat.tag)
    bad, extras, secs = coqrun.run_cases(
        "C06", COQ_IMPORTS, "(nat * Q * ev)", "stage_val", terms,
        extra="Definition nt := Eval vm_compute in (count_if (fun c => nontrivial (fst c)) cases).\nPrint nt.")
    mism = [{"name": "correspondence Timesync.stage_val vs cycle_count_to_wallclock / tighten_hts_by_instr_type",
             "case": stage_cases[j], "impl": terms[j][1][:600]} for j in bad[:5]]
    ties = [{"name": "Timesync.stage_val = cycle_count_to_wallclock ; tighten_hts_by_instr_type (direct)",
             "cases": len(terms), "mismatching": len(bad), "coq_seconds": round(secs, 1)}]

    # --- off-grid stream: oracle only
    for case in off_cases:
        oracle_failures += oracle(case, drive_stage(case))[:1]

    # --- names tie
    names, nbad, nsecs = names_tie(r, ctx.pick(400, 6000))
    mism += [{"name": "correspondence Timesync.names_val vs _match_opIds_from_event / get_opIds_from_event / "
                      "FlexEventMapToTS / _convert_cycle_timestamps reference index",
              "case": {"name": names[j]}, "impl": repr(drive_names(names[j]))} for j in nbad[:5]]
    ties.append({"name": "Timesync.names_val = keyword tables of both stages and FlexEventMapToTS", "cases": len(names),
                 "mismatching": len(nbad), "coq_seconds": round(nsecs, 1)})

    # --- end-to-end tie (pairs of runs with f and k*f)
    eterms, emeta = [], []
    t0 = time.time()
    for case in e2e_cases:
        obs = drive(case, ctx.work)
        fqs = run_freqs(case)
        if not case.get("grid", True):
            dist["e2e_off_grid_oracle_only"] = dist.get("e2e_off_grid_oracle_only", 0) + 1
        elif case["kind"] == "pair":
            eterms.append((coq_e2e(case, fqs[0]), safe_V(obs[0])))
            eterms.append((coq_e2e(case, fqs[1]), safe_V(obs[1])))
            emeta += [case, case]
        else:
            eterms.append((coq_e2e(case, fqs[0]), safe_V(obs)))
            emeta.append(case)
        _bump(dist["e2e_freq_kind"], case.get("fmode", "grid") + ("/fractional" if fqs[0].denominator != 1 else "/integer"))
        for sp in (case.get("spec"), case.get("spec2")):
            if sp:
                _bump(dist["e2e_freq_spelling"], ("f:core" if ":" in sp else "f") + ("/exp" if "e" in sp else "")
                      + ("/fraction" if spec_freq(sp).denominator != 1 else "/integer-valued"))
        oracle_failures += oracle(case, obs)[:2]
        key = case_key(case)
        if key not in seen:
            seen.add(key)
            nontriv += sum(positive_gap(e) for e in case["events"])
        _bump(dist["e2e_opts"], " ".join(case.get("opts", [])) or "default")
        _bump(dist["e2e_k"], case.get("k", 1))
        _bump(dist["e2e_events"], len(case["events"]))
    t_e2e = time.time() - t0
    ebad, _, esecs = coqrun.run_cases("C06_e2e", COQ_IMPORTS, "(Q * list (ev * bool))", "e2e_val", eterms, shard=100)
    mism += [{"name": "correspondence Timesync.e2e_val vs Acelyzer end to end (--freq f / k*f)",
              "case": emeta[j], "impl": eterms[j][1][:600]} for j in ebad[:5]]
    ties.append({"name": "Timesync.e2e_val = Acelyzer end to end, single rank, runs with --freq f and k*f",
                 "cases": len(eterms), "mismatching": len(ebad), "coq_seconds": round(esecs, 1),
                 "impl_seconds": round(t_e2e, 1)})

    # distinct failures by signature, shrunk
    uniq, sigs = [], set()
    for f in oracle_failures:
        s = json.dumps(f["signature"], sort_keys=True)
        if s not in sigs:
            sigs.add(s)
            uniq.append(f)
    uniq.sort(key=lambda f: 0 if f["input"].get("kind", "stage") == "stage" else 1)
    oracle_failures = confirm([shrink(f) for f in uniq[:3]], stage_cases, ctx)
    mr_fails, mr_checked = multi_rank_durations(ctx, ctx.pick(14, 150))
    oracle_failures += mr_fails[:1]
    dist["multi_rank_device_slices_checked"] = mr_checked

    return {
        "evaluations": len(terms) + len(off_cases) + len(names) + len(eterms),
        "distinct_nontrivial": nontriv,
        "rule": "distinct cases; non-trivial = device slices (X, args.TS1 present, five integer counters) whose phase "
                "pair has a positive gap TSa < TSb (stage cases: one slice each; e2e: every such slice of the trace). "
                f"Same rule evaluated inside Coq over the stage cases incl. duplicates: {extras.get('nt')}. Streams: "
                f"corpus {n_corpus}; stage valid/host-only/malformed/single-stage on the exact grid; "
                f"{len(off_cases)} off-grid slices oracle-only; {len(names)} names; "
                f"{len(e2e_cases)} end-to-end scenarios run twice (f, k*f)",
        "samples": [_clean_case(stage_cases[j]) for j in (n_corpus, len(stage_cases) - 1)] + [_clean_case(e2e_cases[-1])],
        "mismatches": mism, "oracle_failures": oracle_failures, "ties": ties, "distribution": dist,
        "traces_validated_against_impl": len(terms) + len(eterms) + len(names),
    }


def fresh_fails(case, ctx):
    """does the oracle still fail on this input in a FRESH interpreter (what --replay will do)?"""
    import subprocess
    import sys
    fd, tmp = tempfile.mkstemp(prefix="c06_replay_", suffix=".json", dir=ctx.work)
    try:
        with os.fdopen(fd, "w") as fh:
            json.dump({"failing": {"input": _clean_case(case)}}, fh, default=str)
        chk = os.path.join(coqrun.VERIF, "harness", "check.py")
        r = subprocess.run([sys.executable, chk, ID, "--replay", tmp], stdout=subprocess.PIPE, stderr=subprocess.STDOUT,
                           env=dict(os.environ, PYTHONHASHSEED="0"), timeout=120)
        return r.returncode == 1
    except Exception:  # noqa: BLE001
        return True
    finally:
        with contextlib.suppress(OSError):
            os.remove(tmp)


def confirm(fails, stage_cases, ctx):
    """A failing input must fail on its own in a fresh process.  A stage failure that does not (module-level state left
    over from earlier events) is replaced by the shortest suffix of the preceding stage cases that does."""
    good, weak = [], []
    for f in fails:
        if fresh_fails(f["input"], ctx):
            good.append(_clean(f))
            continue
        j = f.get("_idx")
        found = None
        if j is not None:
            for n in (2, 3, 5, 9, 17, 33, 65):
                seq = {"kind": "seq", "cases": [_clean_case(c) for c in stage_cases[max(0, j - n + 1): j + 1]]}
                if fresh_fails(seq, ctx):
                    fs = oracle(seq, drive(seq))
                    found = fs[-1] if fs else {"input": seq, "expected": f["expected"], "observed": f["observed"],
                                               "signature": dict(f["signature"], case="seq", order_dependent=True)}
                    break
        if found:
            good.append(_clean(found))
        else:
            f = dict(f, signature=dict(f["signature"], not_reproducible_in_fresh_process=True))
            weak.append(_clean(f))
    return good + weak


def _clean_case(c):
    return {k: v for k, v in c.items() if k != "corpus"}


def _clean(f):
    f = {k: v for k, v in f.items() if k != "_idx"}
    f["input"] = _clean_case(f["input"])
    f["observed"] = json.loads(json.dumps(f["observed"], default=str))
    f["expected"] = json.loads(json.dumps(f["expected"], default=str))
    return f


def search(ctx, res, broken):
    """something broke but the run's oracle was silent: oracle on a fresh, larger stream (time-bounded)"""
    r = random.Random(ctx.seed + 7919)
    t0 = time.time()
    budget = ctx.pick(60, 600)
    n = 0
    hist, weak = [], []
    while time.time() - t0 < budget and n < ctx.pick(40000, 400000):
        n += 1
        m = r.random()
        case = gen_stage_valid(r) if m < 0.8 else gen_stage_host(r) if m < 0.9 else gen_stage_valid(r, on_grid=False)
        hist.append(case)
        fs = oracle(case, drive_stage(case))
        if fs:
            got = confirm([dict(fs[0], _idx=len(hist) - 1)], hist, ctx)
            if not got[0]["signature"].get("not_reproducible_in_fresh_process"):
                return got
            weak = weak or got
            if len(weak) > 3:
                break
    while time.time() - t0 < budget * 1.5:
        case = gen_e2e(r, fmode=r.choice(["grid", "frac", "dec"]))
        fs = oracle(case, drive(case, ctx.work))
        if fs:
            return confirm([shrink(fs[0])], [], ctx)
    return weak[:1]


def replay(ctx, payload):
    f = payload.get("failing")
    if not f:
        return True, "replay file names only broken obligations: " + str(payload.get("broken"))[:500]
    case = f["input"]
    obs = drive(case, ctx.work)
    fs = oracle(case, obs)
    return (not fs), {"observed": json.loads(json.dumps(obs, default=repr)),
                      "oracle": [{"signature": x["signature"], "expected": x["expected"], "observed": x["observed"]}
                                 for x in fs[:3]]}
