"""C07 — multi-AIU clock alignment is a rigid per-rank shift, blind to counter epochs.

Ties (the REAL code vs MpSync.v evaluated by vm_compute inside coqc, exact rationals on the exact grid):
  * direct: mp_sync_tight_v1 on every event of a generated list with one MpSyncTightContext, then its drain();
            observed: TP_tree_reduce, dts_shifts, dts_2_hts_ref_offset and for every drained event
            (uid, ts, dur, args.ts_dev, args.ts_all) in drain order, or the exception (SystemExit/KeyError/
            IndexError) of the malformed stream                                       -> MpSync.run_val
  * e2e:    Acelyzer(argv).run() in process on generated multi-rank chain-allreduce FLEX scenarios (one file per
            rank); the events that enter the registered mp_sync_tight_v1 stage and what its drain returns are
            recorded by wrapping the callback at register_stage time (no source change)  -> MpSync.run_val
  * names:  "AllReduce" in g, "AllReduce_all_reduce" in name, get_opIds_from_event      -> MpSync.names_val
Oracle (written from the property text, independent of the model):
  rigid      every device slice (args has TS5) of rank r sits at ts = ts_dev[phase start] + off_r with ONE off_r per
             rank; dur unchanged; slices without TS5 unchanged;
  noop       fewer than two ranks with collectives or no collective group of rank 0: nothing changes but the order;
  perm       the drain returns every buffered event exactly once, sorted by ts;
  epoch      (relational) adding a per-rank constant to all device times / cycle counters of a rank does not change
             any exported ts/dur (chain-allreduce class: rank 0's collective names carry the group name);
  aligned    on the common timeline no last-receive of rank 1 ends before rank 0's last send of the same group, with
             equality for one group, and ranks >= 2 end their last receive of the first group with rank 1;
  end to end the same on the exported file (device slices identified by args.uid, phase start = exported args.TSa /
             --freq), runs with and without -M for dur / host-only slices / single-rank and collective-free traces.
"""
import contextlib
import copy
import glob
import io
import json
import os
import random
import shutil
import tempfile
import time
import zlib
from fractions import Fraction

from common import coqrun, enc

ID = "C07"
PROP_FILE = "props/C07.v"
MODEL_TARGETS = ["theories/MpSync.vo"]
THEOREMS = ["C07_rigid", "C07_rigid_counters", "C07_noop", "C07_noop_single_rank", "C07_noop_collective_free",
            "C07_perm", "C07_epoch_blind", "C07_aligned", "C07_chain_branch_instance"]
ALLOWED_AXIOMS = []
MANIFEST = {
    "text": "Proof. Coq theorems over an executable model (MpSync.v) of the mp_sync_tight_v1 stage: gathering of all "
            "events, queues per (pid, CollGroup), AllGather removal, chain/tree detection, _sync_mb_recv, "
            "sync_last_send_recv (first-minimum argmin, last-maximum reference event), _calib_dev_ts, "
            "mp_alter_event_ts and the drain (reverse buffer, stable sort by ts), every exception as an explicit "
            "Err. For ALL event streams (any number of ranks, groups, events, any rational times): C07_rigid - when "
            "the stage returns, there is one offset per pid such that every event carrying TS5 gets "
            "ts = ts_dev[phase start] + off(pid), ts_dev/ts_all shifted accordingly, dur and all other fields kept, "
            "events without TS5 returned unchanged, output = stable ts-sort of the reversed buffer "
            "(C07_rigid_counters: with ts_dev = counters/f this is TSa/f + off); C07_noop (+ single-rank and "
            "collective-free corollaries) - fewer than two pids with collectives or no group of pid 0: only the "
            "re-sort; C07_perm - the drain returns a permutation of the buffered events, sorted by ts; "
            "C07_epoch_blind - in BOTH branches of the calibration (P_map identity when rank 0's events of the first "
            "group carry 'AllReduce_all_reduce' in their names, reversed otherwise) and for any number of ranks, adding "
            "an arbitrary constant c(pid) to all device times "
            "of every pid leaves uid, ts, dur and ts_all of every drained event unchanged (pointwise Qeq, same "
            "order); C07_aligned - after calibration no last receive (TS2) of rank 1 ends before the last send (TS5) "
            "of rank 0 in any used group, with equality for the reference group, and every further rank ends its last "
            "receive of the first used group together with rank 1; C07_chain_branch_instance - the three-rank reversed-"
            "branch input that refuted epoch blindness before the /repo fix 'C07' (reference offset ignored rank 0's "
            "own shift) now exports the same timeline. The model is tied to the code on every run by "
            "direct drive of MpSyncTightContext (incl. its internal dts_shifts / reference offset) and end to end "
            "through Acelyzer on multi-rank chain-allreduce scenarios, where the stage's input and output streams are "
            "recorded and replayed in the model.",
    "note": "Print Assumptions: closed under the global context for every theorem. Trusted: Coq kernel + vm_compute; "
            "the hand-written model is tied by differential testing only, on the exact grid (f a power of two, host "
            "times multiples of 2^-11) where every double operation of the code is exact; IEEE rounding is not "
            "modelled. The conversion counters -> ts_dev (TSk/f) and the 32-bit wrap correction upstream are C06/C05; "
            "here they enter through the recorded stage input and through the end-to-end oracle only. Quirk kept in "
            "the model: _sync_mb_recv computes the mean-square error without an axis (a scalar), so the receivers "
            "are always aligned on the FIRST used group. The epoch theorem needs pids >= 0 on TS5 events (negative "
            "pids wrap around in dts_shifts[pid]).",
    "technique": "Coq proof (induction over event lists, Q arithmetic) + vm_compute correspondence against the real "
                 "MpSyncTightContext and the real pipeline end to end",
    "design_ref": "DESIGN.md section 4/C07",
}
TRUSTED = [
    "modelled, not verified: IEEE double rounding (tie on the exact grid only); numpy array/mean/argmin semantics "
    "(np.argmin = first minimum; ndarray.mean() without axis is a scalar); Python list.sort stability; "
    "copy.deepcopy; hash((pid, group)) collision-free on the pids/groups in use",
    "substring tests on names ('AllReduce' in g, 'AllReduce_all_reduce' in name, phase keywords) are re-implemented "
    "in MpSync.v and tied by the names correspondence",
    "end-to-end recording wraps the registered callback and the context's drain (instance attribute) without "
    "changing their behaviour",
]
ASSUMPTIONS = [
    "events reaching the stage carry args.ts_dev = [TS1..TS5]/soc_frequency (tighten_hts_by_instr_type, C06) with "
    "wrap-corrected counters (C05)",
    "epoch blindness: device slices have pids 0..N-1 (non-negative; Python list indexing wraps for negative pids)",
    "a FLEX file is one rank; ranks are numbered 0..N-1",
]

GRID = 2048
TID_PREP, TID_EXEC, TID_DMAO, TID_DMAI, TID_OTHER = (15514734831341844875, 2009867741857745393,
                                                      3789868786995959152, 14212308887215440790, 7777000111222333444)
KW = [" DmaI", " Cmpt Prep", " Cmpt Exec", " DmaO"]
W = 1 << 32


def _quiet():
    return contextlib.redirect_stdout(io.StringIO()), contextlib.redirect_stderr(io.StringIO())


def fr(x):
    return enc.frac(x)


# ================================================================= direct drive of the real context
def to_dict(e):
    d = {"ph": e["ph"], "pid": e["pid"], "tid": e.get("tid", 0), "name": e["name"], "ts": e["ts"], "dur": e["dur"],
         "uid": e["uid"]}
    a = e.get("args")
    if a is not None:
        ad = {}
        if a.get("cg") is not None:
            ad["CollGroup"] = a["cg"]
        if a.get("ts5"):
            ad["TS5"] = "0"
        if a.get("dev") is not None:
            ad["ts_dev"] = list(a["dev"])
        if a.get("all") is not None:
            ad["ts_all"] = list(a["all"])
        d["args"] = ad
    return d


def project(d):
    a = d.get("args")
    u = d.get("uid")
    if u is None and isinstance(a, dict):
        u = a.get("uid")
    if isinstance(u, str):
        u = int(u[1:]) if u[1:].isdigit() else -1
    if u is None:
        u = -1
    dev = [float(x) for x in a["ts_dev"]] if isinstance(a, dict) and "ts_dev" in a else None
    al = [float(x) for x in a["ts_all"]] if isinstance(a, dict) and "ts_all" in a else None
    return [int(u), float(d["ts"]), float(d["dur"]) if "dur" in d else 0.0, dev, al]


def observe_ctx(ctx, was_active):
    if not was_active:
        return None
    return [bool(ctx.TP_tree_reduce), [float(x) for x in ctx.dts_shifts], float(ctx.dts_2_hts_ref_offset)]


def drive_direct(events):
    """the REAL stage: callback on every event, then drain.  Returns [calib|None, [projection...]] or enc.Err."""
    from aiu_trace_analyzer.pipeline.mp_sync_tight import MpSyncTightContext, mp_sync_tight_v1
    import aiu_trace_analyzer.logger as aiulog
    aiulog.setloglevel(0)
    o, e_ = _quiet()
    with o, e_:
        try:
            ctx = MpSyncTightContext()
            for e in events:
                r = mp_sync_tight_v1(to_dict(e), ctx)
                if r != []:
                    return enc.Err("callback-returned-events")
            was_active = len(ctx.proc_ids) > 1 and len(ctx.coll_groups) > 0
            out = ctx.drain()
            return [observe_ctx(ctx, was_active), [project(d) for d in out]]
        except SystemExit:
            return enc.Err("SystemExit")
        except Exception as ex:  # noqa: BLE001
            return enc.Err(type(ex).__name__)


# ================================================================= Coq encoding
# Elaborating large literal terms dominates the cost of a cases file, so every number is written as ONE primitive
# integer: times as signed multiples of 2^-11 (c7q), ids as signed integers (c7z); an event / an observed slice is a
# single application of a constructor-like helper to such integers (X5/X0/XN, O5/O0).  Values off the grid or
# beyond 2^62 fall back to explicit Qmake / Z literals.
COQ_IMPORTS = """From Coq Require Import Uint63 Sint63.
From AiuModel Require Import MpSync.
Definition c7z (n : int) : Z := Sint63.to_Z n.
Definition c7q (n : int) : Q := Qmake (Sint63.to_Z n) 2048.
Definition c7l (a b c d e : int) : list Q := [c7q a; c7q b; c7q c; c7q d; c7q e].
Definition X5 (uid : int) (ph : bool) (pid : int) (name : string) (ts dur : int) (cg : option string) (ts5 : bool)
  (d1 d2 d3 d4 d5 a1 a2 a3 a4 a5 : int) : ev :=
  mkev (c7z uid) ph (c7z pid) name (c7q ts) (c7q dur)
       (Some (mkargs cg ts5 (Some (c7l d1 d2 d3 d4 d5)) (Some (c7l a1 a2 a3 a4 a5)))).
Definition X0 (uid : int) (ph : bool) (pid : int) (name : string) (ts dur : int) (cg : option string) (ts5 : bool) : ev :=
  mkev (c7z uid) ph (c7z pid) name (c7q ts) (c7q dur) (Some (mkargs cg ts5 None None)).
Definition XN (uid : int) (ph : bool) (pid : int) (name : string) (ts dur : int) : ev :=
  mkev (c7z uid) ph (c7z pid) name (c7q ts) (c7q dur) None.
Definition O5 (uid ts dur d1 d2 d3 d4 d5 a1 a2 a3 a4 a5 : int) : val :=
  VL [VZ (c7z uid); VQ (c7q ts); VQ (c7q dur); VLq (c7l d1 d2 d3 d4 d5); VLq (c7l a1 a2 a3 a4 a5)].
Definition O0 (uid ts dur : int) : val := VL [VZ (c7z uid); VQ (c7q ts); VQ (c7q dur); VN; VN].
Local Open Scope sint63_scope."""
LIM = 1 << 62


def si(n):
    """signed integer below 2^62 in absolute value as a primitive (sint63) literal"""
    n = int(n)
    assert -LIM < n < LIM
    return str(n) if n >= 0 else f"({n})"


def grid_num(x):
    """x as a multiple of 2^-11 (None when off the grid or too large)"""
    f = fr(x) * GRID
    if f.denominator != 1 or not (-LIM < f.numerator < LIM):
        return None
    return f.numerator


def zt(n):
    n = int(n)
    if -LIM < n < LIM:
        return f"(c7z {si(n)})"
    return enc.Z(n)


def qt(x):
    g = grid_num(x)
    if g is not None:
        return f"(c7q {si(g)})"
    f = fr(x)
    return f"(Qmake {enc.Z(f.numerator)} {f.denominator}%positive)"


def _grid5(l):
    if l is None or len(l) != 5:
        return None
    g = [grid_num(x) for x in l]
    return None if any(x is None for x in g) else g


def vt_slice(p):
    """[uid, ts, dur, dev|None, all|None] -> val term"""
    u, ts, dur, dev, al = p
    gt, gd = grid_num(ts), grid_num(dur)
    if gt is not None and gd is not None and -LIM < u < LIM:
        if dev is None and al is None:
            return f"(O0 {si(u)} {si(gt)} {si(gd)})"
        g1, g2 = _grid5(dev), _grid5(al)
        if g1 is not None and g2 is not None:
            return f"(O5 {si(u)} {si(gt)} {si(gd)} " + " ".join(si(x) for x in g1 + g2) + ")"
    return vt(list(p))


def vt_result(out):
    """[calib|None, [slice...]] or Err -> val term"""
    if isinstance(out, enc.Err):
        return vt(out)
    return f"(VL [{vt(out[0])}; VL {enc.L([vt_slice(p) for p in out[1]])}])"


def vt(x):
    if isinstance(x, enc.Err):
        return f"(VE {enc.S(x.tag)})"
    if x is None:
        return "VN"
    if isinstance(x, bool):
        return f"(VB {enc.B(x)})"
    if isinstance(x, int):
        return f"(VZ {zt(x)})"
    if isinstance(x, (float, Fraction)):
        return f"(VQ {qt(x)})"
    if isinstance(x, str):
        return f"(VS {enc.S(x)})"
    if isinstance(x, (list, tuple)):
        return f"(VL {enc.L([vt(i) for i in x])})"
    raise TypeError(type(x))


class NameTable:
    def __init__(self):
        self.ids = {}

    def ref(self, name):
        if name not in self.ids:
            self.ids[name] = f"c7n{len(self.ids)}"
        return self.ids[name]

    def prelude(self):
        return "\n".join(f"Definition {v} := {enc.S(k)}." for k, v in self.ids.items())


def coq_oql(l):
    return "None" if l is None else "(Some " + enc.L([qt(x) for x in l]) + ")"


def coq_ev(e, tab):
    a = e.get("args")
    gt, gd = grid_num(e["ts"]), grid_num(e["dur"])
    ph = enc.B(e["ph"] in ("X", "b"))
    if gt is not None and gd is not None and -LIM < e["uid"] < LIM and -LIM < e["pid"] < LIM:
        head = f"{si(e['uid'])} {ph} {si(e['pid'])} {tab.ref(e['name'])} {si(gt)} {si(gd)}"
        if a is None:
            return f"(XN {head})"
        cg = "None" if a.get("cg") is None else f"(Some {tab.ref(a['cg'])})"
        if a.get("dev") is None and a.get("all") is None:
            return f"(X0 {head} {cg} {enc.B(a.get('ts5'))})"
        g1, g2 = _grid5(a.get("dev")), _grid5(a.get("all"))
        if g1 is not None and g2 is not None:
            return f"(X5 {head} {cg} {enc.B(a.get('ts5'))} " + " ".join(si(x) for x in g1 + g2) + ")"
    if a is None:
        at = "None"
    else:
        cg = "None" if a.get("cg") is None else f"(Some {tab.ref(a['cg'])})"
        at = f"(Some (mkargs {cg} {enc.B(a.get('ts5'))} {coq_oql(a.get('dev'))} {coq_oql(a.get('all'))}))"
    return (f"(mkev {zt(e['uid'])} {ph} {zt(e['pid'])} {tab.ref(e['name'])} "
            f"{qt(e['ts'])} {qt(e['dur'])} {at})")


def coq_events(events, tab):
    return enc.L([coq_ev(e, tab) for e in events])


# ================================================================= independent reading of a direct case
def is_coll(e):
    a = e.get("args")
    return e["ph"] in ("X", "b") and a is not None and a.get("cg") is not None


def classify(events):
    """(active, used groups in rank-0 order, tree, ranks) by the property text"""
    ranks, g0 = [], []
    for e in events:
        if is_coll(e):
            if e["pid"] not in ranks:
                ranks.append(e["pid"])
            if e["pid"] == 0 and e["args"]["cg"] not in g0:
                g0.append(e["args"]["cg"])
    active = len(ranks) > 1 and len(g0) > 0
    used = [g for g in g0 if "AllReduce" in g] or g0
    tree = bool(used) and any("AllReduce_all_reduce" in e["name"] for e in events
                              if is_coll(e) and e["pid"] == 0 and e["args"]["cg"] == used[0])
    return active, used, tree, ranks


def op_index(name):
    for k, kw in enumerate(KW):
        if kw in name:
            return k
    return 0


def has_ts5(e):
    return e.get("args") is not None and bool(e["args"].get("ts5"))


def oracle_direct(events, out, wf, rerun=True):
    """property statements evaluated on the implementation's result; returns a list of failures (dicts)."""
    fails = []

    def fail(kind, expected, observed, **sig):
        fails.append({"input": {"kind": "direct", "events": events}, "expected": expected, "observed": observed,
                      "signature": dict(kind=kind, **sig)})

    if isinstance(out, enc.Err):
        if wf:
            fail("unexpected_error", "the stage returns", repr(out), error=out.tag)
        return fails
    active, used, tree, ranks = classify(events)
    evs = out[1]
    by_uid = {e["uid"]: e for e in events}
    # ---- perm + sorted
    if sorted(x[0] for x in evs) != sorted(by_uid):
        fail("not_a_permutation", sorted(by_uid), sorted(x[0] for x in evs))
        return fails
    if any(evs[i][1] > evs[i + 1][1] for i in range(len(evs) - 1)):
        fail("not_sorted_by_ts", "non-decreasing ts", [x[1] for x in evs])
    # ---- noop
    offs = {}
    for x in evs:
        e = by_uid[x[0]]
        a = e.get("args") or {}
        if fr(x[2]) != fr(e["dur"]):
            fail("dur_changed", e["dur"], x[2], uid=x[0])
            return fails
        if not active or not has_ts5(e):
            same = fr(x[1]) == fr(e["ts"]) and x[3] == (None if a.get("dev") is None else list(map(float, a["dev"]))) \
                and x[4] == (None if a.get("all") is None else list(map(float, a["all"])))
            if not same:
                fail("noop_changed" if not active else "host_event_moved", [e["ts"], a.get("dev"), a.get("all")],
                     x[1:], uid=x[0], ranks=len(ranks))
                return fails
        else:
            off = fr(x[1]) - fr(a["dev"][op_index(e["name"])])
            offs.setdefault(e["pid"], set()).add(off)
            # ts_dev / ts_all move rigidly as well
            d0 = fr(x[3][0]) - fr(a["dev"][0])
            if any(fr(p) - fr(q) != d0 for p, q in zip(x[3], a["dev"])) or \
                    any(fr(p) - fr(q) != off for p, q in zip(x[4], a["dev"])):
                fail("ts_dev_not_rigid", "ts_dev + const, ts_all = ts_dev + off", x[3:], uid=x[0])
                return fails
    for p, s in offs.items():
        if len(s) > 1:
            fail("nonrigid_offset", "one offset per rank", sorted(map(float, s)), pid=p, ranks=len(ranks))
            return fails
    if not active:
        return fails
    off = {p: next(iter(s)) for p, s in offs.items()}
    n = len(ranks)
    # ---- aligned (tree branch; pids 0..n-1 present)
    complete = all(any(is_coll(e) and e["pid"] == p and e["args"]["cg"] == g and e["args"].get("dev") for e in events)
                   for p in range(n) for g in used)
    if tree and complete and all(p in off for p in range(n)):
        def gend(pid, g, k):
            return max(fr(e["args"]["dev"][k]) for e in events if is_coll(e) and e["pid"] == pid and e["args"]["cg"] == g)
        diffs = [gend(1, g, 1) + off[1] - (gend(0, g, 4) + off[0]) for g in used]
        if min(diffs) != 0:
            fail("not_aligned", "min over groups of (last recv TS2 of rank 1 - last send TS5 of rank 0) == 0",
                 [float(x) for x in diffs], ranks=n, what="send_recv")
            return fails
        for r in range(2, n):
            if gend(r, used[0], 1) + off[r] != gend(1, used[0], 1) + off[1]:
                fail("not_aligned", "receivers end the first group together",
                     [float(gend(q, used[0], 1) + off[q]) for q in range(1, n)], ranks=n, what="receivers", rank=r)
                return fails
    # ---- epoch blindness (relational): both branches, any number of ranks
    if rerun and all(e["pid"] >= 0 for e in events if has_ts5(e)):
        rr = random.Random(zlib.crc32(json.dumps([e["uid"] for e in events]).encode()) + len(events))
        cs = {p: Fraction(rr.choice([1, 7, -3, rr.randrange(-(1 << 24), 1 << 24), rr.randrange(1 << 30, 1 << 34)]),
                          rr.choice([1, 1, 2, 256, GRID])) for p in set(e["pid"] for e in events)}
        ev2 = bump_events(events, cs)
        out2 = drive_direct(ev2)
        v1 = [[x[0], x[1], x[2], x[4]] for x in evs]
        v2 = out2 if isinstance(out2, enc.Err) else [[x[0], x[1], x[2], x[4]] for x in out2[1]]
        if v1 != v2:
            fail("epoch_dependent", v1[:6], repr(v2)[:600] if isinstance(v2, enc.Err) else v2[:6],
                 ranks=n, tree=tree)
            fails[-1]["input"]["offsets"] = {str(p): [c.numerator, c.denominator] for p, c in cs.items()}
    return fails


def bump_events(events, cs):
    ev2 = copy.deepcopy(events)
    for e in ev2:
        a = e.get("args")
        if a is not None and a.get("dev") is not None:
            a["dev"] = [float(fr(x) + cs[e["pid"]]) for x in a["dev"]]
    return ev2


# ================================================================= generator: direct cases
def g_(x):
    """put on the 2^-11 grid"""
    return float(Fraction(int(x), GRID)) if not isinstance(x, float) else x


def gen_direct(rng, malformed=False):
    small = rng.random() < 0.55          # small integer grid: ties in maxima / minima / ts
    n = rng.choice([1, 2, 2, 2, 3, 3, 3, 4, 4, 5, 6, 8])
    ng = rng.choice([0, 1, 1, 2, 2, 3, 4])
    kinds = rng.choice([["AllReduce_all_reduce_%d"], ["AllReduce_all_reduce_%d"],
                        ["AllReduce_all_reduce_%d", "AllGather_all_gather_%d"],
                        ["AllGather_all_gather_%d"], ["Bcast_%d", "AllReduce_all_reduce_%d"]])
    groups = [rng.choice(kinds) % (k + 4) for k in range(ng)]
    if ng and rng.random() < 0.5:
        groups[0] = "AllGather_all_gather_3"      # a leading group that is removed when an AllReduce exists
    tagged = rng.random() < 0.8
    epoch = [Fraction(rng.randrange(0, 40 if small else (1 << 34)) * (GRID if small else 1), GRID) for _ in range(n)]
    hoff = [Fraction(rng.randrange(0, 30 if small else (1 << 33)) * (GRID if small else 1), GRID) for _ in range(n)]
    uid = [0]
    evs = []

    def val(lo, hi):
        return Fraction(rng.randrange(lo, hi) * GRID, GRID) if small else Fraction(rng.randrange(lo * GRID, hi * GRID), GRID)

    def dev5(base, span):
        xs = sorted(val(0, span) for _ in range(5))
        return [base + x for x in xs]

    def mk(pid, name, dev, cg=None, ts5=True, ph="X", args=True, r=None):
        uid[0] += 1
        r = pid if r is None else r
        rr = r if 0 <= r < n else 0
        k = op_index(name)
        if dev is not None:
            ts = hoff[rr] + dev[k]
            devv = [float(x + epoch[rr]) for x in dev]
            al = [float(x + hoff[rr]) for x in dev]
        else:
            ts, devv, al = hoff[rr] + val(0, 50), None, None
        e = {"uid": uid[0], "ph": ph, "pid": pid, "name": name, "ts": float(ts), "dur": float(val(0, 9)),
             "args": ({"cg": cg, "ts5": ts5, "dev": devv, "all": al} if args else None)}
        evs.append(e)
        return e

    tbase = Fraction(0)
    for gi, g in enumerate(groups):
        span = rng.choice([4, 8, 20]) if small else rng.choice([50, 4000])
        for r in range(n):
            for j in range(rng.choice([1, 1, 2, 3, 4])):
                kw = rng.choice(KW + ["", " DmaO", " DmaI"])
                tag = f" [sync={g}_s{r}]" if (tagged or r > 0 or gi > 0 and rng.random() < 0.5) else ""
                base = rng.choice(["SenRdmaSend_%d" % rng.randrange(3), "SenRdmaReceive_%d [64B]" % rng.randrange(3),
                                   g + "_Add_%d" % j if tagged or r > 0 else "Add_%d" % j])
                if not tagged and r == 0:
                    base = base.replace("AllReduce_all_reduce", "AR")
                mk(r, base + tag + kw, dev5(tbase, span), cg=g, ts5=rng.random() < 0.93,
                   ph="b" if rng.random() < 0.05 else "X")
        tbase += span + (0 if small and rng.random() < 0.3 else val(0, 9))
    # non-collective content
    for _ in range(rng.randrange(0, 8)):
        r = rng.randrange(n)
        c = rng.random()
        if c < 0.5:
            mk(r, rng.choice(["add_11", "conv", "x DmaO y DmaI", "mean"]) + rng.choice(KW + [""]),
               dev5(val(0, 30), 9))
        elif c < 0.8:
            mk(r, "HostFn_%d" % rng.randrange(4), None, ts5=False)
        elif c < 0.9:
            mk(r, "HostWithDev", dev5(val(0, 30), 9), ts5=False)
        else:
            mk(r, "process_name", None, ts5=False, ph="M", cg=rng.choice([None, "AllReduce_all_reduce_4"]))
    wf = True
    if malformed:
        wf = False
        c = rng.randrange(7)
        if c == 0 and evs:            # a rank loses one group completely -> sys.exit(1)
            cands = [(e["pid"], e["args"]["cg"]) for e in evs if is_coll(e) and e["pid"] > 0]
            if cands:
                p, g = rng.choice(cands)
                evs[:] = [e for e in evs if not (is_coll(e) and e["pid"] == p and e["args"]["cg"] == g)]
        elif c == 1:                  # device event of a rank that has no collectives (pid >= NP) / negative pid
            mk(rng.choice([n, n + 1, -1, -n, -n - 1]), "stray Cmpt Exec", dev5(val(0, 30), 9), r=0)
        elif c == 2:                  # event without args
            mk(rng.randrange(n), "noargs", None, args=False)
        elif c == 3 and evs:          # collective event without ts_dev
            cands = [e for e in evs if is_coll(e)]
            if cands:
                e = rng.choice(cands)
                e["args"]["dev"] = None
        elif c == 4 and evs:          # ranks not numbered contiguously
            gap = rng.randrange(1, n + 1)
            for e in evs:
                if e["pid"] >= gap:
                    e["pid"] += 1
        elif c == 5:                  # TS5 event without ts_dev
            mk(rng.randrange(n), "nodev Cmpt Prep", None, ts5=True)
        else:                         # rank 0 missing
            for e in evs:
                e["pid"] += 1
    order = rng.random()
    if order < 0.5:
        rng.shuffle(evs)
    elif order < 0.75:
        evs.sort(key=lambda e: e["ts"])
    if not malformed:
        # well-formedness as the property sees it: every rank 0..n-1 contributes to every used group
        active, used, tree, ranks = classify(evs)
        wf = (not active) or (sorted(ranks) == list(range(len(ranks))) and all(
            any(is_coll(e) and e["pid"] == p and e["args"]["cg"] == g and e["args"]["dev"] is not None for e in evs)
            for p in ranks for g in used) and all(0 <= e["pid"] < len(ranks) for e in evs if has_ts5(e)))
    return {"kind": "direct", "events": evs, "wf": wf}


# ================================================================= end-to-end scenarios (one FLEX file per rank)
def gen_e2e(rng, ranks=None):
    """multi-rank chain all-reduce on one global cycle time line; rank r's counter = G + epoch[r] (mod 2^32 in the
    file), its host clock = hbase[r] + G/f.  Ground truth: uid -> rank, phase index, true counters, host-only."""
    f = rng.choice([256, 512, 1024, 1024, 2048])
    n = ranks or rng.choice([1, 2, 2, 3, 3, 4, 4, 5, 6, 8])
    ng = rng.choice([0, 1, 1, 2, 2, 3]) if n > 1 else rng.choice([0, 1])
    sc = {"kind": "e2e", "freq": f, "ranks": n, "files": {}, "truth": {}, "groups": [],
          "opts": rng.choice([[], [], ["--keep_prep"], ["-t"], ["--keep_prep", "--keep_names"], ["--disable_tb"],
                              ["--drop_globals"], ["--drop_globals", "--keep_prep"], ["--flow"]])}
    if n == 1 and "--flow" in sc["opts"]:
        sc["opts"] = []       # a one-rank "collective" of this generator multicasts to nobody (Peers ""): not a flow input
    wrap = rng.random() < 0.35
    epoch = [(W * rng.randrange(0, 3) + W - rng.randrange(1, 3000000)) if wrap and rng.random() < 0.6
             else rng.randrange(1000, W // 2) for _ in range(n)]
    hb0 = rng.randrange(1 << 21, 1 << 33)
    hbase = [Fraction(hb0 * GRID + rng.randrange(-(1 << 30), 1 << 30), GRID) for _ in range(n)]
    sc["epoch"], sc["hbase"] = epoch, [[h.numerator, h.denominator] for h in hbase]
    uid = [0]
    per_rank = [[] for _ in range(n)]

    def dev_event(r, name, g5, a, b, tid, extra=None, host=False):
        uid[0] += 1
        u = f"u{uid[0]}"
        attr = {"TS%d" % (i + 1): (hex((g5[i] + epoch[r]) % W) if rng.random() < 0.3 else str((g5[i] + epoch[r]) % W))
                for i in range(5)}
        attr["Power"] = str(rng.randrange(1 << 20, 1 << 31))
        attr["uid"] = u
        attr.update(extra or {})
        t0, t1 = hbase[r] + Fraction(g5[a], f), hbase[r] + Fraction(g5[b], f)
        per_rank[r].append((t0, t1, {"name": name, "pid": r, "tid": tid, "ts": float(t0), "attr": attr}))
        sc["truth"][u] = {"rank": r, "a": a, "b": b, "g": list(g5), "device": True,
                          "cg": (extra or {}).get("CollGroup"), "name": name}
        return u

    def host_event(r, lo, hi):
        uid[0] += 1
        u = f"u{uid[0]}"
        a = hbase[r] + Fraction(rng.randrange(lo, hi + 1), f)
        d = Fraction(rng.choice([rng.randrange(1, 3000), rng.randrange(1, 200000)]), 1024)
        per_rank[r].append((a, a + d, {"name": "HostFn_%d" % rng.randrange(5), "pid": r,
                                       "tid": rng.choice([11, 12, 13]), "ts": float(a), "args": {"uid": u}}))
        sc["truth"][u] = {"rank": r, "device": False, "ts": [a.numerator, a.denominator],
                          "dur": [d.numerator, d.denominator]}

    def kernel(r, G, cg=None, name=None):
        """Prep + Exec slice of one kernel starting at global cycle G; returns its end"""
        name = name or rng.choice(["add_11", "convolution_1", "relu_3", "addmm_MatMul", "mean"])
        g1 = G
        g3 = g1 + rng.randrange(1, 5000)
        g4 = g3 + rng.randrange(1, 60000)
        g5 = [g1, g1, g3, g4, g4 + rng.choice([0, 6])]
        ex = {"CollGroup": cg} if cg else None
        dev_event(r, name + " Cmpt Prep", g5, 1, 2, TID_PREP, ex)
        dev_event(r, name + " Cmpt Exec", g5, 2, 3, TID_EXEC, ex)
        return g5[4]

    G = rng.randrange(1000, 200000)
    cursor = [G + rng.randrange(0, 5000) for _ in range(n)]       # per rank: first free global cycle
    for r in range(n):
        for _ in range(rng.randrange(0, 3)):
            cursor[r] = kernel(r, cursor[r]) + rng.randrange(1, 3000)
    seqno = 82000
    only_gather, have_ar = rng.random() < 0.08, False
    for gi in range(ng):
        gname = ("AllGather_all_gather_%d" if (rng.random() < (0.9 if only_gather else 0.25 if gi + 1 < ng or have_ar else 0.0))
                 else "AllReduce_all_reduce_%d") % (gi + 4)
        have_ar = have_ar or "AllReduce" in gname
        sc["groups"].append(gname)
        start = max(cursor) + rng.randrange(10, 4000)
        t = start
        recv_t1 = [start + rng.randrange(0, 20) for _ in range(n)]
        for i in range(n - 1):
            tag = f"[sync={gname}_s{i}_r{i + 1}_{2 * i}]"
            s4 = t + rng.randrange(1, 60)
            s5 = s4 + rng.randrange(50, 40000)
            dev_event(i, f"SenRdmaSend_{seqno + i} {tag} DmaO", [start, start, s4, s4, s5], 3, 4, TID_DMAO,
                      {"Bytes": "524288", "CollGroup": gname, "Peer": str(i + 1), "Type": "SingleCast"})
            r2 = s5 + rng.choice([0, 0, rng.randrange(0, 40)])
            dev_event(i + 1, f"SenRdmaReceive_{seqno + 10 + i} [524288B] {tag} DmaI",
                      [recv_t1[i + 1], r2, r2 + 6, r2 + 6, r2 + 9], 0, 1, TID_DMAI,
                      {"Bytes": "524288", "CollGroup": gname, "Peer": str(i), "Type": "WDone Barrier"})
            kend = kernel(i + 1, r2 + rng.randrange(10, 900), cg=gname, name=f"{gname}_Add_{2 * i + 1}")
            t = kend + rng.randrange(0, 50)
            cursor[i + 1] = r2 + 10
        last = n - 1
        tag = f"[sync={gname}_s{last}_r0x7_{2 * last}]"
        c = t + rng.randrange(1, 60)
        ex = {"CollGroup": gname, "Type": "Set BCList", "Peers": ",".join(str(x) for x in range(n - 1))}
        dev_event(last, f"SenRdmaSend_{seqno + 33} - Set BcList {tag} DmaO", [start, start, c, c, c + 40], 3, 4,
                  TID_DMAO, ex)
        c += 40 + rng.randrange(0, 30)
        for j in range(n - 1):
            L = rng.randrange(20, 300)
            dev_event(last, f"SenRdmaSend_{seqno + 33} - Xseg to rank {j} {tag} DmaO", [start, start, c, c, c + L],
                      3, 4, TID_DMAO, {"CollGroup": gname, "Type": "MultiCast XSEG", "Peer": str(j)})
            c += L + rng.randrange(0, 30)
        d5 = c + rng.randrange(50, 20000)
        dev_event(last, f"SenRdmaSend_{seqno + 33} Data {tag} DmaO", [start, start, c, c, d5], 3, 4, TID_DMAO,
                  {"Bytes": "524288", "CollGroup": gname, "Type": "MultiCast"})
        cursor[last] = d5 + 10
        for j in range(n - 1):
            r1 = cursor[j] + rng.randrange(0, 30)
            r2 = max(d5 + rng.choice([0, 0, rng.randrange(0, 60)]), r1 + 1)
            dev_event(j, f"SenRdmaReceive_{seqno + 39} [524288B] {tag} DmaI", [r1, r2, r2 + 6, r2 + 6, r2 + 9], 0, 1,
                      TID_DMAI, {"Bytes": "524288", "CollGroup": gname, "Peer": str(last), "Type": "WDone Barrier"})
            cursor[j] = r2 + 10
        seqno += 100
        for r in range(n):
            cursor[r] = max(cursor[r], d5) + rng.randrange(1, 2000)
            if rng.random() < 0.4:
                cursor[r] = kernel(r, cursor[r]) + rng.randrange(1, 3000)
    if n > 1 and ng and rng.random() < 0.15:
        # an incomplete trailing group: only rank 0 .. k take part -> alignment impossible (documented sys.exit)
        sc["incomplete"] = True
        gname = "AllReduce_all_reduce_99"
        s4 = max(cursor) + 100
        dev_event(0, f"SenRdmaSend_1 [sync={gname}_s0_r1_0] DmaO", [s4 - 50, s4 - 50, s4, s4, s4 + 500], 3, 4, TID_DMAO,
                  {"Bytes": "524288", "CollGroup": gname, "Peer": "1", "Type": "SingleCast"})
    for r in range(n):
        for _ in range(rng.randrange(0, 5)):
            host_event(r, G, max(cursor) + 3000)
        if rng.random() < 0.3:
            g1 = cursor[r] + rng.randrange(1, 500)
            dev_event(r, "memcpy-Other", [g1, g1 + 5, g1 + 9, g1 + 30, g1 + 31], 0, 4, TID_OTHER)
    for r in range(n):
        evs = sorted(per_rank[r], key=lambda x: x[0])
        out = []
        if rng.random() < 0.5:
            out.append({"ph": "M", "name": "process_name", "pid": r, "ts": 0, "args": {"name": f"rank{r}"}})
        for k, (a, b, e) in enumerate(evs):
            if (k > 0 or out) and "CollGroup" not in e.get("attr", {}) and rng.random() < 0.06:
                # a FLEX file is ONE rank: a later event that names another pid still belongs to the file's rank
                e = dict(e, pid=rng.choice([0, r + 1, 77]))
                sc["foreign_pids"] = sc.get("foreign_pids", 0) + 1
            if rng.random() < 0.5:
                ee = {"name": e["name"], "ph": "E", "pid": e["pid"], "tid": e["tid"], "ts": float(b)}
                if "attr" in e:
                    ee["attr"] = dict(e["attr"])
                out += [dict(e, ph="B"), ee]
            else:
                out.append(dict(e, ph="X", dur=float(b - a)))
        sc["files"][f"rank{r}.json"] = out
        # one rank delivered as TWO input files (two jobs on one device, the second possibly after a counter wrap): the
        # rank is one device with one counter, whatever the number of files
        cuts = [j for j in range(2, len(out) - 1) if out[j].get("ph") in ("X", "B") and out[j].get("pid") == r]
        if cuts and rng.random() < 0.35:
            j = rng.choice(cuts)
            sc["files"][f"rank{r}.json"] = out[:j]
            sc["files"][f"rank{r}.b.json"] = out[j:]
            sc["split_ranks"] = sc.get("split_ranks", 0) + 1
    return sc


def bump_e2e(sc, deltas):
    """the same scenario with rank r's cycle counters offset by deltas[r] (host clocks untouched)"""
    s2 = copy.deepcopy(sc)
    for fn, evs in s2["files"].items():
        rank = int(fn[4:].split(".")[0])          # rank<r>.json
        for e in evs:
            at = e.get("attr")
            if at:
                for k in ("TS1", "TS2", "TS3", "TS4", "TS5"):
                    if k in at:
                        v = int(at[k], 0)
                        nv = (v + deltas[rank]) % W
                        at[k] = hex(nv) if at[k].startswith("0x") else str(nv)
    s2["epoch"] = [(x + d) for x, d in zip(sc["epoch"], deltas)]
    return s2


class Captured:
    def __init__(self):
        self.inputs = []
        self.output = None
        self.calib = None
        self.stage_seen = False


def run_e2e(sc, extra=(), capture=True, workdir=None):
    """Acelyzer in process.  Returns (status, exported X slices by uid, Captured)."""
    import aiu_trace_analyzer.core.acelyzer as acel
    import aiu_trace_analyzer.core.processing as processing
    import aiu_trace_analyzer.pipeline.barrier as barrier
    cap = Captured()

    class Rec(processing.EventProcessor):
        def register_stage(self, callback, context=None, **kw):
            if callback.__name__ != "mp_sync_tight_v1" or context is None:
                return super().register_stage(callback, context, **kw)
            cap.stage_seen = True

            def wrapped(event, ctx, *a, _cb=callback):
                cap.inputs.append(copy.deepcopy(event))
                return _cb(event, ctx, *a)
            wrapped.__name__ = callback.__name__
            real_drain = context.drain

            def rec_drain():
                act = len(context.proc_ids) > 1 and len(context.coll_groups) > 0
                out = real_drain()
                cap.output = [project(d) for d in out]
                cap.calib = observe_ctx(context, act)
                return out
            context.drain = rec_drain
            return super().register_stage(wrapped, context, **kw)

    d = tempfile.mkdtemp(prefix="c07_", dir=workdir)
    saved = acel.processor.EventProcessor
    o, e_ = _quiet()
    try:
        paths, ids = [], set()
        for fn, evs in sc["files"].items():
            salt = 0
            while True:
                p = os.path.join(d, (f"s{salt}_" if salt else "") + fn)
                jid = zlib.crc32(p.encode()) % 10000
                if jid not in ids:
                    ids.add(jid)
                    break
                salt += 1
            with open(p, "w") as fh:
                json.dump(evs, fh)
            paths.append(p)
        outp = os.path.join(d, "out.json")
        argv = ["-i", ",".join(paths), "-o", outp, "--freq", repr(float(sc["freq"])), "-D", "0"] + \
            list(sc.get("opts", [])) + list(extra)
        if capture:
            acel.processor.EventProcessor = Rec
        status = "ok"
        with o, e_:
            try:
                try:
                    barrier._main_barrier_context.drain()
                except Exception:  # noqa: BLE001
                    pass
                a = acel.Acelyzer(argv)
                rc = a.run()
                del a
                if rc != 0:
                    status = "rc%s" % rc
            except SystemExit as ex:
                status = "SystemExit%s" % ex.code
            except Exception as ex:  # noqa: BLE001
                status = type(ex).__name__
        by = {}
        if status == "ok" and os.path.exists(outp):
            res = json.load(open(outp))
            for x in res["traceEvents"]:
                a = x.get("args")
                if x.get("ph") == "X" and isinstance(a, dict) and "uid" in a:
                    by.setdefault(a["uid"], []).append(x)
        return status, by, cap
    finally:
        acel.processor.EventProcessor = saved
        shutil.rmtree(d, ignore_errors=True)


def stage_case(cap):
    """the recorded stage input as a direct-format case for the model"""
    evs = []
    for d in cap.inputs:
        a = d.get("args")
        p = project(d)
        evs.append({"uid": p[0], "ph": d.get("ph"), "pid": d.get("pid"), "name": d.get("name"), "ts": p[1], "dur": p[2],
                    "args": None if not isinstance(a, dict) else
                    {"cg": a.get("CollGroup"), "ts5": "TS5" in a, "dev": p[3], "all": p[4]}})
    return evs


def e2e_class(sc):
    """(alignment expected?, used groups, tree branch?) by the scenario's construction: every collective event name of
    the generator carries its group name, so the tree branch is taken iff the first used group is an AllReduce"""
    n = sc["ranks"]
    groups = list(sc["groups"])
    if sc.get("incomplete"):
        groups.append("AllReduce_all_reduce_99")
    used = [g for g in groups if "AllReduce" in g] or groups
    return n > 1 and len(groups) > 0, used, bool(used) and "AllReduce_all_reduce" in used[0]


def oracle_e2e(sc, runs):
    """runs: dict name -> (status, by_uid, cap).  'base', 'nosync' (-M), 'bumped' (epochs offset)."""
    fails = []
    f = sc["freq"]

    def fail(kind, expected, observed, **sig):
        inp = {k: sc[k] for k in ("kind", "freq", "ranks", "files", "truth", "groups", "opts", "epoch", "hbase")}
        inp["incomplete"] = bool(sc.get("incomplete"))
        inp["deltas"] = sc.get("deltas")
        fails.append({"input": inp, "expected": expected, "observed": observed, "signature": dict(kind=kind, **sig)})

    st, by, cap = runs["base"]
    active, used, tree = e2e_class(sc)
    if sc.get("incomplete") and active:
        if st != "SystemExit1":
            fail("e2e_incomplete_group_not_refused", "SystemExit1 (documented: use -M)", st, ranks=sc["ranks"])
        return fails
    if st != "ok":
        fail("e2e_unexpected_error", "exit 0", st, ranks=sc["ranks"], status=st)
        return fails
    stn, byn, _ = runs["nosync"]
    if stn != "ok":
        fail("e2e_unexpected_error", "exit 0 with -M", stn, ranks=sc["ranks"], status=stn, run="nosync")
        return fails
    truth = sc["truth"]
    # every exported slice once; same set with and without -M
    for u, xs in by.items():
        if len(xs) != 1:
            fail("e2e_slice_exported_twice", 1, len(xs), uid=u)
            return fails
    if set(by) != set(byn):
        fail("e2e_slice_set_differs_from_nosync", sorted(byn)[:20], sorted(by)[:20], ranks=sc["ranks"],
             missing=len(set(byn) - set(by)), extra=len(set(by) - set(byn)))
        return fails
    offs = {}
    for u, (x,) in by.items():
        t = truth.get(u)
        if t is None:
            continue
        xn = byn[u][0]
        if x["args"].get("rank") != t["rank"] or (t["device"] and x["pid"] != t["rank"]):
            fail("e2e_rank_annotation", t["rank"], [x["pid"], x["args"].get("rank")], uid=u, device=t["device"])
            return fails
        if fr(x["dur"]) != fr(xn["dur"]):
            fail("e2e_dur_changed", xn["dur"], x["dur"], uid=u, device=t["device"])
            return fails
        if not t["device"] or not active:
            if fr(x["ts"]) != fr(xn["ts"]):
                fail("e2e_noop_changed" if not active else "e2e_host_event_moved", xn["ts"], x["ts"], uid=u,
                     ranks=sc["ranks"], groups=len(sc["groups"]))
                return fails
        else:
            tsa = int(x["args"]["TS%d" % (t["a"] + 1)])
            if (tsa - (t["g"][t["a"]] + sc["epoch"][t["rank"]])) % W != 0:
                fail("e2e_counter_not_congruent", t["g"][t["a"]] + sc["epoch"][t["rank"]], tsa, uid=u)
                return fails
            offs.setdefault(t["rank"], {}).setdefault(fr(x["ts"]) - Fraction(tsa, f), []).append(u)
    for r, s in offs.items():
        if len(s) > 1:
            fail("e2e_nonrigid_offset", "one offset per rank (ts - TSa/f)",
                 {str(float(k)): v[:4] for k, v in s.items()}, rank=r, ranks=sc["ranks"])
            return fails
    if active:
        n = sc["ranks"]
        # offsets relative to TRUE global cycles: ts - g_a/f (true counters differ from exported ones by a rank constant)
        goff = {}
        for u, (x,) in by.items():
            t = truth.get(u)
            if t and t["device"]:
                goff[t["rank"]] = fr(x["ts"]) - Fraction(t["g"][t["a"]], f)
        complete = all(any(t["device"] and t["rank"] == r and t["cg"] == g for t in truth.values())
                       for r in range(n) for g in used)
        if tree and complete and all(r in goff for r in range(n)):
            def gend(r, g, k):
                return max(Fraction(t["g"][k], f) for t in truth.values()
                           if t["device"] and t["rank"] == r and t["cg"] == g)
            diffs = [gend(1, g, 1) + goff[1] - gend(0, g, 4) - goff[0] for g in used]
            if min(diffs) != 0:
                fail("e2e_not_aligned", "min over groups of (last recv of rank 1 - last send of rank 0) == 0",
                     [float(x) for x in diffs], ranks=n, what="send_recv")
                return fails
            for r in range(2, n):
                if gend(r, used[0], 1) + goff[r] != gend(1, used[0], 1) + goff[1]:
                    fail("e2e_not_aligned", "receivers end the first group together",
                         [float(gend(q, used[0], 1) + goff[q]) for q in range(1, n)], ranks=n, what="receivers", rank=r)
                    return fails
    if "bumped" in runs:
        stb, byb, _ = runs["bumped"]
        v1 = {u: (fr(x[0]["ts"]), fr(x[0]["dur"]), x[0]["pid"]) for u, x in by.items()}
        v2 = {u: (fr(x[0]["ts"]), fr(x[0]["dur"]), x[0]["pid"]) for u, x in byb.items()} if stb == "ok" else stb
        if v1 != v2:
            diff = stb if stb != "ok" else {u: [float(v1.get(u, (0,))[0]), float(v2.get(u, (0,))[0])]
                                            for u in sorted(set(v1) | set(v2)) if v1.get(u) != v2.get(u)}
            fail("e2e_epoch_dependent", "identical ts/dur for every uid",
                 diff if isinstance(diff, str) else dict(list(diff.items())[:8]), ranks=sc["ranks"],
                 active=active)
    return fails


def e2e_runs(sc, workdir=None, rng=None):
    runs = {"base": run_e2e(sc, workdir=workdir)}
    if runs["base"][0] == "ok":
        runs["nosync"] = run_e2e(sc, extra=["-M"], capture=False, workdir=workdir)
        if "deltas" not in sc or sc["deltas"] is None:
            rr = rng or random.Random(len(sc["truth"]))
            sc["deltas"] = [rr.choice([0, 1, 12345, rr.randrange(0, W), rr.randrange(0, 3 * W)])
                            for _ in range(sc["ranks"])]
        runs["bumped"] = run_e2e(bump_e2e(sc, sc["deltas"]), capture=False, workdir=workdir)
    return runs


# ================================================================= names tie
def names_impl(s):
    from aiu_trace_analyzer.pipeline.timesync import get_opIds_from_event
    return ["AllReduce" in s, "AllReduce_all_reduce" in s, int(get_opIds_from_event({"name": s}))]


NAME_SAMPLES = ["", "AllReduce", "AllReduc", "xAllReduce_all_reduce_4_Add_1 Cmpt Prep", "AllReduce_all_reduce",
                "AllReduce_all_reduc", "AllGather_all_gather_7", "a DmaO b DmaI", "a Cmpt Exec Cmpt Prep", " DmaI",
                "DmaI", "x DmaO", "xDmaO", "Cmpt Prep", "y  Cmpt Prep", "AllReduce_all_AllReduce_all_reduce DmaO",
                "AAllReduce", "All Reduce", "SenRdmaSend_82233 - Xseg to rank 2 [sync=AllReduce_all_reduce_4_s3_r0x7_6] DmaO",
                " cmpt prep", " Cmpt PrepX", "AllReduce_all_reduce_4_Add_5 Cmpt Exec"]


# ================================================================= run
def load_corpus():
    out = []
    for p in sorted(glob.glob(os.path.join(coqrun.VERIF, "corpus", "C07", "*.json"))):
        c = json.load(open(p))
        for case in (c if isinstance(c, list) else [c]):
            case["corpus"] = os.path.basename(p)
            out.append(case)
    return out


def canon(events):
    return json.dumps(events, sort_keys=True)


NT_EXTRA = ("Local Open Scope nat_scope.\nDefinition nt := Eval vm_compute in (count_if nontrivial (map fst cases)).\n"
            "Print nt.")


def run_model(name, items, batch):
    """items: list of (events, impl result).  One cases file per batch, each with its OWN name table (string
    literals are by far the most expensive thing to elaborate); batches run in parallel.  Returns (mismatching
    global indices, nt, seconds)."""
    from concurrent.futures import ThreadPoolExecutor
    batches = [items[i:i + batch] for i in range(0, len(items), batch)]

    def one(k):
        tab = NameTable()
        terms = [(coq_events(evs, tab), vt_result(out)) for evs, out in batches[k]]
        return coqrun.run_cases(f"{name}_{k}", COQ_IMPORTS, "(list ev)", "run_val", terms, prelude=tab.prelude(),
                                shard=len(terms) + 1, extra=NT_EXTRA, timeout=900)
    t0 = time.time()
    bad, nt = [], 0
    with ThreadPoolExecutor(max_workers=max(1, coqrun.JOBS)) as ex:
        for k, (b, extras, _) in enumerate(ex.map(one, range(len(batches)))):
            bad += [k * batch + j for j in b]
            nt += extras.get("nt", 0)
    return sorted(bad), nt, time.time() - t0


def run(ctx):
    rng = ctx.rng
    items, meta = [], []          # (events, impl result) and their origin
    oracle_failures, mism = [], []
    dist = {"direct": {"ranks": {}, "groups": {}, "events": {}, "branch": {"tree": 0, "chain": 0, "inactive": 0},
                       "errors": {}, "malformed": 0},
            "e2e": {"ranks": {}, "groups": {}, "stage_events": {}, "status": {}, "opts": {}, "wraps": 0,
                    "branch": {"tree": 0, "chain": 0, "inactive": 0}}}
    seen, nontriv = set(), 0
    samples = []
    names = set()

    def bucket(d, k):
        d[str(k)] = d.get(str(k), 0) + 1

    def add_direct(case, origin):
        nonlocal nontriv
        evs = case["events"]
        out = drive_direct(evs)
        items.append((evs, out))
        meta.append({"origin": origin, "case": case})
        active, used, tree, ranks = classify(evs)
        bucket(dist["direct"]["ranks"], len(ranks))
        bucket(dist["direct"]["groups"], len(used))
        bucket(dist["direct"]["events"], min(len(evs) // 10 * 10, 100))
        dist["direct"]["branch"]["inactive" if not active else "tree" if tree else "chain"] += 1
        if isinstance(out, enc.Err):
            bucket(dist["direct"]["errors"], out.tag)
        key = canon(evs)
        if key not in seen:
            seen.add(key)
            if active and not isinstance(out, enc.Err):
                nontriv += 1
        if len(names) < 300:
            names.update(e["name"] for e in evs[:3])
        if len(oracle_failures) < 5:
            oracle_failures.extend(oracle_direct(evs, out, case.get("wf", False))[:1])
        return out

    # ---- corpus first
    e2e_cases = []
    for case in load_corpus():
        if case.get("kind") == "e2e":
            e2e_cases.append((case, "corpus:" + case["corpus"]))
        else:
            add_direct(case, "corpus:" + case["corpus"])
    n_corpus = len(items)
    # ---- generated direct stream (+ separate malformed stream)
    n_direct = ctx.pick(900, 8000)
    for i in range(n_direct):
        case = gen_direct(rng)
        add_direct(case, "gen")
        if i < 2:
            samples.append({"kind": "direct", "events": case["events"][:6]})
    n_mal = ctx.pick(200, 1500)
    for i in range(n_mal):
        add_direct(gen_direct(rng, malformed=True), "malformed")
        dist["direct"]["malformed"] += 1
    n_direct_items = len(items)
    # ---- end to end
    for i in range(ctx.pick(200, 1500)):
        e2e_cases.append((gen_e2e(rng), "gen"))
    t_e2e = time.time()
    n_e2e_done = 0
    for sc, origin in e2e_cases:
        runs = e2e_runs(sc, workdir=ctx.work, rng=rng)
        n_e2e_done += 1
        st, by, cap = runs["base"]
        active, used, tree = e2e_class(sc)
        bucket(dist["e2e"]["ranks"], sc["ranks"])
        bucket(dist["e2e"]["groups"], len(sc["groups"]))
        bucket(dist["e2e"]["status"], st)
        bucket(dist["e2e"]["opts"], " ".join(sc["opts"]) or "-")
        dist["e2e"]["branch"]["inactive" if not active else "tree" if tree else "chain"] += 1
        dist["e2e"]["wraps"] += int(any(e >= W - 3000000 for e in sc["epoch"]))
        if cap.stage_seen and (cap.output is not None or st != "ok"):
            evs = stage_case(cap)
            bucket(dist["e2e"]["stage_events"], min(len(evs) // 50 * 50, 400))
            out = [cap.calib, cap.output] if cap.output is not None else enc.Err(
                "SystemExit" if st.startswith("SystemExit") else st)
            items.append((evs, out))
            meta.append({"origin": "e2e-stage:" + origin, "case": {"kind": "direct", "events": evs}})
            key = canon(evs)
            if key not in seen:
                seen.add(key)
                if active and st == "ok":
                    nontriv += 1
            if len(names) < 400:
                names.update(e["name"] for e in evs[:4])
        elif not cap.stage_seen:
            mism.append({"name": "mp_sync_tight_v1 was not registered by the default pipeline", "case": sc["opts"]})
        if len(oracle_failures) < 5:
            oracle_failures.extend(oracle_e2e(sc, runs)[:1])
        if origin == "gen" and len(samples) < 3:
            samples.append({"kind": "e2e", "ranks": sc["ranks"], "groups": sc["groups"], "freq": sc["freq"],
                            "first_file_head": sc["files"]["rank0.json"][:3]})
    t_e2e = time.time() - t_e2e
    # ---- model evaluation
    bad1, nt1, secs1 = run_model("C07_d", items[:n_direct_items], ctx.pick(75, 150))
    bad2, nt2, secs2 = run_model("C07_e", items[n_direct_items:], ctx.pick(6, 10))
    bad = bad1 + [n_direct_items + j for j in bad2]
    for j in bad[:5]:
        mism.append({"name": "correspondence MpSync.run_val vs MpSyncTightContext (" + meta[j]["origin"] + ")",
                     "case": meta[j]["case"], "impl": vt_result(items[j][1])[:600]})
    # a mismatching case is also given to the oracle
    for j in bad[:20]:
        if len(oracle_failures) >= 5:
            break
        c = meta[j]["case"]
        oracle_failures.extend(oracle_direct(c["events"], drive_direct(c["events"]), c.get("wf", True))[:1])
    nlist = NAME_SAMPLES + sorted(names)
    nterms = [(enc.S(s), enc.V(names_impl(s))) for s in nlist]
    badn, _, secsn = coqrun.run_cases("C07_names", "From AiuModel Require Import MpSync.", "string", "names_val",
                                      nterms, shard=500)
    for j in badn[:3]:
        mism.append({"name": "correspondence MpSync.names_val vs Python substring tests / get_opIds_from_event",
                     "case": nlist[j]})
    oracle_failures = [shrink(f) for f in dedupe(oracle_failures)[:3]]
    return {
        "evaluations": len(items) + len(nterms), "distinct_nontrivial": nontriv,
        "rule": "distinct stage inputs (direct lists and recorded end-to-end stage inputs) with >= 2 ranks "
                "contributing collective events, >= 1 collective group of rank 0 and a successful calibration "
                f"(same rule inside Coq over all cases incl. duplicates: {nt1 + nt2}); "
                f"{n_e2e_done} end-to-end scenarios x 3 runs (default, -M, epochs offset)",
        "samples": samples, "mismatches": mism, "oracle_failures": oracle_failures,
        "ties": [{"name": "MpSync.run_val = MpSyncTightContext, direct drive (corpus + generated + malformed)",
                  "cases": n_direct_items, "corpus": n_corpus, "generated": n_direct, "malformed": n_mal,
                  "mismatching": len(bad1), "coq_seconds": round(secs1, 1)},
                 {"name": "MpSync.run_val = recorded input/output of the mp_sync_tight_v1 stage inside Acelyzer end to "
                          "end (multi-rank chain all-reduce scenarios)",
                  "cases": len(items) - n_direct_items, "scenarios": n_e2e_done, "mismatching": len(bad2),
                  "coq_seconds": round(secs2, 1), "e2e_seconds": round(t_e2e, 1)},
                 {"name": "MpSync.names_val = Python substring tests / get_opIds_from_event", "cases": len(nterms),
                  "mismatching": len(badn), "coq_seconds": round(secsn, 1)}],
        "distribution": dist,
        "traces_validated_against_impl": len(items),
    }


def dedupe(fs):
    out, seen = [], set()
    for f in fs:
        k = json.dumps(f["signature"], sort_keys=True, default=str)
        if k not in seen:
            seen.add(k)
            out.append(f)
    return out


# ================================================================= shrinking, search, replay
def check_input(inp, workdir=None):
    """re-run implementation + oracle on a failing input; returns the list of failures"""
    if inp.get("kind") == "e2e":
        sc = copy.deepcopy(inp)
        return oracle_e2e(sc, e2e_runs(sc, workdir=workdir))
    evs = inp["events"]
    return oracle_direct(evs, drive_direct(evs), inp.get("wf", True))


def drop_uid(sc, u):
    """the e2e scenario without the logical slice u (its X event, or its B event and the E event that closes it)"""
    c = copy.deepcopy(sc)
    for fn, evs in sc["files"].items():
        out, pending = [], None
        for e in evs:
            eu = (e.get("attr") or e.get("args") or {}).get("uid")
            if eu == u and e.get("ph") != "E":
                pending = (e["name"], e["tid"]) if e.get("ph") == "B" else None
                continue
            if pending and e.get("ph") == "E" and (e["name"], e["tid"]) == pending:
                pending = None
                continue
            out.append(e)
        c["files"][fn] = out
    del c["truth"][u]
    return c


def shrink(f, budget=40.0):
    kind = f["signature"]["kind"]
    t0 = time.time()

    def still(inp):
        try:
            return any(x["signature"]["kind"] == kind for x in check_input(inp))
        except Exception:  # noqa: BLE001
            return False

    inp = copy.deepcopy(f["input"])
    inp.setdefault("wf", True)
    changed = True
    while changed and time.time() - t0 < budget:
        changed = False
        if inp.get("kind") == "e2e":
            # whole logical slices outside the collective groups (kernels, host slices)
            for u in [u for u, t in inp["truth"].items() if not t.get("cg")]:
                if time.time() - t0 > budget:
                    break
                c = drop_uid(inp, u)
                if still(c):
                    inp, changed = c, True
        else:
            evs = inp["events"]
            for k in range(len(evs)):
                c = dict(inp, events=evs[:k] + evs[k + 1:])
                if still(c):
                    inp, changed = c, True
                    break
    res = [x for x in check_input(inp) if x["signature"]["kind"] == kind]
    if not res:
        return f
    g = res[0]
    g["input"] = inp
    return g


def search(ctx, res, broken):
    """something broke but the run's oracle was silent: a larger fresh stream through implementation + oracle"""
    r = random.Random(ctx.seed + 7)
    t0 = time.time()
    lim = ctx.pick(100, 900)
    i = 0
    while time.time() - t0 < lim:
        i += 1
        if i % 8:
            case = gen_direct(r, malformed=False)
            fs = oracle_direct(case["events"], drive_direct(case["events"]), case["wf"])
        else:
            sc = gen_e2e(r)
            fs = oracle_e2e(sc, e2e_runs(sc, workdir=ctx.work, rng=r))
        if fs:
            return [shrink(fs[0])]
    return []


def replay(ctx, payload):
    f = payload.get("failing")
    if not f:
        return True, "replay file names only broken obligations: " + str(payload.get("broken"))[:500]
    fs = check_input(f["input"], workdir=ctx.work)
    return (not fs), {"failures": [{"signature": x["signature"], "expected": x["expected"],
                                    "observed": x["observed"]} for x in fs[:3]]}
