"""C18 — TensorBoard per-rank files and DataFrame export are lossless views of the trace.

Ties (model evaluated by vm_compute inside coqc, Export.tb_val / Export.df_val):
  * tb_direct : the real TensorBoardFileTraceExporter is fed generated event/device lists (real trace_view event
                objects; rank ids 0..R-1 as well as arbitrary subsets / offsets of a job's ranks, with/without pid -1,
                negative and non-int pids, pids >= 2000, missing pid) and flushed into a scratch directory; observed =
                rank_cnt, the in-memory per-rank views (traceview_by_rank via get_tb_data, with their rank ids),
                every file written (name, event uids, device uids) and the combined view (get_data).
  * tb_e2e    : Acelyzer(argv).run() in process on generated multi-rank FLEX scenarios (rank files of the ranks
                0..R-1 or of an arbitrary subset of a job's ranks) with --tb and --tb --disable_file; the combined
                view's (index, pid) list is the model's input, the worker files / views are the observation.
  * df_direct : the real DataframeExporter on generated event object lists; observed = the rows of get_data().
                Large lists (hundreds .. ~12000 events, any batching of the export calls) are driven too, for the
                oracle only (no Coq literal).
Oracle (independent brute-force statement of the property on the implementation's output, in terms of files):
  for ANY set of present rank ids (>= 2 of them): one worker file per present rank and none for an absent one,
  worker r == the exported events with pid r or 1000+r in order, every event with an int pid >= 0 in exactly one
  worker, combined == everything; DataFrame rows == the ph "X" events of the JSON export of the same inputs
  (count, order, rank, ts, dur, name), for the frame handed out by the API (get_output_data(), with and without
  --disable_file) AND for the table that -f pddf writes (parsed back line by line; numbers at the precision the
  table shows), on small scenarios and on a few long traces (5000..9000 slices over 2-4 ranks; more in thorough).
"""
import contextlib
import glob
import io
import itertools
import json
import math
import os
import random
import re
import shutil
import time
import zlib

from common import coqrun, enc

ID = "C18"
PROP_FILE = "props/C18.v"
THEOREMS = ["C18_tb_partition", "C18_tb_partition_dense", "C18_tb_worker_content", "C18_tb_workers_perm",
            "C18_tb_combined_all", "C18_tb_m1_irrelevant", "C18_worker_name_inj", "C18_df_rows",
            "C18_old_rule_refuted", "C18_dense_rule_refuted"]
ALLOWED_AXIOMS = []
MANIFEST = {
    "text": "Proof. Coq theorems over an executable model (Export.v) of TensorBoardFileTraceExporter "
            "(_parse_by_rank_id with the >= 1000 fold, rank_ids = sorted present ids >= 0, rank_cnt = their number, one "
            "view per rank id, which files flush writes and under which names) and of "
            "DataframeExporter/JsonFileTraceExporter.export, for arbitrary event and device lists (no bound, no "
            "hypothesis on the pids, any set of present rank ids): the rank ids are strictly ascending and are exactly "
            "the non-negative folded ids present (for r < 1000: some event has pid r or 1000+r), so no worker exists "
            "for an absent rank; worker r (< 1000) is exactly the events with pid r or 1000+r and the device entries "
            "with id r or 1000+r in export order; the workers together are a permutation of the events with an int pid "
            ">= 0 (each exactly once, nothing else); worker files are written unless there is exactly one rank; the "
            "combined view is the whole export (C18_tb_partition, C18_tb_worker_content, C18_tb_workers_perm, "
            "C18_tb_combined_all); the dense numbering 0..R-1 is the special case worker index = rank "
            "(C18_tb_partition_dense); pid -1 events change neither the rank ids nor any worker "
            "(C18_tb_m1_irrelevant); worker file names are injective in the rank (C18_worker_name_inj); the DataFrame "
            "has exactly one row per ph-X event of the JSON export of the same event stream, same order, same "
            "rank/ts/dur/name (C18_df_rows); the two pre-fix rules are refuted (C18_old_rule_refuted: rank count = "
            "groups - 1; C18_dense_rule_refuted: workers 0..rank_cnt-1 on the ranks {2,3}). The model "
            "is tied to the code on every run by three correspondence runs (direct drive of both exporters into a "
            "scratch directory incl. an exhaustive small pid grid, and Acelyzer end to end with --tb, "
            "--tb --disable_file, on dense and on sparse rank sets) and an independent file-partition / "
            "DataFrame-vs-JSON oracle incl. -f pddf, -f json, --disable_file end to end; the DataFrame side is "
            "observed both through the API (get_output_data()) and through the table -f pddf writes (read back line "
            "by line), on small scenarios and on long traces (thousands of slices; oracle only, no Coq literal).",
    "note": "Print Assumptions: closed under the global context for all ten theorems. Trusted: Coq kernel + "
            "vm_compute; the hand-written model is tied by differential testing only. The end-to-end part of the "
            "DataFrame statement ('same inputs give the same event stream under -f json and -f pddf') is not a "
            "theorem: the pipeline is not modelled here, it is checked by the oracle on generated scenarios. pid -1 "
            "events never arise end to end on FLEX inputs (coll_bw counters are not produced), so they are exercised "
            "only by the direct drive. The written table prints numbers with pandas' display precision: its timestamps / "
            "durations are compared at the precision the table shows, the API frame exactly. The oracle asserts the file partition on every case whose int pids are below "
            "2000 (rank ids below 1000, where 'pid r or 1000+r' is unambiguous) and whose events all carry a pid; "
            "pids >= 2000 (rank ids >= 1000: worker r holds the pids 1000+r only, C18_tb_worker_content) and the "
            "KeyError on a missing pid are covered by the tie only. Observed quirks, modelled as they are: worker files "
            "are written even with --disable_file; a single-rank trace (whatever its rank id) gets no worker file; "
            "negative pids other than -1 and non-int pids reach no worker; device entries of an absent rank are in no "
            "worker; end to end, tb_refinement emits the process metadata of a rank without host (or device) events "
            "under its default pid 0, so an export of e.g. the rank files {2,3} can contain pid-0 metadata events and "
            "then (rightly, by the property, which speaks about exported events) gets a worker 0 holding them - "
            "counted in the distribution, not a C18 failure; bool pids are not modelled.",
    "technique": "Coq proof (induction over the event list / rank id list, insertion sort, permutation and NoDup "
                 "counting) + vm_compute correspondence against the real exporters and Acelyzer + brute-force oracle",
    "design_ref": "DESIGN.md section 4/C18, section 6 F4; known_findings 0f462ed",
}
TRUSTED = [
    "modelled, not verified: json.dump/json.loads, file I/O, pandas.DataFrame construction (rows are read back "
    "through itertuples), os.path.splitext/str.replace/str.endswith (re-implemented in Export.v and tied through "
    "the names of the files actually written)",
    "an event is observed by the exporter only through event['pid'] (device entries through ['id']); a bool pid "
    "(isinstance(True, int)) is outside the model",
    "events are identified by args.uid in the direct drive and by (content, occurrence) in the end-to-end drive",
    "flush() is called once per exporter (Engine.run does so)",
]
ASSUMPTIONS = [
    "C18_tb_partition has no hypothesis on the pids; its per-worker clause 'pid r or 1000+r' is stated for rank ids "
    "r < 1000 (for r >= 1000 pid r itself folds to r-1000; C18_tb_worker_content gives the general form). "
    "C18_tb_partition_dense: 2 <= R <= 1000, pids in {0..R-1} u {1000..1000+R-1} u {-1}, every rank present",
    "C18_df_rows: event classes fix their ph (CompleteEvents 'X', no other class accepts 'X') and both exporters "
    "receive the same event stream (pipeline determinism is C14; tested here end to end)",
]

REPO = coqrun.REPO
KOTHER = ("None", "str", "float")


# ======================================================================= helpers
@contextlib.contextmanager
def quiet():
    with contextlib.redirect_stdout(io.StringIO()):
        yield


def _mkdir(ctx, tag):
    d = os.path.join(ctx.work, f"{tag}_{os.getpid()}")
    shutil.rmtree(d, ignore_errors=True)
    os.makedirs(d)
    return d


def _clean(d):
    for fn in os.listdir(d):
        p = os.path.join(d, fn)
        if os.path.isdir(p):
            shutil.rmtree(p, ignore_errors=True)
        else:
            os.remove(p)


WORKER_RE = re.compile(r"_worker_(\d+)\.pt\.trace\.json$")


def _listing(d):
    """files of d (no csv): worker-pattern files by numeric index, then the others by name"""
    names = [n for n in os.listdir(d) if not n.endswith(".csv") and os.path.isfile(os.path.join(d, n))]
    w = sorted((n for n in names if WORKER_RE.search(n)), key=lambda n: (int(WORKER_RE.search(n).group(1)), n))
    o = sorted(n for n in names if not WORKER_RE.search(n))
    return w + o


def observe_tb(exp, outdir, ev_uids, dev_uids, e2e=False):
    """what the tie compares: [rank_cnt, in-memory views, files written, combined view].
    End to end the 'deviceProperties' entry of the COMBINED dump is overwritten by the importer's pass-through
    metadata (TraceView.dump: dic.update(self.meta_data)), so there the combined device list is read from
    exporter.traceview.device_data instead of the dump (the worker views/files are always read from the dumps)."""
    views = []
    for r in sorted(exp.traceview_by_rank):
        try:
            j = json.loads(exp.get_tb_data(r))
            views.append([r, ev_uids(j["traceEvents"]), dev_uids(j["deviceProperties"])])
        except Exception as e:  # noqa: BLE001
            views.append([r, enc.Err(type(e).__name__), []])
    files = []
    for n in _listing(outdir):
        try:
            j = json.load(open(os.path.join(outdir, n)))
            devs = j["deviceProperties"]
            if e2e and not WORKER_RE.search(n):
                devs = exp.traceview.device_data
            files.append([n, ev_uids(j["traceEvents"]), dev_uids(devs)])
        except Exception as e:  # noqa: BLE001
            files.append([n, enc.Err(type(e).__name__), []])
    j = json.loads(exp.get_data())
    comb = [ev_uids(j["traceEvents"]), dev_uids(exp.traceview.device_data if e2e else j["deviceProperties"])]
    return [exp.rank_cnt, views, files, comb]


# ======================================================================= TB direct drive
def _pid_value(spec):
    if isinstance(spec, int):
        return spec
    return {"None": None, "str": "p7", "float": 1.5}[spec]


def _mk_event(tv, uid, spec):
    """a real trace_view event object (class chosen by uid) or, for a missing pid, a raw dict"""
    if spec == "missing":
        return {"ph": "X", "name": f"raw{uid}", "ts": uid, "dur": 1, "tid": 0, "args": {"uid": uid}}
    pid = _pid_value(spec)
    k = uid % 4
    if k == 0:
        return tv.CompleteEvents(name=f"x{uid}", cat="c", ts=float(uid), dur=1.0, pid=pid, tid=1, args={"uid": uid})
    if k == 1:
        return tv.CounterEvents(name=f"c{uid}", ts=float(uid), pid=pid, args={"uid": uid})
    if k == 2:
        return tv.MetaEvents(name="process_name", args={"uid": uid, "name": "p"}, ph="M", ts=float(uid), pid=pid)
    return tv.DurationEvents(ph="B" if uid % 8 == 3 else "E", ts=float(uid), pid=pid, tid=2, name=f"d{uid}",
                             args={"uid": uid})


def drive_tb(case, workdir):
    """case: {events: [[uid, pidspec]], devices: [[uid, idspec]], save: bool, target: str}"""
    import aiu_trace_analyzer.export.exporter as ex
    import aiu_trace_analyzer.trace_view as tv
    import aiu_trace_analyzer.logger as aiulog
    aiulog.loglevel = 0
    _clean(workdir)
    if case.get("json_dir"):        # the output DIRECTORY has ".json" in its name (the target's file name is unchanged)
        workdir = os.path.join(workdir, "run1.json.d")
        os.makedirs(workdir)
    path = os.path.join(workdir, case["target"])
    try:
        with quiet():
            exp = ex.TensorBoardFileTraceExporter(target_uri=path, timescale="ns",
                                                  settings={"output": path, "save_to_file": case["save"]})
            batch = []
            for uid, spec in case["events"]:
                e = _mk_event(tv, uid, spec)
                if isinstance(e, dict):
                    exp.export(batch)
                    batch = []
                    exp.export_raw(e)
                else:
                    batch.append(e)
            exp.export(batch)
            for uid, spec in case["devices"]:
                exp.add_device(_pid_value(spec), {"uid": uid, "type": "AIU"})
            exp.flush()
            return observe_tb(exp, workdir, lambda evs: [e["args"]["uid"] for e in evs],
                              lambda ds: [d["uid"] for d in ds])
    except Exception as e:  # noqa: BLE001
        return enc.Err(type(e).__name__)


def coq_key(spec):
    if isinstance(spec, int):
        return f"(KInt {enc.Z(spec)})"
    return "KMissing" if spec == "missing" else "KOther"


def coq_tb_case(case):
    evs = enc.L([enc.P(enc.Z(u), coq_key(s)) for u, s in case["events"]])
    devs = enc.L([enc.P(enc.Z(u), coq_key(s)) for u, s in case["devices"]])
    return enc.P(enc.P(enc.P(evs, devs), enc.B(case["save"])), enc.S(case["target"]))


TARGETS_PLAIN = ["out.json", "trace.pt.trace.json"]
TARGETS_ODD = ["out.txt", "out", "a.json.b.json", ".json", "..json", "x.json.gz", "o.JSON", "out.trace.json",
               "x.pt.trace.json.json", ".pt.trace.json", "json", "a.b.c", "my run.json", "a.json.pt.trace.json",
               ".hidden.json", "...", "a.", "out.pt.trace.jsonx"]


def gen_rank_ids(r, big=False):
    """the ranks that are present: 0..R-1, or a subset / an offset block of the ranks of a larger job"""
    R = r.randint(2, 8) if not big else r.randint(9, 13)
    x = r.random()
    if x < 0.45:
        return list(range(R))
    if x < 0.75:
        return sorted(r.sample(range(0, R + r.randint(1, 6)), R))          # gaps in the numbering
    if x < 0.9:
        a = r.randint(1, 20)
        return list(range(a, a + R))                                        # a block that does not start at 0
    return sorted(r.sample([0, 1, 7, 9, 10, 11, 99, 100, 500, 998, 999], min(R, 6)))


def gen_tb_ranks(r, big=False):
    """a multi-rank export: every pid is k or 1000+k for a present rank k, or -1"""
    ids = gen_rank_ids(r, big)
    with_m1 = r.random() < 0.5
    n = r.randint(0, 18)
    pids = []
    for _ in range(n):
        if with_m1 and r.random() < 0.2:
            pids.append(-1)
        else:
            k = r.choice(ids)
            pids.append(k if r.random() < 0.55 else 1000 + k)
    present = {p if p < 1000 else p - 1000 for p in pids if p != -1}
    for k in ids:
        if k not in present:
            pids.insert(r.randint(0, len(pids)), k if r.random() < 0.5 else 1000 + k)
    if with_m1 and -1 not in pids:
        pids.insert(r.randint(0, len(pids)), -1)
    uids = list(range(1, len(pids) + 1))
    events = [[u, p] for u, p in zip(uids, pids)]
    if events and r.random() < 0.12:          # an exact duplicate of an exported event (same content, same uid)
        events.insert(r.randint(0, len(events)), list(r.choice(events)))
    devices = []
    for i, k in enumerate(ids):
        if r.random() < 0.7:
            devices.append([100 + i, k if r.random() < 0.85 else 1000 + k])
    if r.random() < 0.1:
        devices.append([99, r.choice([-1, 0, 3, 1001])])      # pseudo process / possibly an absent rank
    r.shuffle(devices)
    return {"events": events, "devices": devices, "save": r.random() < 0.7,
            "target": r.choice(TARGETS_PLAIN) if r.random() < 0.7 else r.choice(TARGETS_ODD),
            "ranks": ids, "with_m1": with_m1, "json_dir": r.random() < 0.1}


def gen_tb_malformed(r):
    kind = r.choice(["gap", "nonint", "big", "neg", "single", "empty", "only_m1", "missing", "mixed"])
    n = r.randint(1, 10)
    alpha = {
        "gap": [0, 2, 3, 1002, 1005, 5, -1],
        "nonint": [0, 1, 1001, "None", "str", "float"],
        "big": [0, 1, 999, 1999, 2000, 2001, 3000, 1000],
        "neg": [0, 1, -1, -2, -1000, 998],
        "single": [0, 1000],
        "empty": [],
        "only_m1": [-1],
        "missing": [0, 1, 1000, "missing"],
        "mixed": [0, 1, 2, 1000, 1001, 7, -1, "None", 2001, 999, 1999],
    }[kind]
    if kind == "single" and r.random() < 0.5:
        alpha = [3, 1003]
    pids = [r.choice(alpha) for _ in range(n)] if alpha else []
    events = [[u + 1, p] for u, p in enumerate(pids)]
    dalpha = [0, 1, 2, 1000, -1, "None", "str", 5]
    devices = [[100 + i, r.choice(dalpha)] for i in range(r.randint(0, 3))]
    return {"events": events, "devices": devices, "save": r.random() < 0.7,
            "target": r.choice(TARGETS_PLAIN + TARGETS_ODD), "with_m1": -1 in pids, "malformed": kind}


def tb_grid(maxlen):
    """every pid list of length <= maxlen over a small alphabet (exhaustive): all rank sets within {0, 1, 2},
    dense ({0,1}, {0,1,2}) and sparse ({0,2}, {1,2}, {2}, ...)"""
    alpha = [-1, 0, 1, 2, 1000, 1001]
    out = []
    for ln in range(0, maxlen + 1):
        for pids in itertools.product(alpha, repeat=ln):
            out.append({"events": [[i + 1, p] for i, p in enumerate(pids)], "devices": [[100, 0], [101, 1]],
                        "save": True, "target": "out.json", "with_m1": -1 in pids})
    return out


def ranks_of(case):
    """folded non-negative rank ids of the exported int pids (used for statistics / ground truth of the generators)"""
    s = set()
    for _, p in case["events"]:
        if isinstance(p, int) and not isinstance(p, bool):
            k = p - 1000 if p >= 1000 else p
            if k >= 0:
                s.add(k)
    return s


# ----------------------------------------------------------------------- TB oracle (files, independent of the model)
def _is_int(p):
    return isinstance(p, int) and not isinstance(p, bool)


def tb_in_scope(case):
    """where the oracle asserts the file partition: every exported event carries a pid (flush completes) and every
    int pid is below 2000, so that 'worker r holds the events whose pid is r or 1000+r' names one rank per pid"""
    return all(p != "missing" and not (_is_int(p) and p >= 2000) for _, p in case["events"])


def present_ranks(case):
    """the ranks that are present: r such that some exported event has pid r or 1000+r (r = 0..999)"""
    pids = {p for _, p in case["events"] if _is_int(p)}
    return {r for r in range(1000) if r in pids or 1000 + r in pids}


def oracle_tb(case, obs, stream):
    """case['events'] = [(uid, pid)] as exported; obs = observe_tb(...).  Returns a list of failures (dicts)."""
    fails = []

    def fail(kind, expected, observed, **sig):
        s = {"kind": kind, "stream": stream}
        s.update(sig)
        fails.append({"expected": expected, "observed": observed, "signature": s})

    if isinstance(obs, enc.Err):
        if not any(p == "missing" for _, p in case["events"]):
            fail("tb_exception", "flush completes", repr(obs), exc=obs.tag)
        return fails
    rank_cnt, views, files, comb = obs
    all_uids = [u for u, _ in case["events"]]
    # the combined view contains every exported event, whatever the pids
    if comb[0] != all_uids:
        fail("tb_combined_incomplete", all_uids, comb[0])
    by_name = {f[0]: f for f in files}
    comb_files = [f for f in files if not WORKER_RE.search(f[0])]
    if case["save"]:
        if len(comb_files) != 1 or comb_files[0][1] != all_uids:
            fail("tb_combined_file_incomplete", all_uids, [f[:2] for f in comb_files])
    elif comb_files:
        fail("tb_combined_file_written_despite_disable_file", [], [f[0] for f in comb_files])
    if not tb_in_scope(case):
        return fails
    S = present_ranks(case)
    sig = {"ranks": len(S), "dense": S == set(range(len(S)))}
    with_m1 = case.get("with_m1", False)
    wfiles = {}
    for f in files:
        m = WORKER_RE.search(f[0])
        if m:
            wfiles.setdefault(int(m.group(1)), []).append(f)
    # no worker file for a rank that is not present
    absent = sorted(k for k in wfiles if k not in S)
    if absent:
        fail("tb_worker_for_absent_rank", f"worker files for the present ranks {sorted(S)} only", sorted(wfiles), **sig)
    # multi-rank: one worker file per present rank
    multi = len(S) >= 2
    missing = sorted(k for k in S if k not in wfiles) if multi else []
    if missing:
        fail("tb_worker_missing", f"worker files for the present ranks {sorted(S)}", sorted(wfiles), with_m1=with_m1,
             **sig)
    if any(len(v) > 1 for v in wfiles.values()):
        fail("tb_worker_name_clash", "one file per rank", sorted(by_name))
    # worker r holds exactly the exported events whose pid is r or 1000+r, in export order
    for k in sorted(wfiles):
        if k not in S:
            continue
        got = wfiles[k][0][1]
        want = [u for u, p in case["events"] if _is_int(p) and p in (k, 1000 + k)]
        if isinstance(got, enc.Err):
            fail("tb_worker_unreadable", want, repr(got), worker_is_lowest=(k == min(S)))
            continue
        if got != want:
            if sorted(got) == sorted(want):
                kind = "tb_worker_order"
            elif any(u not in want for u in got):
                kind = "tb_event_in_wrong_worker"
            elif len(got) > len(want):
                kind = "tb_event_duplicated"
            else:
                kind = "tb_event_lost"
            fail(kind, {"worker": k, "events": want}, got, **sig)
    # every event with an int pid >= 0 exactly once over all workers (multiset); every other event in none
    if multi and not missing:
        want_all = sorted(u for u, p in case["events"] if _is_int(p) and p >= 0)
        got_all = sorted(u for k in wfiles if not isinstance(wfiles[k][0][1], enc.Err) for u in wfiles[k][0][1])
        if want_all != got_all and not any(f["signature"]["kind"].startswith("tb_event") for f in fails):
            fail("tb_partition_broken", want_all, got_all, **sig)
    # the in-memory views (get_tb_data) exist for present ranks only and agree with the files
    vmem = {v[0]: v for v in views}
    if any(k not in S for k in vmem):
        fail("tb_memory_view_for_absent_rank", sorted(S), sorted(vmem), **sig)
    for k in sorted(wfiles):
        if k in S and k in vmem and not isinstance(vmem[k][1], enc.Err) and vmem[k][1] != wfiles[k][0][1]:
            fail("tb_memory_view_differs_from_file", wfiles[k][0][1], vmem[k][1], **sig)
    return fails


def shrink_list(items, bad, budget=2.0):
    """greedy one-at-a-time removal while bad(items) stays true"""
    t0 = time.time()
    items = list(items)
    changed = True
    while changed and time.time() - t0 < budget:
        changed = False
        for k in range(len(items)):
            cand = items[:k] + items[k + 1:]
            if bad(cand):
                items, changed = cand, True
                break
    return items


def tb_direct_failure(case, workdir, shrink=True):
    obs = drive_tb(case, workdir)
    fs = oracle_tb(case, obs, "direct")
    if not fs:
        return None
    kind = fs[0]["signature"]["kind"]
    if shrink and tb_in_scope(case):
        def bad(evs):
            c = dict(case, events=evs)
            return any(f["signature"]["kind"] == kind for f in oracle_tb(c, drive_tb(c, workdir), "direct"))
        case = dict(case, events=shrink_list(case["events"], bad))
        case = dict(case, devices=shrink_list(case["devices"], lambda ds: any(
            f["signature"]["kind"] == kind for f in
            oracle_tb(dict(case, devices=ds), drive_tb(dict(case, devices=ds), workdir), "direct"))))
        obs = drive_tb(case, workdir)
        fs = [f for f in oracle_tb(case, obs, "direct") if f["signature"]["kind"] == kind] or fs
    f = fs[0]
    return {"input": {"kind": "tb_direct", "case": case}, "expected": f["expected"], "observed": f["observed"],
            "signature": f["signature"]}


# ======================================================================= DataFrame direct drive
DF_COLS = ["Rank", "Timestamp", "Duration", "Category", "Event Name", "Event CLass", "Job", "Size", "PT_Active"]
NAMES = ["k Cmpt Exec", "host0", "", "NoName", "a b  c", "x_[N]", "DmaI \"q\"", "None", "nan", "0", "UNKNOWN"]


def gen_df_case(r, malformed=False):
    n = r.randint(0, 12)
    evs = []
    for i in range(n):
        k = r.choices(["X", "C", "M", "B", "E", "i", "s", "b"], weights=[10, 3, 2, 2, 2, 1, 1, 1])[0]
        ts = r.randrange(0, 1 << 20) / 1024.0 if r.random() < 0.8 else r.randrange(0, 1000)
        e = {"k": k, "name": r.choice(NAMES), "ts": ts, "pid": r.choice([0, 1, 2, 1000, 1001, -1])}
        if k == "X":
            e["dur"] = r.randrange(0, 1 << 14) / 1024.0 if r.random() < 0.8 else r.randrange(0, 50)
            e["cat"] = r.choice(["kernel", "cpu_op", "", "other", "gpu_memcpy"])
            a = {}
            if r.random() < 0.8:
                a["rank"] = r.choice([0, 0, 1, 2, 3, 7])
            if r.random() < 0.5:
                a["class"] = r.choice(["COMPUTE_EXEC", "OTHER", ""])
            if r.random() < 0.5:
                a["jobname"] = r.choice(["rank0.json(4188)", "j"])
            if r.random() < 0.3:
                a["bytes"] = r.choice([0, 4096, 524288, 0.5])
            if r.random() < 0.3:
                a["pt_active"] = r.choice([0.0, 0.25, 1, 0.5])
            if r.random() < 0.3:
                a["uid"] = i
            e["args"] = a
            if malformed and r.random() < 0.3:
                e["ph_override"] = r.choice(["B", "x", "XX", ""])
        evs.append(e)
    cuts = sorted(r.sample(range(n + 1), min(n + 1, r.randint(0, 2))))
    return {"events": evs, "cuts": cuts, "save": r.random() < 0.6, "malformed": malformed}


def _mk_df_events(tv, specs):
    out = []
    for e in specs:
        k = e["k"]
        if k == "X":
            o = tv.CompleteEvents(name=e["name"], cat=e["cat"], ts=e["ts"], dur=e["dur"], pid=e["pid"], tid=1,
                                  args=dict(e["args"]))
            if "ph_override" in e:
                o.ph = e["ph_override"]
        elif k == "C":
            o = tv.CounterEvents(name=e["name"], ts=e["ts"], pid=e["pid"], args={"v": 1})
        elif k == "M":
            o = tv.MetaEvents(name=e["name"], args={"name": "p"}, ph="M", ts=e["ts"], pid=e["pid"])
        elif k in ("B", "E"):
            o = tv.DurationEvents(ph=k, ts=e["ts"], pid=e["pid"], tid=2, name=e["name"], args={"rank": 1})
        elif k == "i":
            o = tv.InstantEvents(name=e["name"], cat="c", ts=e["ts"], pid=e["pid"], tid=1, s="g")
        elif k == "s":
            o = tv.FlowEvents(name=e["name"], cat="c", ph="s", ts=e["ts"], pid=e["pid"], tid=1, id=5)
        else:
            o = tv.AsyncEvents(ph="b", ts=e["ts"], pid=e["pid"], tid=1, name=e["name"], id=7)
        out.append(o)
    return out


def _py(v):
    if hasattr(v, "item"):
        v = v.item()
    if isinstance(v, float) and v == int(v) and abs(v) < 1 << 53:
        return v
    return v


def gen_df_big(r, n=None):
    """a LARGE export (size region), kept compact: the event list is a deterministic function of (n, ranks, seed).
    n events (mostly slices, a few counters/metadata/instants in between), any batching of the export() calls"""
    if n is None:
        x = r.random()
        if x < 0.25:
            n = r.choice([1 << k for k in range(8, 14)]) + r.choice([-1, 0, 1])       # around a power of two
        elif x < 0.5:
            n = r.choice([500, 1000, 2000, 2500, 5000, 10000]) + r.choice([-1, 0, 1, r.randint(2, 99)])
        else:
            n = int(math.exp(r.uniform(math.log(300), math.log(12000))))
    R = r.randint(2, 4)
    ranks = list(range(R)) if r.random() < 0.6 else sorted(r.sample(range(0, 12), R))
    c = {"big": {"n": n, "ranks": ranks, "seed": r.randrange(1 << 30)}, "save": r.random() < 0.6, "malformed": False}
    x = r.random()
    if x < 0.3:
        c["cuts"] = []                                                   # one export() call (the final drain)
    elif x < 0.6:
        c["cuts"] = sorted(r.sample(range(n + 1), min(n + 1, r.randint(1, 6))))
    else:
        c["batch"] = r.choice([1, 7, 100, 256, 1000, 1024, 4096, r.randint(2, 5000)])
    return c


def df_big_events(b):
    rr = random.Random(b["seed"])
    evs, t = [], 1000.0
    for i in range(b["n"]):
        rk = rr.choice(b["ranks"])
        t += rr.randrange(1, 64) / 8.0
        if rr.random() < 0.06:
            evs.append({"k": rr.choice(["C", "M", "i"]), "name": f"n{i % 5}", "ts": t, "pid": rk})
            continue
        kern = rr.random() < 0.5
        evs.append({"k": "X", "name": f"op{i % 41} Cmpt Exec" if kern else f"host{i % 13}", "ts": t,
                    "dur": rr.randrange(1, 400) / 8.0, "pid": rk if kern else 1000 + rk,
                    "cat": "kernel" if kern else "cpu_op", "args": {"rank": rk, "uid": i}})
    return evs


def df_events(case):
    return case["events"] if "events" in case else df_big_events(case["big"])


def df_cuts(case, n):
    if case.get("batch"):
        return list(range(case["batch"], n, case["batch"]))
    return [c for c in case.get("cuts", []) if c <= n]


def parse_table(text):
    """the table -f pddf writes: a title line, then one line per row, every cell right-aligned under its title
    (DataFrame.to_string(index=False)).  Returns the rows as lists of 9 cell strings, or enc.Err."""
    lines = text.split("\n")
    if lines and lines[0].startswith("Empty DataFrame"):
        return []
    ends, pos = [], 0
    for col in DF_COLS:
        i = lines[0].find(col, pos)
        if i < 0:
            return enc.Err("table_title:" + lines[0][:120])
        pos = i + len(col)
        ends.append(pos)
    rows = []
    for ln in lines[1:]:
        cells, a = [], 0
        for k, e in enumerate(ends):
            cells.append((ln[a:e] if k < len(ends) - 1 else ln[a:]).strip())
            a = e
        rows.append(cells)
    return rows


def drive_df(case, workdir):
    """returns (observed for the tie = [rows, file_written], json X events of the JsonFileTraceExporter,
    the written table parsed back (None when no file was written))"""
    import aiu_trace_analyzer.export.exporter as ex
    import aiu_trace_analyzer.trace_view as tv
    _clean(workdir)
    path = os.path.join(workdir, "df.txt")
    jpath = os.path.join(workdir, "j.json")
    try:
        with quiet():
            evs = _mk_df_events(tv, df_events(case))
            exp = ex.DataframeExporter(target_uri=path, settings={"output": path, "save_to_file": case["save"]})
            jexp = ex.JsonFileTraceExporter(target_uri=jpath, settings={"output": jpath, "save_to_file": False})
            bounds = [0] + df_cuts(case, len(evs)) + [len(evs)]
            for a, b in zip(bounds, bounds[1:]):
                exp.export(evs[a:b])
                jexp.export(evs[a:b])
            exp.flush()
            jexp.flush()
            df = exp.get_data()
            if list(df.columns) != DF_COLS:
                return [enc.Err("columns:" + ",".join(map(str, df.columns))), os.path.exists(path)], [], None
            rows = [[_py(v) for v in t] for t in df.itertuples(index=False, name=None)]
            jx = [e for e in json.loads(jexp.get_data())["traceEvents"] if e.get("ph") == "X"]
            table = parse_table(open(path).read()) if os.path.exists(path) else None
            return [rows, os.path.exists(path)], jx, table
    except Exception as e:  # noqa: BLE001
        return enc.Err(type(e).__name__), [], None


def coq_q(x):
    return enc.Q(x)


def coq_opt(x, f):
    return "None" if x is None else f"(Some {f(x)})"


def coq_df_case(case):
    terms = []
    for e in case["events"]:
        if e["k"] == "X":
            a = e["args"]
            s = ("{| s_name := %s; s_cat := %s; s_ts := %s; s_dur := %s; s_rank := %s; s_class := %s; s_job := %s; "
                 "s_bytes := %s; s_pt := %s |}") % (
                enc.S(e["name"]), enc.S(e["cat"]), coq_q(e["ts"]), coq_q(e["dur"]),
                coq_opt(a.get("rank"), enc.Z), coq_opt(a.get("class"), enc.S), coq_opt(a.get("jobname"), enc.S),
                coq_opt(a.get("bytes"), coq_q), coq_opt(a.get("pt_active"), coq_q))
            terms.append(f"(EvX {enc.S(e.get('ph_override', 'X'))} {s})")
        else:
            ph = {"i": "i", "s": "s", "b": "b"}.get(e["k"], e["k"])
            terms.append(f"(EvOther {enc.S(ph)} {enc.S(e['name'])} {coq_q(e['ts'])})")
    return enc.P(enc.L(terms), enc.B(case["save"]))


def _num_eq(a, b):
    try:
        return enc.frac(a) == enc.frac(b)
    except Exception:  # noqa: BLE001
        return a == b


def _want_row(e):
    """(rank, ts, dur, name) of a ph X event of the JSON export"""
    return [e.get("args", {}).get("rank", 0) if isinstance(e.get("args"), dict) else 0, e["ts"], e["dur"], e["name"]]


def _count_detail(n_rows, got_keys, jx):
    """how a wrong row count splits up: slices without a row / rows without a slice (multisets)"""
    def key(r4):
        return json.dumps([float(v) if isinstance(v, (int, float)) and not isinstance(v, bool) else v for v in r4])
    want = {}
    for e in jx:
        k = key(_want_row(e))
        want[k] = want.get(k, 0) + 1
    extra = 0
    for k in map(key, got_keys):
        if want.get(k, 0) > 0:
            want[k] -= 1
        else:
            extra += 1
    return {"rows": n_rows, "slices_without_a_row": sum(want.values()), "rows_without_a_slice": extra}


def oracle_df_rows(rows, jx, stream):
    """rows: DataFrame rows (first five columns used: rank, ts, dur, cat, name); jx: the ph X dicts of the JSON export"""
    fails = []
    if len(rows) != len(jx):
        fails.append({"expected": {"rows": len(jx)},
                      "observed": _count_detail(len(rows), [[r[0], r[1], r[2], r[4]] for r in rows], jx),
                      "signature": {"kind": "df_row_count", "stream": stream,
                                    "more_rows": len(rows) > len(jx)}})
        return fails
    for i, (row, e) in enumerate(zip(rows, jx)):
        want = _want_row(e)
        got = [row[0], row[1], row[2], row[4]]
        for col, w, g in zip(["rank", "ts", "dur", "name"], want, got):
            if not (_num_eq(w, g) if col != "name" else w == g):
                fails.append({"expected": {"row": i, col: w}, "observed": {"row": i, col: g},
                              "signature": {"kind": "df_row_differs", "stream": stream, "column": col}})
                return fails
    return fails


def _shown_eq(cell, w):
    """does the number printed in the table denote w at the precision the table shows?"""
    try:
        v = float(cell)
        m, _, ex = cell.lower().partition("e")
        dec = len(m.split(".")[1]) if "." in m else 0
        tol = 0.5 * 10.0 ** (int(ex or 0) - dec)
        return abs(v - float(w)) <= tol * (1 + 1e-9) + abs(float(w)) * 1e-15
    except (ValueError, TypeError, OverflowError):
        return cell == str(w).strip()


def oracle_df_table(trows, jx, stream):
    """trows: the rows of the written table (parse_table); jx: the ph X dicts of the JSON export of the same input.
    One line per exported slice, in order, same rank / timestamp / duration (as printed) / name."""
    if isinstance(trows, enc.Err):
        return [{"expected": "a table with the title line " + " ".join(DF_COLS), "observed": repr(trows),
                 "signature": {"kind": "df_table_unreadable", "stream": stream}}]
    if len(trows) != len(jx):
        return [{"expected": {"lines": len(jx)}, "observed": {"lines": len(trows)},
                 "signature": {"kind": "df_table_row_count", "stream": stream, "more_rows": len(trows) > len(jx)}}]
    for i, (cells, e) in enumerate(zip(trows, jx)):
        want = _want_row(e)
        got = [cells[0], cells[1], cells[2], cells[4]]
        for col, w, g in zip(["rank", "ts", "dur", "name"], want, got):
            if not (_shown_eq(g, w) if col != "name" else g == str(w).strip()):
                return [{"expected": {"line": i, col: w}, "observed": {"line": i, col: g},
                         "signature": {"kind": "df_table_row_differs", "stream": stream, "column": col}}]
    return []


def df_case_failures(c, workdir):
    """all oracle failures of one direct-drive DataFrame case"""
    obs, jx, table = drive_df(c, workdir)
    if isinstance(obs, enc.Err):
        return [{"expected": "export completes", "observed": repr(obs),
                 "signature": {"kind": "df_exception", "stream": "direct", "exc": obs.tag}}]
    rows, written = obs
    if isinstance(rows, enc.Err):
        return [{"expected": DF_COLS, "observed": repr(rows),
                 "signature": {"kind": "df_columns", "stream": "direct"}}]
    fs = oracle_df_rows(rows, jx, "direct")
    if written != c["save"]:
        fs.append({"expected": c["save"], "observed": written,
                   "signature": {"kind": "df_file_vs_save_to_file", "stream": "direct", "save": c["save"]}})
    if table is not None:
        fs += oracle_df_table(table, jx, "direct")
    return fs


def df_direct_failure(case, workdir, shrink=True):
    def fl(c):
        return df_case_failures(c, workdir)
    fs = fl(case)
    if not fs:
        return None
    kind = fs[0]["signature"]["kind"]

    def bad(c):
        return any(f["signature"]["kind"] == kind for f in fl(c))
    if shrink and "big" in case:
        # a size effect: the smallest n (same ranks / seed, one export call, then the original batching) that fails
        for base in (dict(case, cuts=[], batch=None), case):
            if not bad(dict(base, big=dict(case["big"], n=case["big"]["n"]))):
                continue
            lo, hi = 0, case["big"]["n"]
            while hi - lo > 1:
                mid = (lo + hi) // 2
                if bad(dict(base, big=dict(case["big"], n=mid))):
                    hi = mid
                else:
                    lo = mid
            case = dict(base, big=dict(case["big"], n=hi))
            break
        fs = [f for f in fl(case) if f["signature"]["kind"] == kind] or fs
    elif shrink:
        evs = shrink_list(case["events"], lambda ev: bad(dict(case, events=ev, cuts=[])))
        case = dict(case, events=evs, cuts=[])
        fs = [f for f in fl(case) if f["signature"]["kind"] == kind] or fs
    f = fs[0]
    sig = dict(f["signature"])
    if "big" in case:
        sig["large"] = True
    return {"input": {"kind": "df_direct", "case": case}, "expected": f["expected"], "observed": f["observed"],
            "signature": sig}


# ======================================================================= end to end
def e2e_paths(ctx):
    """fixed input file names (job id = crc32(path) % 10000 must be pairwise distinct within a scenario)"""
    for salt in range(100):
        d = os.path.join(ctx.work, f"e2e_in_{os.getpid()}_{salt}")
        ps = [os.path.join(d, f"rank{r}.json") for r in range(8)]
        if len({zlib.crc32(p.encode()) % 10000 for p in ps}) == 8:
            return d, ps
    raise RuntimeError("no collision-free input names")


def gen_scenario(r, malformed=False):
    """R one-rank FLEX files - the ranks 0..R-1 of a job or an arbitrary subset / offset block of a job's ranks;
    slices sequential per (rank, tid) so that no stage objects.  malformed = a single rank file (no distributed view)"""
    R = r.randint(2, 8)
    if malformed:
        R = 1
    x = r.random()
    if x < 0.45 and not malformed:
        pids = list(range(R))
    elif x < 0.8:
        pids = sorted(r.sample(range(0, R + r.randint(1, 6)), R))      # gaps in the rank numbering
    else:
        a = r.randint(1, 12)
        pids = list(range(a, a + R))                                    # does not start at rank 0
    files = []
    uid = 0
    for pid in pids:
        evs = []
        t = 1000.0 + r.randrange(0, 64) / 4.0
        c = 1000000 + r.randrange(0, 1000) * 16
        kinds = r.choice([["k", "h"], ["k"], ["h"], ["k", "h", "be"], ["k", "h", "p"]])
        for k in range(r.randint(1, 5)):
            kind = r.choice(kinds)
            uid += 1
            d = r.randrange(4, 40) / 4.0
            if kind in ("k", "p"):
                nm = f"op{k}_{uid} Cmpt " + ("Exec" if kind == "k" else "Prep")
                evs.append({"name": nm, "ph": "X", "pid": pid, "tid": 7 if kind == "k" else 9, "ts": t, "dur": d,
                            "args": {"TS1": str(c), "TS2": str(c + 16), "TS3": str(c + 32), "TS4": str(c + 4096),
                                     "TS5": str(c + 4160), "Power": str(100 + uid), "uid": uid}})
                c += 16384
            elif kind == "h":
                evs.append({"name": f"host{k}", "ph": "X", "pid": pid, "tid": 3, "ts": t, "dur": d,
                            "args": {"uid": uid}})
            else:
                evs.append({"name": f"be{k}", "ph": "B", "pid": pid, "tid": 4, "ts": t, "args": {"uid": uid}})
                evs.append({"name": f"be{k}", "ph": "E", "pid": pid, "tid": 4, "ts": t + d, "args": {"uid": uid}})
            t += d + r.randrange(4, 40) / 4.0
        if all(e["name"].endswith("Cmpt Prep") for e in evs):
            # Prep slices are removed by the prep-queue stage: keep the rank present in the export
            uid += 1
            evs.append({"name": "hostx", "ph": "X", "pid": pid, "tid": 3, "ts": t, "dur": 1.0, "args": {"uid": uid}})
        files.append(evs)
    return {"pids": pids, "files": files, "R": R, "target": r.choice(["out.json", "out.json", "t.pt.trace.json"])}


E2E_CONFIGS = ["tb", "tbnf", "json", "jsonnf", "pddf", "pddfnf"]


def gen_big_scenario(r, lo, hi):
    """a LONG multi-rank trace (size region), kept compact: 2-4 one-rank FLEX files with lo..hi slices in total, simple
    host / kernel slices, sequential per rank; the files are a deterministic function of (pids, n, seed)"""
    R = r.randint(2, 4)
    pids = list(range(R)) if r.random() < 0.6 else sorted(r.sample(range(0, R + 4), R))
    total = r.randint(lo, hi)
    w = [r.uniform(0.6, 1.4) for _ in pids]
    n = [max(1, int(total * x / sum(w))) for x in w]
    return {"pids": pids, "big": {"n": n, "seed": r.randrange(1 << 30)}, "R": R, "target": "out.json",
            "configs": ["json", "pddf", "pddfnf"] + (["tb"] if r.random() < 0.3 else [])}


def big_files(pids, b):
    files = []
    for pid, n in zip(pids, b["n"]):
        rr = random.Random(b["seed"] * 131 + pid)
        evs = []
        t = 1000.0 + rr.randrange(0, 64) / 4.0
        c = 1000000 + rr.randrange(0, 1000) * 16
        for k in range(n):
            d = rr.randrange(4, 40) / 4.0
            if rr.random() < 0.5:
                evs.append({"name": f"op{k % 37} Cmpt Exec", "ph": "X", "pid": pid, "tid": 7, "ts": t, "dur": d,
                            "args": {"TS1": str(c), "TS2": str(c + 16), "TS3": str(c + 32), "TS4": str(c + 4096),
                                     "TS5": str(c + 4160), "Power": str(100 + k % 50)}})
                c += 16384
            else:
                evs.append({"name": f"host{k % 11}", "ph": "X", "pid": pid, "tid": 3, "ts": t, "dur": d, "args": {}})
            t += d + rr.randrange(4, 40) / 4.0
        files.append(evs)
    return files


def sc_files(sc):
    return sc["files"] if "files" in sc else big_files(sc["pids"], sc["big"])


def sc_key(sc):
    return sc["files"] if "files" in sc else [sc["pids"], sc["big"]]


def _run_acelyzer(argv):
    from aiu_trace_analyzer.core.acelyzer import Acelyzer
    with quiet():
        a = Acelyzer(argv)
        rc = a.run()
    return a, rc


def _content_uids(ref):
    """map an event list to indices into `ref` by (content, occurrence)"""
    idx = {}
    for i, e in enumerate(ref):
        idx.setdefault(json.dumps(e, sort_keys=True), []).append(i)

    def f(evs):
        used, out = {}, []
        for e in evs:
            k = json.dumps(e, sort_keys=True)
            n = used.get(k, 0)
            lst = idx.get(k, [])
            out.append(lst[n] if n < len(lst) else -1)
            used[k] = n + 1
        return out
    return f


def _keyspec(v):
    if isinstance(v, bool):
        return "str"
    if isinstance(v, int):
        return v
    return "None" if v is None else ("float" if isinstance(v, float) else "str")


def drive_e2e(ctx, sc, indir, paths, outroot):
    """runs the configurations; returns (tb cases for the tie [(case, obs)], oracle failures)"""
    os.makedirs(indir, exist_ok=True)
    for p in glob.glob(os.path.join(indir, "*")):
        os.remove(p)
    files = sc_files(sc)
    used = paths[:len(files)]
    for p, evs in zip(used, files):
        json.dump(evs, open(p, "w"))
    inp = ",".join(used)
    fails, tb_cases = [], []

    def fail(kind, expected, observed, **sig):
        s = {"kind": kind, "stream": "e2e"}
        s.update(sig)
        fails.append({"expected": expected, "observed": observed, "signature": s})

    def outdir(tag):
        d = os.path.join(outroot, tag)
        shutil.rmtree(d, ignore_errors=True)
        os.makedirs(d)
        return d

    results = {}
    configs = sc.get("configs") or E2E_CONFIGS
    for tag, extra, target in [("tb", ["--tb"], sc["target"]), ("tbnf", ["--tb", "--disable_file"], sc["target"]),
                               ("json", [], "out.json"), ("jsonnf", ["--disable_file"], "out.json"),
                               ("pddf", ["-f", "pddf"], "out.txt"),
                               ("pddfnf", ["-f", "pddf", "--disable_file"], "out.txt")]:
        if tag not in configs:
            continue
        d = outdir(tag)
        try:
            a, rc = _run_acelyzer(["-i", inp, "-o", os.path.join(d, target), "-D", "0"] + extra)
            if rc != 0:
                raise RuntimeError(f"rc={rc}")
            results[tag] = (a, d, target)
        except (Exception, SystemExit) as e:  # noqa: BLE001
            fail("e2e_exception", "run completes", f"{type(e).__name__}: {e}"[:300], config=tag, exc=type(e).__name__)
    # ---- TensorBoard: files + memory, with and without save_to_file
    for tag in ("tb", "tbnf"):
        if tag not in results:
            continue
        a, d, target = results[tag]
        exp = a.exporter
        if type(exp).__name__ != "TensorBoardFileTraceExporter":
            fail("e2e_wrong_exporter", "TensorBoardFileTraceExporter", type(exp).__name__, config=tag)
            continue
        comb = json.loads(a.get_output_data())
        cev, cdev = comb["traceEvents"], list(exp.traceview.device_data)
        obs = observe_tb(exp, d, _content_uids(cev), _content_uids(cdev), e2e=True)
        case = {"events": [[i, _keyspec(e.get("pid"))] for i, e in enumerate(cev)],
                "devices": [[i, _keyspec(x.get("id"))] for i, x in enumerate(cdev)],
                "save": tag == "tb", "target": target, "ranks": sorted(sc["pids"]),
                "with_m1": any(e.get("pid") == -1 for e in cev)}
        # ground truth: every rank of the input files is present in the export (pid r or its host pid 1000+r).
        # The export may hold one more pid: tb_refinement's DeviceRankInfo emits the process metadata of a rank
        # without host (or without device) events under the default pid 0 ("cpu_default"/"acc_default"), so rank 0
        # can be present in the EXPORT without a rank-0 input file; the exporter then rightly makes a worker 0 for
        # those exported events (the oracle below works on the exported pids).  Counted in the distribution.
        extra = ranks_of(case) - set(sc["pids"])
        case["ranks_only_in_export"] = sorted(extra)
        if not set(sc["pids"]) <= ranks_of(case) or not extra <= {0}:
            fail("e2e_exported_ranks_differ_from_input_ranks", sorted(sc["pids"]), sorted(ranks_of(case)), config=tag)
        if "big" not in sc:             # the long traces are for the oracle only (no Coq literal)
            tb_cases.append((case, obs))
        for f in oracle_tb(case, obs, "e2e"):
            f["signature"]["config"] = tag
            fails.append(f)
    if "tb" in results and "tbnf" in results:
        ea = json.loads(results["tb"][0].get_output_data())["traceEvents"]
        eb = json.loads(results["tbnf"][0].get_output_data())["traceEvents"]
        if ea != eb:
            fail("tb_combined_differs_with_disable_file", len(ea), len(eb))
    # ---- JSON vs DataFrame of the same inputs
    jx = None
    if "json" in results:
        a, d, target = results["json"]
        jf = json.load(open(os.path.join(d, target)))
        jm = json.loads(a.get_output_data())
        if jf["traceEvents"] != jm["traceEvents"]:
            fail("json_file_differs_from_get_output_data", len(jm["traceEvents"]), len(jf["traceEvents"]))
        jx = [e for e in jm["traceEvents"] if e.get("ph") == "X"]
        if "jsonnf" in results:
            a2, d2, _ = results["jsonnf"]
            if json.loads(a2.get_output_data())["traceEvents"] != jm["traceEvents"]:
                fail("json_differs_with_disable_file", "same events", "different events")
            if os.path.exists(os.path.join(d2, target)):
                fail("json_file_written_despite_disable_file", "no file", target)
    dfs = {}
    for tag in ("pddf", "pddfnf"):
        if tag not in results:
            continue
        a, d, target = results[tag]
        df = a.get_output_data()
        if type(a.exporter).__name__ != "DataframeExporter" or df is None or list(df.columns) != DF_COLS:
            fail("df_columns", DF_COLS, str(type(df)), config=tag)
            continue
        rows = [[_py(v) for v in t] for t in df.itertuples(index=False, name=None)]
        dfs[tag] = rows
        if jx is not None:
            for f in oracle_df_rows(rows, jx, "e2e"):
                f["signature"]["config"] = tag
                fails.append(f)
        written = os.path.exists(os.path.join(d, target))
        if written != (tag == "pddf"):
            fail("df_file_vs_save_to_file", tag == "pddf", written, save=(tag == "pddf"))
        if written and jx is not None:
            # the table that was written, read back line by line
            try:
                trows = parse_table(open(os.path.join(d, target)).read())
            except Exception as e:  # noqa: BLE001
                trows = enc.Err(type(e).__name__)
            for f in oracle_df_table(trows, jx, "e2e"):
                f["signature"]["config"] = tag
                fails.append(f)
    if len(dfs) == 2 and dfs["pddf"] != dfs["pddfnf"]:
        fail("df_differs_with_disable_file", len(dfs["pddf"]), len(dfs["pddfnf"]))
    if "big" in sc:
        for f in fails:
            f["signature"]["large"] = True
    return tb_cases, fails, (len(jx) if jx is not None else 0)


def e2e_failure(ctx, sc, env, shrink=True):
    indir, paths, outroot = env
    _, fs, _ = drive_e2e(ctx, sc, indir, paths, outroot)
    if not fs:
        return None
    kind = fs[0]["signature"]["kind"]

    def bad(s):
        return any(f["signature"]["kind"] == kind for f in drive_e2e(ctx, s, indir, paths, outroot)[1])
    if shrink and "big" in sc:
        # a size effect: bisect the length of the trace (same ranks / seed) within a time budget
        t0 = time.time()
        tot = sum(sc["big"]["n"])

        cfg = fs[0]["signature"].get("config")
        narrow = ["json", cfg] if cfg in ("pddf", "pddfnf") else sc.get("configs")

        def scaled(m, configs=narrow):
            return dict(sc, configs=configs, big=dict(sc["big"], n=[max(1, x * m // tot) for x in sc["big"]["n"]]))
        lo, hi = 0, tot
        while hi - lo > 1 and time.time() - t0 < 15:
            mid = (lo + hi) // 2
            if bad(scaled(mid)):
                hi = mid
            else:
                lo = mid
        sc = scaled(hi, sc.get("configs"))
        fs = [f for f in drive_e2e(ctx, sc, indir, paths, outroot)[1] if f["signature"]["kind"] == kind] or fs
    elif shrink:
        t0 = time.time()
        # fewer events per rank (keep at least one so that every rank stays present)
        for k in range(len(sc["files"])):
            j = 0
            while len(sc["files"][k]) > 1 and j < len(sc["files"][k]) and time.time() - t0 < 20:
                ev = sc["files"][k][j]
                rest = [e for e in sc["files"][k] if not (e is ev or (e["name"] == ev["name"] and e["ph"] in "BE"
                                                                   and ev["ph"] in "BE"))]
                cand = dict(sc, files=sc["files"][:k] + [rest] + sc["files"][k + 1:])
                if rest and bad(cand):
                    sc = cand
                else:
                    j += 1
        # fewer ranks (drop the last one while the failure stays)
        while len(sc["files"]) > 2 and time.time() - t0 < 30:
            cand = dict(sc, files=sc["files"][:-1], pids=sc["pids"][:-1], R=len(sc["files"]) - 1)
            if bad(cand):
                sc = cand
            else:
                break
        fs = [f for f in drive_e2e(ctx, sc, indir, paths, outroot)[1] if f["signature"]["kind"] == kind] or fs
    f = fs[0]
    return {"input": {"kind": "e2e", "scenario": sc}, "expected": f["expected"], "observed": f["observed"],
            "signature": f["signature"]}


# ======================================================================= corpus
def load_corpus():
    d = os.path.join(coqrun.VERIF, "corpus", ID)
    out = []
    if os.path.isdir(d):
        for fn in sorted(os.listdir(d)):
            if fn.endswith(".json"):
                j = json.load(open(os.path.join(d, fn)))
                j["_file"] = fn
                out.append(j)
    return out


# ======================================================================= check
def run(ctx):
    r = ctx.rng
    wd = _mkdir(ctx, "direct")
    indir, paths = e2e_paths(ctx)
    outroot = _mkdir(ctx, "e2e_out")
    env = (indir, paths, outroot)
    oracle_failures, mismatches, notes = [], [], []
    phase_t, t_phase = {}, [time.time()]

    def phase(name):
        phase_t[name] = round(time.time() - t_phase[0], 1)
        t_phase[0] = time.time()

    def n_fail(kind):
        return sum(1 for f in oracle_failures if f["input"]["kind"] == kind)
    dist = {"tb_direct": {"asserted_multi_rank": 0, "dense_0_to_R-1": 0, "sparse_or_offset": 0, "single_or_no_rank": 0,
                          "tie_only": 0, "malformed": {}, "grid": 0, "corpus": 0, "ranks": {}, "with_m1": 0,
                          "save_false": 0, "odd_target": 0, "duplicates": 0},
            "df_direct": {"cases": 0, "malformed": 0, "slices": 0, "non_slices": 0, "tables_read_back": 0,
                          "large_cases": 0, "large_sizes": [], "large_tables_read_back": 0},
            "e2e": {"scenarios": 0, "ranks": {}, "dense_0_to_R-1": 0, "sparse_or_offset": 0, "single_rank": 0,
                    "runs": 0, "exported_slices": 0, "tb_runs_with_default_pid0_metadata_only_rank0": 0,
                    "long_traces": []}}
    try:
        # ---------------------------------------------------------------- TB direct
        corpus = load_corpus()
        tb_cases = [c["case"] for c in corpus if c.get("kind") == "tb_direct"]
        dist["tb_direct"]["corpus"] = len(tb_cases)
        grid = tb_grid(ctx.pick(4, 5))
        dist["tb_direct"]["grid"] = len(grid)
        tb_cases += grid
        for _ in range(ctx.pick(1500, 20000)):
            x = r.random()
            tb_cases.append(gen_tb_ranks(r, big=x < 0.06) if x < 0.75 else gen_tb_malformed(r))
        tb_terms, tb_obs = [], []
        seen_nt = set()
        t_stream, n_bad = time.time(), 0
        for ci, c in enumerate(tb_cases):
            if n_bad >= 60 or time.time() - t_stream > ctx.pick(150, 900):
                notes.append(f"tb_direct stream stopped after {ci} of {len(tb_cases)} cases "
                             f"({n_bad} failing cases, {time.time() - t_stream:.0f}s)")
                tb_cases = tb_cases[:ci]
                break
            obs = drive_tb(c, wd)
            tb_obs.append(obs)
            tb_terms.append((coq_tb_case(c), enc.V(obs)))
            ofs = oracle_tb(c, obs, "direct")
            n_bad += int(bool(ofs))
            for f in ofs:
                if n_fail("tb_direct") < 15:
                    # the case exported just before is kept as history: state left over between exporter
                    # instances shows only in a sequence
                    oracle_failures.append({"input": {"kind": "tb_direct", "case": c,
                                                      "history": tb_cases[ci - 1:ci] if ci else []}, **f})
            rk = ranks_of(c)
            if len(rk) >= 2:
                seen_nt.add(("tb", json.dumps([c["events"], c["devices"], c["save"], c["target"]])))
            d = dist["tb_direct"]
            if not tb_in_scope(c):
                d["tie_only"] += 1
            elif len(rk) >= 2:
                d["asserted_multi_rank"] += 1
                d["ranks"][len(rk)] = d["ranks"].get(len(rk), 0) + 1
                d["dense_0_to_R-1" if rk == set(range(len(rk))) else "sparse_or_offset"] += 1
            else:
                d["single_or_no_rank"] += 1
            if "malformed" in c:
                d["malformed"][c["malformed"]] = d["malformed"].get(c["malformed"], 0) + 1
            d["with_m1"] += int(bool(c.get("with_m1")))
            d["save_false"] += int(not c["save"])
            d["odd_target"] += int(c["target"] not in TARGETS_PLAIN)
            d["duplicates"] += int(len({u for u, _ in c["events"]}) < len(c["events"]))
        phase("tb_direct_drive")
        # ---------------------------------------------------------------- e2e
        scs = [c["scenario"] for c in corpus if c.get("kind") == "e2e"]
        for _ in range(ctx.pick(2, 12)):            # the long traces first: they must not fall to the time limit
            scs.append(gen_big_scenario(r, 5000, ctx.pick(9000, 20000)))
        for _ in range(ctx.pick(150, 1500)):
            scs.append(gen_scenario(r, malformed=r.random() < 0.08))
        e2e_cases = []
        t_stream, n_bad = time.time(), 0
        for si, sc in enumerate(scs):
            if n_bad >= 40 or time.time() - t_stream > ctx.pick(180, 1200):
                notes.append(f"e2e stream stopped after {si} of {len(scs)} scenarios "
                             f"({n_bad} failing scenarios, {time.time() - t_stream:.0f}s)")
                scs = scs[:si]
                break
            cases, fs, nx = drive_e2e(ctx, sc, indir, paths, outroot)
            n_bad += int(bool(fs))
            dist["e2e"]["scenarios"] += 1
            dist["e2e"]["runs"] += len(sc.get("configs") or E2E_CONFIGS)
            dist["e2e"]["exported_slices"] += nx
            if "big" in sc:
                dist["e2e"]["long_traces"].append({"ranks": sc["pids"], "input_slices": sum(sc["big"]["n"]),
                                                   "exported_slices": nx, "configs": sc["configs"]})
            dist["e2e"]["ranks"][len(sc["pids"])] = dist["e2e"]["ranks"].get(len(sc["pids"]), 0) + 1
            dist["e2e"]["single_rank" if len(sc["pids"]) < 2 else
                        ("dense_0_to_R-1" if sc["pids"] == list(range(len(sc["pids"]))) else "sparse_or_offset")] += 1
            for f in fs:
                if n_fail("e2e") < 15:
                    oracle_failures.append({"input": {"kind": "e2e", "scenario": sc}, **f})
            for c, obs in cases:
                dist["e2e"]["tb_runs_with_default_pid0_metadata_only_rank0"] += int(bool(c.get("ranks_only_in_export")))
                e2e_cases.append((c, sc))
                tb_terms.append((coq_tb_case(c), enc.V(obs)))
                if len(ranks_of(c)) >= 2:
                    seen_nt.add(("e2e", json.dumps([sc_key(sc), c["save"], c["target"]])))
        phase("e2e_drive")
        n_direct = len(tb_cases)
        bad, extras, secs = coqrun.run_cases(
            "C18_tb", "From AiuModel Require Import Export.", "(((list tbev * list tbev) * bool) * string)", "tb_val",
            tb_terms, extra="Open Scope nat_scope.\nDefinition nt := Eval vm_compute in (count_if tb_nontrivial cases).\nPrint nt.")
        for j in bad[:6]:
            if j < n_direct:
                mismatches.append({"name": "correspondence Export.tb_val vs TensorBoardFileTraceExporter (direct drive)",
                                   "case": tb_cases[j], "impl": tb_terms[j][1][:600]})
            else:
                c, sc = e2e_cases[j - n_direct]
                mismatches.append({"name": "correspondence Export.tb_val vs Acelyzer --tb (end to end)",
                                   "case": {"tb_case": c, "scenario": sc}, "impl": tb_terms[j][1][:600]})
        ties = [{"name": "Export.tb_val = TensorBoardFileTraceExporter (direct drive + end to end)",
                 "cases": len(tb_terms), "direct": n_direct, "e2e": len(tb_terms) - n_direct,
                 "mismatching": len(bad), "coq_seconds": round(secs, 1), "nontrivial_in_coq": extras.get("nt")}]
        phase("coq_tb")
        # ---------------------------------------------------------------- DF direct
        df_all = [c["case"] for c in corpus if c.get("kind") == "df_direct"]
        df_cases = [c for c in df_all if "big" not in c]
        df_big = [c for c in df_all if "big" in c]
        for _ in range(ctx.pick(600, 6000)):
            df_cases.append(gen_df_case(r, malformed=r.random() < 0.15))
        df_terms = []
        t_stream = time.time()
        for ci, c in enumerate(df_cases):
            if n_fail("df_direct") >= 15 and ci > 100 or time.time() - t_stream > ctx.pick(120, 600):
                notes.append(f"df_direct stream stopped after {ci} of {len(df_cases)} cases")
                df_cases = df_cases[:ci]
                break
            obs, jx, table = drive_df(c, wd)
            df_terms.append((coq_df_case(c), enc.V(obs)))
            if not c.get("malformed") or True:
                f = None
                if isinstance(obs, enc.Err) or isinstance(obs[0], enc.Err) or oracle_df_rows(obs[0], jx, "direct") \
                        or obs[1] != c["save"] or (table is not None and oracle_df_table(table, jx, "direct")):
                    f = df_direct_failure(c, wd, shrink=False)
                if f and n_fail("df_direct") < 15:
                    oracle_failures.append(f)
            d = dist["df_direct"]
            d["cases"] += 1
            d["tables_read_back"] += int(table is not None)
            d["malformed"] += int(bool(c.get("malformed")))
            d["slices"] += sum(1 for e in c["events"] if e["k"] == "X")
            d["non_slices"] += sum(1 for e in c["events"] if e["k"] != "X")
            if sum(1 for e in c["events"] if e["k"] == "X") >= 1 and len({e["args"].get("rank", 0) for e in c["events"]
                                                                         if e["k"] == "X"}) >= 2:
                seen_nt.add(("df", json.dumps(c["events"], sort_keys=True)))
        phase("df_direct_drive")
        # large exports (size region): oracle only, no Coq literal
        for _ in range(ctx.pick(14, 200)):
            df_big.append(gen_df_big(r))
        t_stream = time.time()
        for ci, c in enumerate(df_big):
            if time.time() - t_stream > ctx.pick(40, 300):
                notes.append(f"df_direct large stream stopped after {ci} of {len(df_big)} cases")
                df_big = df_big[:ci]
                break
            fs = df_case_failures(c, wd)
            if fs and n_fail("df_direct") < 15:
                f = fs[0]
                oracle_failures.append({"input": {"kind": "df_direct", "case": c}, "expected": f["expected"],
                                        "observed": f["observed"], "signature": dict(f["signature"], large=True)})
            d = dist["df_direct"]
            d["large_cases"] += 1
            d["large_sizes"].append(c["big"]["n"])
            d["large_tables_read_back"] += int(c["save"])
            seen_nt.add(("df", json.dumps(c, sort_keys=True)))
        dist["df_direct"]["large_sizes"].sort()
        phase("df_direct_large")
        bad2, _, secs2 = coqrun.run_cases(
            "C18_df", "From AiuModel Require Import Export.", "(list tvev * bool)", "df_val", df_terms)
        for j in bad2[:4]:
            mismatches.append({"name": "correspondence Export.df_val vs DataframeExporter (direct drive)",
                               "case": df_cases[j], "impl": df_terms[j][1][:600]})
        ties.append({"name": "Export.df_val = DataframeExporter.get_data() rows", "cases": len(df_terms),
                     "mismatching": len(bad2), "coq_seconds": round(secs2, 1)})
        phase("coq_df")
        # ---------------------------------------------------------------- shrink what the oracle found
        shrunk, kinds = [], set()
        order = {"tb_direct": 0, "df_direct": 1, "e2e": 2}
        oracle_failures.sort(key=lambda f: order[f["input"]["kind"]])      # smallest replays first
        for f in oracle_failures:
            k = (f["input"]["kind"], json.dumps(f["signature"], sort_keys=True))
            if k in kinds or len(shrunk) >= 4:
                continue
            kinds.add(k)
            try:
                if f["input"]["kind"] == "tb_direct":
                    g = tb_direct_failure(f["input"]["case"], wd)
                    if g:
                        g["input"]["history"] = f["input"].get("history", [])
                elif f["input"]["kind"] == "df_direct":
                    g = df_direct_failure(f["input"]["case"], wd)
                else:
                    g = e2e_failure(ctx, f["input"]["scenario"], env)
            except Exception as e:  # noqa: BLE001
                notes.append("shrink crashed: " + repr(e)[:200])
                g = None
            shrunk.append(g or f)
        # direct-drive failures first: they are the smallest replays
        shrunk.sort(key=lambda f: order[f["input"]["kind"]])
        phase("shrink")
        notes.append("seconds per phase: " + json.dumps(phase_t))
        n_tb_nt = len([1 for k in seen_nt if k[0] in ("tb", "e2e")])
        return {
            "evaluations": len(tb_terms) + len(df_terms) + len(df_big) + 4 * len(scs),
            "distinct_nontrivial": len(seen_nt),
            "rule": "distinct cases with >= 2 ranks: TB cases (direct drive: distinct (events, devices, save_to_file, "
                    "target); end to end: distinct (scenario files, save_to_file, target)) whose exported events carry "
                    f">= 2 distinct non-negative folded rank ids ({n_tb_nt}), plus DataFrame cases with >= 1 slice and "
                    f">= 2 distinct ranks among the slices, incl. the large ones ({len(seen_nt) - n_tb_nt}). The same >= 2-ranks rule "
                    f"evaluated inside Coq over all TB cases incl. duplicates: {extras.get('nt')}. "
                    f"Exhaustive part: every pid list of length <= {ctx.pick(4, 5)} over "
                    "{-1,0,1,2,1000,1001} (" + str(len(grid)) + " cases).",
            "samples": [tb_cases[len(grid) + dist["tb_direct"]["corpus"] + 1] if len(tb_cases) > len(grid) + 1 else {},
                        df_cases[-1] if df_cases else {},
                        {"scenario_pids": scs[-1]["pids"], "files": [len(f) for f in sc_files(scs[-1])]} if scs else {}],
            "mismatches": mismatches, "oracle_failures": shrunk, "ties": ties, "distribution": dist,
            "exhaustive": True, "notes": notes,
            "traces_validated_against_impl": len(tb_terms) + len(df_terms),
        }
    finally:
        shutil.rmtree(wd, ignore_errors=True)
        shutil.rmtree(outroot, ignore_errors=True)
        shutil.rmtree(indir, ignore_errors=True)


def search(ctx, res, broken):
    """something broke but the oracle of the run was silent: oracle only, on a fresh larger stream"""
    r = random.Random(ctx.seed + 101)
    wd = _mkdir(ctx, "search")
    indir, paths = e2e_paths(ctx)
    outroot = _mkdir(ctx, "search_out")
    t0 = time.time()
    limit = ctx.pick(60, 600)
    try:
        for c in tb_grid(4):
            f = tb_direct_failure(c, wd)
            if f:
                return [f]
        n = 0
        while time.time() - t0 < limit and n < ctx.pick(15000, 150000):
            n += 1
            f = tb_direct_failure(gen_tb_ranks(r, big=r.random() < 0.1), wd)
            if f:
                return [f]
            f = df_direct_failure(gen_df_case(r, malformed=r.random() < 0.2), wd)
            if f:
                return [f]
            if n % 25 == 0:
                f = df_direct_failure(gen_df_big(r), wd)
                if f:
                    return [f]
            if n % 10 == 0:
                f = e2e_failure(ctx, gen_scenario(r), (indir, paths, outroot))
                if f:
                    return [f]
        return []
    finally:
        shutil.rmtree(wd, ignore_errors=True)
        shutil.rmtree(outroot, ignore_errors=True)
        shutil.rmtree(indir, ignore_errors=True)


def replay(ctx, payload):
    f = payload.get("failing")
    if not f:
        return True, "replay file names only broken obligations: " + str(payload.get("broken"))[:500]
    inp = f["input"]
    wd = _mkdir(ctx, "replay")
    try:
        if inp["kind"] == "tb_direct":
            g = tb_direct_failure(inp["case"], wd, shrink=False)
            if g is None and inp.get("history"):
                # not failing on its own: replay it after the export that preceded it in the failing run
                for h in inp["history"]:
                    drive_tb(h, wd)
                g = tb_direct_failure(inp["case"], wd, shrink=False)
                if g:
                    g["signature"] = dict(g["signature"], needs_history=True)
        elif inp["kind"] == "df_direct":
            g = df_direct_failure(inp["case"], wd, shrink=False)
        else:
            indir, paths = e2e_paths(ctx)
            outroot = _mkdir(ctx, "replay_out")
            try:
                g = e2e_failure(ctx, inp["scenario"], (indir, paths, outroot), shrink=False)
            finally:
                shutil.rmtree(outroot, ignore_errors=True)
                shutil.rmtree(indir, ignore_errors=True)
        if g is None:
            return True, {"oracle": "holds on this input"}
        return False, {"expected": g["expected"], "observed": g["observed"], "signature": g["signature"]}
    finally:
        shutil.rmtree(wd, ignore_errors=True)
