"""C12 — kernel summary CSVs agree with the exported trace.

Ties (all compared inside Coq by vm_compute, model = coq/theories/Stats.v):
  * direct: the REAL pipeline.stats.calculate_stats is called event by event on one StatsExtractionContext, then
    its drain(); <out>_summary.csv and <out>_active.csv are read back.  Stats.tie_val must reproduce: the pass-through
    of every event, the row order (pid ascending, stable descending total), pid / masked name / Calls / Total /
    Median / Min / Max / total kernel time / elapsed / start / end cells EXACTLY (exact-grid stream: every double is
    exact and "%.3f" prints the round-half-even of the exact value), and the Time / Mean / StDev / Active cells as
    correct roundings up to 1/1000 of a printed unit (they go through 2-3 double operations), and the exception
    (AssertionError for dur <= 0, KeyError for missing TSk) of malformed streams.
  * end to end: generated FLEX files (one per rank, or one rank handed over in memory: -i api://jsonbuffer) through
    Acelyzer(...).run() under several option sets and output formats; the model is evaluated on the 'Cmpt Exec'
    slices of WHATEVER EXPORT the run produced - the json file (args.orig_name when the name was rewritten), the json
    text returned by get_output_data() under --disable_file, the pandas frame of -f pddf (file or get_output_data();
    Rank / Timestamp / Duration / Event Name, names kept by --keep_names / --disable_tb) - and must reproduce the CSV
    files the same run wrote.
  Magnitudes: both streams visit LONG calls (1.5e5 .. 6e5 us = several 1e8 cycles, inside one 32-bit counter epoch)
  that are regular down to a few cycles next to ordinary kernels; repeated records: a kernel's records may be logged
  two or three times (exactly repeated), every copy is a slice of the export and a call of the statistics.
  Lane overlaps: kernels whose first slice starts a few ns (below / around / far above 5 ns) before the last slice of
  their predecessor on the lane ends, under every way of resolving them: -O tid (default), -O drop (the slice leaves
  export and statistics), -O warn, -O shift (start moved by whole ns, dur shortened, args.orig_dur kept): the CSVs
  must describe the EXPORTED slices under each.  A start moved by -O shift is off the exact grid; a case whose exactly
  compared cells come within 1e-7 of a '%.3f' midpoint is left to the oracle (near_print_midpoint).
  * names: the queue name calculate_stats creates vs Stats.name_val ('Cmpt Exec' containment, [_-]\\d+ masking).
  * file names: PipelineContextTool.generate_filename vs Stats.gen_filename.
Oracle (independent of the model, exact Fractions): per (pid, masked name) recompute calls/total/mean/median/min/
max/stdev, shares (and their sum per rank), no group missing / extra / twice, sum of Calls = number of slices, per
rank elapsed = latest end - earliest start and active = total/elapsed, CSV files at <output stem>_summary/_active.csv;
the text file of a saved frame lists per rank as many kernel rows as the statistics counted calls.
"""
import contextlib
import copy
import glob
import hashlib
import io
import json
import os
import random
import re
import shutil
import tempfile
import time
import zlib
from decimal import Decimal, getcontext
from fractions import Fraction

from common import coqrun, enc

ID = "C12"
PROP_FILE = "props/C12.v"
MODEL_TARGETS = ["theories/Stats.vo"]
THEOREMS = ["C12_run_guard", "C12_groups_partition", "C12_rows_are_the_groups", "C12_row_statistics",
            "C12_stat_ok_unfold", "C12_stdev_cell", "C12_cell_rounding", "C12_shares", "C12_active",
            "C12_active_true_extremes", "C12_export_agrees", "C12_stages_after_stats", "C12_csv_next_to_output"]
ALLOWED_AXIOMS = []
MANIFEST = {
    "text": "Proof. Coq theorems over an executable model (Stats.v) of calculate_stats / StatsExtractionContext.drain "
            "for ALL event streams (any number of ranks, kernels, names, calls; no bound): the groups partition the "
            "'Cmpt Exec' slices by (masked name, pid) - each group holds exactly, in order and with multiplicity, the "
            "durations of the slices with its key, keys are distinct, the Calls add up to the number of slices "
            "(C12_run_guard, C12_groups_partition); the summary rows are a permutation of the groups "
            "(C12_rows_are_the_groups) and carry Calls = length, Total = sum, Mean*Calls = Total, Min/Max = attained "
            "bounds, Median = middle of the sorted multiset, (Calls-1)*Var = sum of squared deviations, the printed "
            "StDev within half a printed unit of sqrt(Var) (C12_row_statistics, C12_stat_ok_unfold, C12_stdev_cell); the shares "
            "of a rank sum to 100 (C12_shares); per rank total = sum of its kernel durations, elapsed = end - start with "
            "start = min(1e30, starts), end = max(0, ends), the true extremes for slices ending at or after 0, "
            "active = total/elapsed*100 (C12_active, C12_active_true_extremes); printed cells are within half a unit "
            "(C12_cell_rounding); if the kernel slices of the exported file are, as (masked name, pid, ts, dur), any "
            "PERMUTATION of those the stage saw, every CSV row carries the statistics recomputed from the export and "
            "rows/ranks are exactly the keys/ranks of the export (C12_export_agrees) and the stages registered after calculate_stats are exactly the listed "
            "ones, the only dropping one guarded by --filter (C12_stages_after_stats, on the generated registration "
            "program). The model is tied to the code on every run: direct drive of calculate_stats + drain with the CSV "
            "files read back, and end to end through Acelyzer with the model evaluated on the slices of whatever export "
            "the run produced (json file, get_output_data() text, pandas frame of -f pddf), including long regular "
            "calls (several 1e8 cycles) and exactly repeated kernel records.",
    "note": "Print Assumptions: closed under the global context for every theorem. Trusted: Coq kernel + vm_compute; "
            "the hand-written model is tied by differential testing only (exact-grid stream: times multiples of "
            "2^-10 us, f a power of two); double rounding is not modelled: Time/Mean/StDev/Active cells are compared "
            "as correct roundings up to 1/1000 of a printed unit, all other cells exactly; hash((name, pid)) is taken "
            "collision-free; C12_export_agrees is a contract on the later stages (checked end to end by the tie, not "
            "proved about their code); the 'PT Active' counter branch (C11) and <out>_ts_analysis.csv are not "
            "modelled; quirks kept and stated: end = max(0.0, ends), start = min(1e30, starts); --filter/-F removes "
            "slices after the statistics were taken and is outside the domain.",
    "technique": "Coq proof (snoc induction over the event stream with a state invariant; permutation/sortedness of "
                 "the stable insertion sort; Z.sqrt bounds) + vm_compute correspondence against calculate_stats/drain "
                 "and Acelyzer end to end, CSV files read back",
    "design_ref": "DESIGN.md section 4/C12",
}
TRUSTED = [
    "modelled, not verified: IEEE double rounding inside statistics.mean/stdev, total/rank_total*100 and "
    "total/elapsed*100 (cells compared as correct roundings up to 1/1000 of a printed unit); '%N.3f' printing "
    "(exact on the tie's grid: round half to even of the exact value)",
    "modelled, not verified: Python re.sub / 'in' on str (tied on adversarial names), dict insertion order, "
    "stability of sorted(reverse=True), hash((name, pid)) collision-free",
    "end-to-end tie reads the combined exported json (file, or get_output_data() text under --disable_file); a "
    "kernel slice is an X event whose args.orig_name (else name) contains 'Cmpt Exec'; for -f pddf it reads the "
    "frame returned by get_output_data(): a kernel slice is a row whose 'Event Name' contains 'Cmpt Exec', its rank "
    "the 'Rank' cell (= pid for FLEX input); the saved text of the frame is only counted (kernel rows per rank)",
    "not modelled: 'PT Active' utilisation counters (collect_util), <out>_ts_analysis.csv, logging",
]
ASSUMPTIONS = [
    "kernel slices have dur > 0 and args.TS1..TS5 (else the code raises AssertionError / KeyError; the model agrees)",
    "slices end at or after 0 and start below 1e30 (default event limiter) for 'elapsed = latest end - earliest start'",
    "no -F/--filter (it drops events after the statistics stage), no -t; pids are integers; no -O async (aborts "
    "with KeyError 'dur' on a partial overlap, DESIGN.md section 6)",
    "slices trimmed by -O shift are off the exact grid: the Coq tie skips a case whose exactly compared cells lie "
    "within 1e-7 of a '%.3f' midpoint (the oracle, with its tolerance of 1/1000 printed unit, judges every case)",
    "-f pddf is claimed with --keep_names or --disable_tb only (the frame has no args.orig_name, rewritten names "
    "cannot be masked as in the file); a rank's device cycles stay inside one 32-bit counter epoch",
    "the exported kernel slices (name = args.orig_name when renamed) are a permutation, as (masked name, pid, ts, "
    "dur), of the slices that reached calculate_stats (contract of C12_export_agrees on the later stages; checked "
    "by the end-to-end tie on every run, the stage list itself by C12_stages_after_stats)",
]

MASK = re.compile(r"[_-][0-9]+")
COQ_IMPORTS = "From AiuModel Require Import Stats."
COQ_TY = "(list ev * (list (Z * Z * Z) * list Z))"
G = 1024            # grid: multiples of 2^-10
E2E_OPTS = [[], ["--tb"], ["--keep_names"], ["--disable_tb"], ["--keep_prep"], ["-O", "tid"], ["--drop_globals"],
            ["-M"], ["-O", "shift"], ["-O", "drop"], ["-O", "warn"]]
# ways to resolve slices that partially overlap their predecessor on one lane (-O tid is the default; -O async is
# outside the domain: it aborts with KeyError 'dur' on the unchanged tree, DESIGN.md section 6)
OVERLAP_OPTS = [["-O", "shift"], ["-O", "shift"], ["-O", "shift"], ["-O", "drop"], ["-O", "warn"], ["-O", "tid"], [],
                ["-O", "shift", "--tb"], ["-O", "shift", "--keep_names"], ["-O", "shift", "--disable_tb"],
                ["-O", "shift", "--keep_prep"], ["-O", "drop", "--keep_names"], ["-O", "warn", "--tb"],
                ["-O", "shift", "-M"], ["-O", "drop", "--keep_prep"], ["-O", "warn", "--drop_globals"]]
PHASES = ["DmaI", "Cmpt Prep", "Cmpt Exec", "DmaO"]


def _quiet():
    return contextlib.redirect_stdout(io.StringIO()), contextlib.redirect_stderr(io.StringIO())


def _bump(d, k):
    d[str(k)] = d.get(str(k), 0) + 1


# ---------------------------------------------------------------- CSV reading
class BadCsv(Exception):
    pass


def _sc(s, k):
    v = Decimal(s.strip()) * k
    if v != v.to_integral_value():
        raise BadCsv(f"cell {s!r} has more than the expected decimals")
    return int(v)


def parse_summary(path):
    lines = open(path).read().split("\n")
    rows = []
    for ln in lines[1:]:
        if ln == "":
            continue
        p = ln.split("\t")
        if len(p) != 10:
            raise BadCsv(f"summary row with {len(p)} cells")
        rows.append({"time": _sc(p[0], 100), "total": _sc(p[1], 1000), "calls": int(p[2]), "mean": _sc(p[3], 1000),
                     "median": _sc(p[4], 1000), "min": _sc(p[5], 1000), "max": _sc(p[6], 1000),
                     "stdev": _sc(p[7], 1000), "pid": int(p[8]), "name": p[9][1:] if p[9][:1] == " " else p[9]})
    return rows


def parse_active(path):
    lines = open(path).read().split("\n")
    rows = []
    for ln in lines[1:]:
        if ln == "":
            continue
        p = ln.split("\t")
        if len(p) != 6:
            raise BadCsv(f"active row with {len(p)} cells")
        rows.append({"total": _sc(p[0], 1000), "elapsed": _sc(p[1], 1000), "start": _sc(p[2], 1000),
                     "end": _sc(p[3], 1000), "active": _sc(p[4], 100), "pid": int(p[5])})
    return rows


def csv_names(out):
    """the property's own reading of the CSV names: <output without its extension>_summary.csv / _active.csv"""
    stem = out.replace(".pt.trace", "")
    if "." in os.path.basename(stem):
        stem = stem[:stem.rindex(".")]
    return stem + "_summary.csv", stem + "_active.csv"


# ---------------------------------------------------------------- implementation drivers
def to_event(e):
    d = {"ph": e["ph"], "name": e["name"], "pid": e["pid"], "tid": 0, "ts": e["ts"], "dur": e["dur"],
         "args": {"uid": e["uid"]}}
    if e["tsx"]:
        c = int(e["ts"] * 8)
        for k in range(1, 6):
            d["args"][f"TS{k}"] = str(c + 100 * k)
    return d


def drive_direct(case, workdir=None):
    """calculate_stats over the events, then drain(); returns the observation dict (or {'err': tag})."""
    from aiu_trace_analyzer.pipeline.stats import StatsExtractionContext, calculate_stats
    d = tempfile.mkdtemp(prefix="c12d_", dir=workdir)
    o, e_ = _quiet()
    try:
        out = os.path.join(d, case.get("out", "res.json"))
        with o, e_:
            try:
                ctx = StatsExtractionContext(stats_filename=out)
                passed = []
                for e in case["events"]:
                    r = calculate_stats(to_event(e), ctx)
                    passed += [x["args"]["uid"] for x in r]
                r = ctx.drain()
                if r != []:
                    return {"err": "DrainReturned%d" % len(r)}
            except Exception as ex:  # noqa: BLE001
                return {"err": type(ex).__name__}
        fs, fa = csv_names(out)
        if not (os.path.exists(fs) and os.path.exists(fa)):
            return {"err": "CsvMissing"}
        try:
            return {"passed": passed, "rows": parse_summary(fs), "acts": parse_active(fa), "slices": case["events"]}
        except (BadCsv, ValueError, ArithmeticError) as ex:
            return {"err": "BadCsv", "detail": str(ex)}
    finally:
        shutil.rmtree(d, ignore_errors=True)


def scenario_files(sc):
    """FLEX events per rank: every kernel has counters c1<=..<=c5 shared by its phase slices; host ts = H + c_ref/f."""
    f = sc["f"]
    files = []
    uid = 0
    for rk in sc["ranks"]:
        evs = []
        for k in rk["kernels"]:
            cs = k["c"]
            rec = []
            for pi, ph in enumerate(PHASES):
                if ph not in k["phases"]:
                    continue
                uid += 1
                rec.append({"ph": "X", "pid": rk["pid"], "tid": 7, "name": f'{k["base"]} {ph}',
                            "ts": rk["H"] + cs[pi] / f, "dur": (cs[pi + 1] - cs[pi]) / f,
                            "args": {**{f"TS{j + 1}": str(cs[j]) for j in range(5)}, "uid": uid}})
            # "rep": the runtime logged this kernel's records rep times (exactly repeated records, uid included)
            for _ in range(k.get("rep", 1)):
                evs += copy.deepcopy(rec)
        for h in rk.get("host", []):
            uid += 1
            evs.append({"ph": "X", "pid": rk["pid"], "tid": 3, "name": h["name"], "ts": h["ts"], "dur": h["dur"],
                        "args": {"uid": uid}})
        evs.sort(key=lambda x: x["ts"])
        files.append((rk["pid"], evs))
    return files


def _kernel_slices_json(doc):
    slices = []
    for x in doc["traceEvents"]:
        a = x.get("args") if isinstance(x.get("args"), dict) else {}
        name = a.get("orig_name", x.get("name", ""))
        if x.get("ph") == "X" and "Cmpt Exec" in name:
            slices.append({"ph": "X", "name": name, "pid": x["pid"], "ts": x["ts"], "dur": x["dur"],
                           "tsx": all(f"TS{k}" in a for k in range(1, 6)), "uid": a.get("uid", -1)})
    return slices


def _kernel_slices_frame(df):
    """rows of the exported pandas frame (-f pddf): Rank / Timestamp / Duration / Event Name"""
    slices = []
    for rank, ts, dur, name in zip(df["Rank"], df["Timestamp"], df["Duration"], df["Event Name"]):
        if isinstance(name, str) and "Cmpt Exec" in name:
            slices.append({"ph": "X", "name": name, "pid": int(rank), "ts": float(ts), "dur": float(dur),
                           "tsx": True, "uid": -1})
    return slices


def drive_e2e(case, workdir=None):
    """Acelyzer end to end; observation = CSV rows + the 'Cmpt Exec' slices of whatever export the run produced:
    the json file, the json text / pandas frame returned by get_output_data() (--disable_file, -f pddf)."""
    from aiu_trace_analyzer.core.acelyzer import Acelyzer
    d = tempfile.mkdtemp(prefix="c12e_", dir=workdir)
    o, e_ = _quiet()
    fmt = case.get("fmt", "json")
    nofile = bool(case.get("nofile"))
    try:
        os.makedirs(os.path.join(d, "in"))
        os.makedirs(os.path.join(d, "out"))
        paths, ids = [], set()
        files = scenario_files(case)
        in_data = None
        if case.get("api_in") and len(files) == 1:
            in_data = json.dumps(files[0][1]).encode()
            paths = ["api://jsonbuffer"]
        else:
            for pid, evs in files:
                salt = 0
                while True:
                    p = os.path.join(d, "in", f"r{pid}_{salt}.json")
                    jid = zlib.crc32(p.encode()) % 10000
                    if jid not in ids:
                        ids.add(jid)
                        break
                    salt += 1
                with open(p, "w") as fh:
                    json.dump(evs, fh)
                paths.append(p)
        out = os.path.join(d, "out", case.get("out", "res.json"))
        os.makedirs(os.path.dirname(out), exist_ok=True)
        argv = ["-i", ",".join(paths), "-o", out, "--freq", repr(case["f"]), "-D", "0"] + list(case.get("opts", []))
        if fmt != "json":
            argv += ["-f", fmt]
        if nofile:
            argv += ["--disable_file"]
        data = None
        with o, e_:
            try:
                ace = Acelyzer(argv) if in_data is None else Acelyzer(argv, in_data=in_data)
                rc = ace.run()
                if rc == 0 and (nofile or fmt != "json"):
                    data = ace.get_output_data()
                del ace
            except SystemExit as ex:
                return {"err": "SystemExit%s" % ex.code}
            except Exception as ex:  # noqa: BLE001
                return {"err": type(ex).__name__}
        if rc != 0:
            return {"err": "rc%s" % rc}
        fs, fa = csv_names(out)
        if not (os.path.exists(fs) and os.path.exists(fa)):
            return {"err": "CsvMissing", "detail": sorted(os.listdir(os.path.join(d, "out")))}
        extra = {}
        if fmt == "pddf":
            if data is None or not hasattr(data, "columns"):
                return {"err": "ExportMissing", "detail": "get_output_data() returned no frame"}
            try:
                slices = _kernel_slices_frame(data)
            except (KeyError, ValueError, TypeError) as ex:
                return {"err": "BadFrame", "detail": repr(ex)}
            if not nofile:
                if not os.path.isfile(out):
                    return {"err": "ExportMissing", "detail": sorted(os.listdir(os.path.join(d, "out")))}
                # the text file of the frame: first cell of a row is the rank, kernel rows name 'Cmpt Exec'
                per = {}
                for ln in open(out).read().split("\n")[1:]:
                    if "Cmpt Exec" in ln:
                        _bump(per, ln.split()[0])
                extra["file_kernel_rows"] = per
        elif nofile:
            if not isinstance(data, str):
                return {"err": "ExportMissing", "detail": "get_output_data() returned no json text"}
            slices = _kernel_slices_json(json.loads(data))
        else:
            js = [out] if os.path.isfile(out) else \
                [p for p in glob.glob(os.path.join(os.path.dirname(out), "*.json"))
                 if "_worker_" not in os.path.basename(p)]
            if len(js) != 1:
                return {"err": "ExportMissing", "detail": sorted(os.listdir(os.path.join(d, "out")))}
            slices = _kernel_slices_json(json.load(open(js[0])))
        try:
            return dict(extra, passed=[s["uid"] for s in slices], rows=parse_summary(fs), acts=parse_active(fa),
                        slices=slices)
        except (BadCsv, ValueError, ArithmeticError) as ex:
            return {"err": "BadCsv", "detail": str(ex)}
    finally:
        shutil.rmtree(d, ignore_errors=True)


def drive(case, workdir=None):
    return drive_e2e(case, workdir) if case["kind"] == "e2e" else drive_direct(case, workdir)


# ---------------------------------------------------------------- encoding for Coq
def ev_term(e):
    return (f'(mkEv {enc.S(e["ph"])} {enc.S(e["name"])} {enc.Z(e["pid"])} {enc.Q(e["ts"])} {enc.Q(e["dur"])} '
            f'{enc.B(e["tsx"])} {enc.Z(e["uid"])})')


def case_terms(case, obs):
    if "err" in obs:
        slices = case["events"] if case["kind"] == "direct" else []
        return (enc.P(enc.L([ev_term(e) for e in slices]), enc.P("[]", "[]")), enc.V(enc.Err(obs["err"])))
    rows = obs["rows"]
    if case["kind"] == "e2e":
        # the order in which slices reach the stage (hence the order of rows with equal totals) cannot be read off
        # the exported file: rows are compared as a set, sorted by (pid, name) on both sides (Stats.e2e_val)
        rows = sorted(rows, key=lambda r: (r["pid"], r["name"]))
    osum = enc.L([enc.P(enc.Z(r["time"]), enc.Z(r["mean"]), enc.Z(r["stdev"])) for r in rows])
    oact = enc.L([enc.Z(a["active"]) for a in obs["acts"]])
    inp = enc.P(enc.L([ev_term(e) for e in obs["slices"]]), enc.P(osum, oact))
    exp = [obs["passed"],
           [[r["pid"], r["name"], r["calls"], r["total"], r["median"], r["min"], r["max"]] for r in rows],
           [[a["pid"], a["total"], a["elapsed"], a["start"], a["end"]] for a in obs["acts"]],
           True]
    return inp, enc.V(exp)


# ---------------------------------------------------------------- oracle (the property, stated independently)
HALF = Fraction(1, 2) + Fraction(1, 1000)


def _fr(x):
    return Fraction(*float(x).as_integer_ratio()) if isinstance(x, float) else Fraction(x)


def is_kernel(e):
    return e["ph"] == "X" and "Cmpt Exec" in e["name"]


def oracle(slices, obs, check_extremes=True):
    """slices: the kernel slices the statistics must describe; obs: rows/acts read from the CSV files.
    Returns a list of (kind, column, detail)."""
    getcontext().prec = 60
    bad = []
    groups, per_pid = {}, {}
    for s in slices:
        k = (s["pid"], MASK.sub("_[N]", s["name"]))
        groups.setdefault(k, []).append(_fr(s["dur"]))
        pp = per_pid.setdefault(s["pid"], {"tot": Fraction(0), "start": None, "end": None})
        pp["tot"] += _fr(s["dur"])
        st, en = _fr(s["ts"]), _fr(s["ts"]) + _fr(s["dur"])
        pp["start"] = st if pp["start"] is None else min(pp["start"], st)
        pp["end"] = en if pp["end"] is None else max(pp["end"], en)
    seen = {}
    for r in obs["rows"]:
        k = (r["pid"], r["name"])
        seen[k] = seen.get(k, 0) + 1
    for k in groups:
        if k not in seen:
            bad.append(("group_missing", "Name", {"group": list(k)}))
    for k, n in seen.items():
        if k not in groups:
            bad.append(("group_extra", "Name", {"group": list(k)}))
        elif n > 1:
            bad.append(("group_twice", "Name", {"group": list(k), "times": n}))
    if sum(r["calls"] for r in obs["rows"]) != len(slices):
        bad.append(("calls_total", "Calls", {"sum_calls": sum(r["calls"] for r in obs["rows"]), "slices": len(slices)}))

    def chk(kind, col, cell, exact, unit, ctx_):
        if abs(Fraction(cell) - exact * unit) > HALF:
            bad.append((kind, col, dict(ctx_, cell=cell, exact=float(exact))))

    share_sum = {}
    for r in obs["rows"]:
        k = (r["pid"], r["name"])
        if k not in groups:
            continue
        d = groups[k]
        n = len(d)
        c = {"group": list(k)}
        if r["calls"] != n:
            bad.append(("stats_cell", "Calls", dict(c, cell=r["calls"], exact=n)))
        tot = sum(d)
        chk("stats_cell", "Total", r["total"], tot, 1000, c)
        chk("stats_cell", "Min", r["min"], min(d), 1000, c)
        chk("stats_cell", "Max", r["max"], max(d), 1000, c)
        m = tot / n
        chk("stats_cell", "Mean", r["mean"], m, 1000, c)
        sd = sorted(d)
        med = sd[n // 2] if n % 2 else (sd[n // 2 - 1] + sd[n // 2]) / 2
        chk("stats_cell", "Median", r["median"], med, 1000, c)
        var = sum((x - m) ** 2 for x in d) / (n - 1) if n > 1 else Fraction(0)
        root = (Decimal(var.numerator) / Decimal(var.denominator)).sqrt()
        if abs(Decimal(r["stdev"]) - root * 1000) > Decimal("0.501"):
            bad.append(("stats_cell", "StDev", dict(c, cell=r["stdev"], exact=float(root))))
        chk("share", "Time", r["time"], tot / per_pid[r["pid"]]["tot"] * 100, 100, c)
        ss = share_sum.setdefault(r["pid"], [0, 0])
        ss[0] += r["time"]
        ss[1] += 1
    for pid, (s, n) in share_sum.items():
        if not any(b[0] in ("group_missing", "group_extra", "group_twice") for b in bad):
            if abs(s - 10000) > HALF * n:
                bad.append(("share_sum", "Time", {"pid": pid, "sum_hundredths": s, "rows": n}))
    aseen = {}
    for a in obs["acts"]:
        aseen[a["pid"]] = aseen.get(a["pid"], 0) + 1
    for pid in per_pid:
        if aseen.get(pid, 0) != 1:
            bad.append(("active_rows", "pid", {"pid": pid, "rows": aseen.get(pid, 0)}))
    for pid in aseen:
        if pid not in per_pid:
            bad.append(("active_rows", "pid", {"pid": pid, "rows": aseen[pid], "slices": 0}))
    for a in obs["acts"]:
        pp = per_pid.get(a["pid"])
        if pp is None:
            continue
        c = {"pid": a["pid"]}
        chk("active_cell", "Total Kernel Time", a["total"], pp["tot"], 1000, c)
        if check_extremes:
            chk("active_cell", "Start Time", a["start"], pp["start"], 1000, c)
            chk("active_cell", "End Time", a["end"], pp["end"], 1000, c)
            el = pp["end"] - pp["start"]
            chk("active_cell", "Elapsed Time", a["elapsed"], el, 1000, c)
            chk("active_cell", "Active percentage", a["active"], pp["tot"] / el * 100, 100, c)
    return bad


def off_grid(slices):
    """kernel slices whose ts or dur is not a multiple of 2^-11 us (-O shift moved a start by whole ns)"""
    return sum(1 for e in slices if (_fr(e["ts"]) * 2048).denominator != 1 or (_fr(e["dur"]) * 2048).denominator != 1)


def near_print_midpoint(slices, eps=Fraction(1, 10 ** 7)):
    """True when one of the cells the Coq tie compares EXACTLY (Total / Median / Min / Max, rank total / start / end /
    elapsed; '%.3f') lies within eps of a printing midpoint: off the exact grid the code's double sums may land on
    the other side of it (double rounding is not modelled); such a case is judged by the oracle only."""
    groups, per = {}, {}
    for e in slices:
        d, t = _fr(e["dur"]), _fr(e["ts"])
        groups.setdefault((e["pid"], MASK.sub("_[N]", e["name"])), []).append(d)
        pp = per.setdefault(e["pid"], [Fraction(0), t, t + d])
        pp[0], pp[1], pp[2] = pp[0] + d, min(pp[1], t), max(pp[2], t + d)
    vals = []
    for d in groups.values():
        sd, n = sorted(d), len(d)
        vals += [sum(d), sd[0], sd[-1], sd[n // 2] if n % 2 else (sd[n // 2 - 1] + sd[n // 2]) / 2]
    for tot, st, en in per.values():
        vals += [tot, st, en, en - st]
    for v in vals:
        if (v * 2048).denominator == 1:
            continue                    # a grid value: the code's doubles are exact
        x = v * 1000 - Fraction(1, 2)
        if abs(x - round(x)) <= eps * 1000:
            return True
    return False


def in_domain(case):
    """extremes are claimed for slices ending at or after 0 and starting below 1e30"""
    if case["kind"] != "direct":
        return True
    return all(e["ts"] + e["dur"] >= 0 and e["ts"] <= 1e29 for e in case["events"] if is_kernel(e))


def valid(case):
    if case["kind"] != "direct":
        return True
    return all(e["dur"] > 0 and e["tsx"] for e in case["events"] if is_kernel(e))


def judge(case, obs):
    """oracle verdicts for one observed case -> list of failure dicts (unshrunk)"""
    if "err" in obs:
        if valid(case):
            return [{"input": case, "expected": "statistics files for a well-formed stream",
                     "observed": obs, "signature": {"kind": "run_failed", "error": obs["err"]}}]
        return []
    if not valid(case):
        return [{"input": case, "expected": "AssertionError/KeyError for a kernel slice with dur <= 0 or without TSk",
                 "observed": "files written", "signature": {"kind": "malformed_accepted"}}]
    slices = [e for e in obs["slices"] if is_kernel(e)]
    out = []
    for kind, col, det in oracle(slices, obs, in_domain(case)):
        out.append({"input": case, "expected": f"{col} recomputed from the kernel slices", "observed": det,
                    "signature": {"kind": kind, "column": col}})
    if case["kind"] == "direct" and obs["passed"] != [e["uid"] for e in case["events"]]:
        out.append({"input": case, "expected": "every event returned unchanged", "observed": obs["passed"],
                    "signature": {"kind": "pass_through"}})
    if case["kind"] == "e2e":
        want = sum(k.get("rep", 1) for rk in case["ranks"] for k in rk["kernels"] if "Cmpt Exec" in k["phases"])
        if len(slices) != want and not case.get("lossy"):
            out.append({"input": case, "expected": {"exec_slices": want}, "observed": {"exec_slices": len(slices)},
                        "signature": {"kind": "export_count"}})
        if "file_kernel_rows" in obs:
            # the saved text of the frame lists, per rank, as many kernel rows as the statistics counted calls
            calls = {}
            for rw in obs["rows"]:
                calls[str(rw["pid"])] = calls.get(str(rw["pid"]), 0) + rw["calls"]
            if calls != obs["file_kernel_rows"]:
                out.append({"input": case, "expected": {"kernel_rows_in_export_file": calls},
                            "observed": obs["file_kernel_rows"], "signature": {"kind": "export_file_rows"}})
    return out


# ---------------------------------------------------------------- generators
BASES = ["addmm", "conv", "mul", "layer_norm", "bmm", "softmax", "k", "x9", "a.b", "Fused[1]", "q-k", "t_"]
PIECES = ["_1", "_2", "_12", "-3", "-44", "_", "-", "7", "_x", "_1_2", "", "_007", "-9_", "__5", "-_6", "_[N]"]
TAILS = ["", "", "_MatMul", "_fwd", "-bwd2", "_0"]
NONKERNEL = ["foo Cmpt Prep", "bar_1 DmaI", "baz-2 DmaO", "host op", "cmpt exec", "Cmpt  Exec", "CmptExec_3",
             "x Cmpt Exe", "AllReduce_all_reduce_7"]
ODD_KERNEL = ["Cmpt Exec", "xCmpt Execy_5", "pre_3 Cmpt Exec post-4", "a Cmpt Exec Cmpt Exec", "k_1 Cmpt Exec_2"]


def gen_base(r):
    s = r.choice(BASES)
    for _ in range(r.randint(0, 3)):
        s += r.choice(PIECES)
    return s + r.choice(TAILS)


def digit_variant(r, s):
    return re.sub(r"[0-9]+", lambda m: str(r.randint(0, 999)) if r.random() < 0.8 else m.group(0), s)


def gen_names(r, n):
    names = []
    while len(names) < n:
        if names and r.random() < 0.45:
            v = digit_variant(r, r.choice(names))
            if r.random() < 0.3:
                v = v.replace("_", "-", 1) if "_" in v else v.replace("-", "_", 1)
            names.append(v)
        else:
            names.append(gen_base(r))
    return names


def gen_dur(r, mode):
    if mode == 0:
        return r.randint(1, 8 * G) / G
    if mode == 1:
        return float(r.randint(1, 3))
    if mode == 2:
        return r.choice([0.5, 0.25, 1.5, 2.0, 0.0625, 0.125, 3.0])
    return r.randint(1, 40) / 8


def gen_direct(r):
    mode = r.choice([0, 0, 1, 1, 2, 3, 4, 4])
    pids = r.sample([0, 1, 2, 3, 7, 12, 345, -1], r.randint(1, 3))
    names = [n + " Cmpt Exec" for n in gen_names(r, r.randint(1, 5))]
    if r.random() < 0.2:
        names.append(r.choice(ODD_KERNEL))
    n = r.choice([0, 1, 1, 2, 3]) if r.random() < 0.15 else r.randint(2, 30)
    evs = []
    quirk = r.random() < 0.06
    # mode 4 (magnitudes): some groups are LONG (1.5e5 .. 6e5 us per call = several 1e8 cycles) and regular down to a
    # few grid steps, next to ordinary groups
    long_of = {}
    if mode == 4:
        masked = sorted({MASK.sub("_[N]", nm) for nm in names})
        for m in r.sample(masked, r.randint(1, max(1, len(masked) // 2))):
            long_of[m] = (r.randint(150000 * G, 600000 * G), r.choice([2, 4, 9, 9, 16, 100, 4096]))
    for i in range(n):
        x = r.random()
        if x < 0.8:
            e = {"ph": "X", "name": r.choice(names)}
        elif x < 0.9:
            e = {"ph": "X", "name": r.choice(NONKERNEL)}
        else:
            e = {"ph": r.choice(["C", "M", "B", "E", "i", "XX"]), "name": r.choice(names + NONKERNEL)}
        lg = long_of.get(MASK.sub("_[N]", e["name"]))
        dur = (lg[0] + r.randint(0, lg[1])) / G if lg else gen_dur(r, 0 if mode == 4 else mode)
        e.update({"pid": r.choice(pids), "ts": r.randint(0, 2000 * G) / G, "dur": dur, "tsx": True,
                  "uid": i + 1})
        if quirk:
            e["ts"] = -r.randint(1, 2000 * G) / G
        if not is_kernel(e) and r.random() < 0.3:
            e["dur"] = r.choice([0.0, -1.0, 2.5])
            e["tsx"] = r.random() < 0.5
        evs.append(e)
    case = {"kind": "direct", "events": evs, "out": r.choice(["res.json", "my.run.json", "t.pt.trace.json", "plain"])}
    if r.random() < 0.08 and evs:
        e = r.choice(evs)
        e["ph"], e["name"] = "X", r.choice(names)
        y = r.random()
        if y < 0.4:
            e["dur"] = 0.0
        elif y < 0.7:
            e["dur"] = -r.randint(1, G) / G
        else:
            e["tsx"] = False
            if r.random() < 0.5:
                e["dur"] = 0.0
    return case


PDDF_OPTS = [["--keep_names"], ["--keep_names"], ["--disable_tb"], ["--keep_names", "--keep_prep"],
             ["--keep_names", "-O", "tid"], ["--keep_names", "--drop_globals"], ["--keep_names", "-M"]]
PDDF_OVERLAP_OPTS = [["--keep_names", "-O", "shift"], ["--disable_tb", "-O", "shift"], ["--keep_names", "-O", "drop"],
                     ["--keep_names", "-O", "warn"], ["--keep_names"], ["--keep_names", "-O", "shift", "--keep_prep"]]
EPOCH = 1 << 32     # the device counters are 32 bit: a rank's cycles stay inside one epoch


def gen_e2e(r):
    f = r.choice([512.0, 1024.0, 1024.0, 2048.0])
    nr = r.choice([1, 1, 2, 2, 3, 4])
    names = gen_names(r, r.randint(1, 4))
    # magnitudes: one name group runs LONG (1.5e8 .. 6e8 cycles per call) and regular down to a few cycles
    long_m = MASK.sub("_[N]", r.choice(names)) if r.random() < 0.3 else None
    long_len = r.randint(150000000, 600000000)
    long_jit = r.choice([4, 9, 9, 16, 100, 5000])
    short = [n for n in names if MASK.sub("_[N]", n) != long_m] or ["aux"]
    # repeated records: the runtime logged a kernel twice (three times)
    p_rep = r.choice([0.15, 0.3, 1.0]) if r.random() < 0.35 else 0.0
    # lane overlaps: a kernel's first slice starts a few ns (cycles) BEFORE the last slice of its predecessor on the
    # lane ends - the rounding artefact the -O modes exist for (below / around / far above the 5 ns of -O shift)
    p_ov = r.choice([0.25, 0.5, 0.8]) if r.random() < 0.4 else 0.0
    thr = max(1, int(0.005 * f))            # cycles in 5 ns
    has_ov = False
    ranks = []
    for pid in range(nr):
        H = 1000.0 + r.randint(0, 64 * G) / G
        c = r.randint(1, 1 << 16)
        ks = []
        tie = r.random() < 0.3
        plain_rank = long_m is not None and pid > 0 and r.random() < 0.4
        prev_end, cmax = None, c
        for ki in range(r.randint(1, 9)):
            seg = [r.randint(1, 4096) for _ in range(4)]
            if tie:
                seg[2] = 512 * r.randint(1, 3)
            base = r.choice(names)
            if long_m is not None and not plain_rank and ki < 2 and pid == 0:
                base = r.choice([n for n in names if MASK.sub("_[N]", n) == long_m])
            if MASK.sub("_[N]", base) == long_m:
                if plain_rank or c + long_len + (1 << 20) >= EPOCH:
                    base = r.choice(short)
                else:
                    seg[2] = long_len + r.randint(0, long_jit)
            ph = ["Cmpt Exec"] + [p for p in ("DmaI", "Cmpt Prep", "DmaO") if r.random() < 0.5]
            if prev_end is not None and r.random() < p_ov:
                if r.random() < 0.6:
                    ph = ["Cmpt Exec"] + (["DmaO"] if r.random() < 0.5 else [])
                x = r.random()
                d = r.randint(1, thr) if x < 0.6 else thr + r.randint(0, 2) if x < 0.8 else r.randint(thr + 1, 400)
                fi = min(PHASES.index(p) for p in ph)
                if r.random() < 0.9:
                    seg[fi] = max(seg[fi], d + r.randint(1, 64))        # partial overlap (else maybe nested)
                c2 = prev_end - d - sum(seg[:fi])
                if c2 >= 1:
                    c, has_ov = c2, True
            cs = [c]
            for s in seg:
                cs.append(cs[-1] + s)
            k = {"base": base, "c": cs, "phases": ph}
            if r.random() < p_rep:
                k["rep"] = r.choice([2, 2, 2, 3])
            ks.append(k)
            prev_end = cs[max(PHASES.index(p) for p in ph) + 1]
            cmax = max(cmax, cs[-1])
            c = cmax + r.randint(1, 8192)
        host = [{"name": "host op", "ts": 900.0 + i, "dur": 0.5} for i in range(r.randint(0, 2))]
        ranks.append({"pid": pid, "H": H, "kernels": ks, "host": host})
    ov_opts = has_ov and r.random() < 0.8
    case = {"kind": "e2e", "f": f, "opts": r.choice(OVERLAP_OPTS if ov_opts else E2E_OPTS),
            "out": r.choice(["res.json", "res.json", "my.run.json", "res", "run.v1/res", "run.v1/res.json"]),
            "ranks": ranks}
    # output formats / ways the export leaves the run: json file (default), json text through get_output_data()
    # (--disable_file), pandas frame (-f pddf; names must stay unrewritten to be masked as in the file)
    x = r.random()
    if x < 0.3:
        case["fmt"] = "pddf"
        case["opts"] = r.choice(PDDF_OVERLAP_OPTS if ov_opts else PDDF_OPTS)
        if r.random() < 0.5:
            case["nofile"] = True
    elif x < 0.4 and "--tb" not in case["opts"]:
        case["nofile"] = True
    if nr == 1 and r.random() < 0.25:
        case["api_in"] = True
    if has_ov and "drop" in case["opts"]:
        case["lossy"] = True        # -O drop removes the overlapping slice (from the export AND the statistics)
    return case


def lane_overlaps(case):
    """number of kernels whose first slice starts before the last slice of the previous kernel of the rank ends"""
    n = 0
    for rk in case["ranks"]:
        for a, b in zip(rk["kernels"], rk["kernels"][1:]):
            if not (a["phases"] and b["phases"]):
                continue
            a_end = a["c"][max(PHASES.index(p) for p in a["phases"]) + 1]
            b_start = b["c"][min(PHASES.index(p) for p in b["phases"])]
            n += int(b_start < a_end)
    return n


def case_key(case):
    return hashlib.sha1(json.dumps(case, sort_keys=True).encode()).hexdigest()


def load_corpus():
    d = os.path.join(coqrun.VERIF, "corpus", "C12")
    out = []
    for p in sorted(glob.glob(os.path.join(d, "*.json"))):
        c = json.load(open(p))
        out += c if isinstance(c, list) else [c]
    return out


# ---------------------------------------------------------------- the small ties: names, file names
def names_tie(r, n):
    from aiu_trace_analyzer.pipeline.stats import StatsExtractionContext, calculate_stats
    alpha = "ab_-0123456789 .[]NCmptExec"
    names = list(ODD_KERNEL) + list(NONKERNEL) + ["", "_", "-", "_1", "-1", "1_", "__1", "_1-2_3", "a_1b", "a1_b2",
                                                 "_[N]", "a_12345678901234567890", "Cmpt Exec_1", "_1Cmpt Exec"]
    for _ in range(n):
        x = r.random()
        if x < 0.4:
            s = "".join(r.choice(alpha) for _ in range(r.randint(0, 14)))
            if r.random() < 0.7:
                k = r.randint(0, len(s))
                s = s[:k] + r.choice(["Cmpt Exec", "Cmpt Exec", " Cmpt Exec", "Cmpt Exe", "mpt Exec"]) + s[k:]
        else:
            s = gen_base(r) + r.choice([" Cmpt Exec", " Cmpt Exec", " Cmpt Prep", "", " Cmpt Exec_1"])
        names.append(s)
    terms = []
    o, e_ = _quiet()
    d = tempfile.mkdtemp(prefix="c12n_")
    try:
        with o, e_:
            for s in names:
                try:
                    ctx = StatsExtractionContext(stats_filename=os.path.join(d, "n.json"))
                    ev = to_event({"ph": "X", "name": s, "pid": 0, "ts": 1.0, "dur": 1.0, "tsx": True, "uid": 1})
                    calculate_stats(ev, ctx)
                    qs = list(ctx.queues.values())
                    obs = None if not qs else (qs[0][0] if len(qs) == 1 else enc.Err("Queues%d" % len(qs)))
                except Exception as ex:  # noqa: BLE001
                    obs = enc.Err(type(ex).__name__)
                terms.append((enc.S(s), enc.V(obs)))
    finally:
        shutil.rmtree(d, ignore_errors=True)
    bad, _, secs = coqrun.run_cases("C12_names", COQ_IMPORTS, "string", "name_val", terms, shard=2000)
    return names, bad, secs


def fnames_tie(r, n):
    from aiu_trace_analyzer.pipeline.tools import PipelineContextTool
    tool = PipelineContextTool()
    parts = ["out", "res", "a", "b.c", ".pt.trace", ".pt.trace", ".json", ".", "/", "dir.v1/", ".pt", ".trace", "x_y",
             ".pt.pt.trace.trace", "", ".csv"]
    cases = [("out.json", "summary", "csv"), ("out", "active", "csv"), ("a.pt.trace.json", "summary", "csv"),
             (".pt.trace", "summary", "csv"), ("", "summary", "csv"), ("a.", "x", "txt"), (".a", "x", "txt"),
             ("a.pt.pt.trace.trace.json", "summary", "csv"), ("d.1/out", "summary", "csv")]
    for _ in range(n):
        cases.append(("".join(r.choice(parts) for _ in range(r.randint(0, 5))),
                      r.choice(["summary", "active", "ts_analysis", "categories", "a.b"]), r.choice(["csv", "txt"])))
    terms = []
    for f, p, e in cases:
        try:
            obs = tool.generate_filename(f, p, e)
        except Exception as ex:  # noqa: BLE001
            obs = enc.Err(type(ex).__name__)
        terms.append((enc.P(enc.S(f), enc.S(p), enc.S(e)), enc.V(obs)))
    bad, _, secs = coqrun.run_cases("C12_fnames", COQ_IMPORTS, "(string * string * string)", "fname_val", terms,
                                    shard=2000)
    return cases, bad, secs


# ---------------------------------------------------------------- shrinking
def _same(fs, sig):
    return any(f["signature"] == sig for f in fs)


def shrink(f, workdir=None, budget=150):
    case = copy.deepcopy(f["input"])
    sig = f["signature"]
    runs = [0]

    def still(c):
        if runs[0] >= budget:
            return False
        runs[0] += 1
        return _same(judge(c, drive(c, workdir)), sig)

    if case["kind"] == "direct":
        changed = True
        while changed:
            changed = False
            for k in range(len(case["events"]) - 1, -1, -1):
                c2 = dict(case, events=case["events"][:k] + case["events"][k + 1:])
                if still(c2):
                    case, changed = c2, True
    else:
        changed = True
        while changed:
            changed = False
            for ri in range(len(case["ranks"]) - 1, -1, -1):
                if len(case["ranks"]) > 1:
                    c2 = dict(case, ranks=case["ranks"][:ri] + case["ranks"][ri + 1:])
                    if still(c2):
                        case, changed = c2, True
                        continue
                ks = case["ranks"][ri]["kernels"]
                for ki in range(len(ks) - 1, -1, -1):
                    c2 = copy.deepcopy(case)
                    del c2["ranks"][ri]["kernels"][ki]
                    if still(c2):
                        case, changed = c2, True
        for ri in range(len(case["ranks"])):
            for ki in range(len(case["ranks"][ri]["kernels"])):
                if case["ranks"][ri]["kernels"][ki].get("rep", 1) > 1:
                    c2 = copy.deepcopy(case)
                    del c2["ranks"][ri]["kernels"][ki]["rep"]
                    if still(c2):
                        case = c2
        for flag in ("api_in", "nofile"):
            if case.get(flag):
                c2 = {k: v for k, v in case.items() if k != flag}
                if still(c2):
                    case = c2
        if case.get("opts") and case.get("fmt", "json") == "json" and still(dict(case, opts=[])):
            case = dict(case, opts=[])
    obs = drive(case, workdir)
    fs = [x for x in judge(case, obs) if x["signature"] == sig]
    if not fs:
        return f
    g = fs[0]
    if "err" not in obs:
        g["csv"] = {"rows": obs["rows"], "acts": obs["acts"]}
    return g


# ---------------------------------------------------------------- check
def run(ctx):
    r = ctx.rng
    corpus = load_corpus()
    cases = list(corpus)
    n_direct = ctx.pick(1500, 20000)
    n_e2e = ctx.pick(300, 3000)
    cases += [gen_direct(r) for _ in range(n_direct)]
    cases += [gen_e2e(r) for _ in range(n_e2e)]
    terms, failures, seen, nontriv = [], [], set(), 0
    dist = {"kind": {}, "events": {}, "groups": {}, "ranks": {}, "outcome": {}, "e2e_opts": {}, "e2e_exec_slices": 0,
            "valid": 0, "malformed": 0, "outside_extremes_domain": 0, "rows_with_total_ties": 0,
            "masked_name_collisions": 0, "single_call_groups": 0, "corpus": len(corpus),
            "e2e_export": {}, "e2e_in_memory_input": 0, "cases_with_repeated_records": 0,
            "repeated_records_and_frame_export": 0, "long_regular_groups": 0,
            "e2e_cases_with_lane_overlaps": 0, "e2e_lane_overlaps_by_overlap_option": {},
            "e2e_cases_with_trimmed_kernel_slices": 0, "trimmed_kernel_slices": 0,
            "off_grid_cases_left_to_the_oracle_near_print_midpoint": 0}
    t_e2e = 0.0
    skip_tie = set()
    for case in cases:
        t0 = time.time()
        obs = drive(case, ctx.work)
        if case["kind"] == "e2e":
            t_e2e += time.time() - t0
        terms.append(case_terms(case, obs))
        failures += judge(case, obs)[:3]
        k = case_key(case)
        if "err" not in obs:
            if k not in seen:
                nontriv += int(len(obs["rows"]) >= 2)
            sl = [e for e in obs["slices"] if is_kernel(e)]
            _bump(dist["groups"], min(len(obs["rows"]), 12))
            _bump(dist["ranks"], len(obs["acts"]))
            by = {}
            for rw in obs["rows"]:
                by.setdefault((rw["pid"], rw["total"]), []).append(rw)
            dist["rows_with_total_ties"] += sum(1 for v in by.values() if len(v) > 1)
            dist["single_call_groups"] += sum(1 for rw in obs["rows"] if rw["calls"] == 1)
            dist["masked_name_collisions"] += int(len({(s["pid"], s["name"]) for s in sl}) > len(obs["rows"]))
            if case["kind"] == "e2e":
                dist["e2e_exec_slices"] += len(sl)
                og = off_grid(sl)
                dist["trimmed_kernel_slices"] += og
                dist["e2e_cases_with_trimmed_kernel_slices"] += int(og > 0)
                if og and near_print_midpoint(sl):
                    skip_tie.add(len(terms) - 1)
                    dist["off_grid_cases_left_to_the_oracle_near_print_midpoint"] += 1
            # groups of >= 2 calls, each >= 1e5 us, spread below 0.1 us (units of the cells: 1/1000 us)
            dist["long_regular_groups"] += sum(1 for rw in obs["rows"] if rw["calls"] >= 2 and rw["min"] >= 10 ** 8
                                               and rw["max"] - rw["min"] < 100)
        seen.add(k)
        _bump(dist["kind"], case["kind"])
        _bump(dist["outcome"], obs.get("err", "ok"))
        dist["valid" if valid(case) else "malformed"] += 1
        dist["outside_extremes_domain"] += int(not in_domain(case))
        if case["kind"] == "e2e":
            _bump(dist["e2e_opts"], " ".join(case.get("opts", [])) or "(default)")
            _bump(dist["e2e_export"], case.get("fmt", "json") + (" get_output_data()" if case.get("nofile") else " file"))
            dist["e2e_in_memory_input"] += int(bool(case.get("api_in")) and len(case["ranks"]) == 1)
            rp = any(k.get("rep", 1) > 1 for rk in case["ranks"] for k in rk["kernels"])
            dist["cases_with_repeated_records"] += int(rp)
            dist["repeated_records_and_frame_export"] += int(rp and case.get("fmt") == "pddf")
            if lane_overlaps(case):
                dist["e2e_cases_with_lane_overlaps"] += 1
                o_ = case.get("opts", [])
                _bump(dist["e2e_lane_overlaps_by_overlap_option"], o_[o_.index("-O") + 1] if "-O" in o_ else "tid")
        else:
            _bump(dist["events"], min(len(case["events"]) // 5 * 5, 30))
    idx_d = [j for j, c in enumerate(cases) if c["kind"] != "e2e"]
    idx_e = [j for j, c in enumerate(cases) if c["kind"] == "e2e" and j not in skip_tie]
    bad_d, _, secs_d = coqrun.run_cases("C12", COQ_IMPORTS, COQ_TY, "tie_val", [terms[j] for j in idx_d], shard=150)
    bad_e, _, secs_e = coqrun.run_cases("C12_e2e", COQ_IMPORTS, COQ_TY, "e2e_val", [terms[j] for j in idx_e],
                                        shard=100)
    bad = sorted([idx_d[j] for j in bad_d] + [idx_e[j] for j in bad_e])
    secs = secs_d + secs_e
    names, nbad, nsecs = names_tie(r, ctx.pick(800, 10000))
    fcases, fbad, fsecs = fnames_tie(r, ctx.pick(300, 5000))
    mism = [{"name": "correspondence Stats.tie_val vs " +
                     ("Acelyzer end to end (exported slices vs CSV files)" if cases[j]["kind"] == "e2e"
                      else "calculate_stats + StatsExtractionContext.drain"),
             "case": cases[j], "impl": terms[j][1][:800]} for j in bad[:5]]
    mism += [{"name": "correspondence Stats.name_val vs calculate_stats queue name", "case": names[j]}
             for j in nbad[:5]]
    mism += [{"name": "correspondence Stats.gen_filename vs PipelineContextTool.generate_filename",
              "case": list(fcases[j])} for j in fbad[:5]]
    # a mismatching case is a failing-input candidate: judge() has already looked at all of them above
    shr, kinds = [], set()
    for f in failures:
        kk = json.dumps(f["signature"], sort_keys=True)
        if kk in kinds or len(shr) >= 3:
            continue
        kinds.add(kk)
        shr.append(shrink(f, ctx.work))
    return {
        "evaluations": len(cases) + len(names) + len(fcases),
        "distinct_nontrivial": nontriv,
        "rule": "distinct cases (sha1 of the canonical case) whose run wrote >= 2 summary rows (>= 2 groups); "
                f"streams: corpus {len(corpus)}, direct {n_direct} (exact grid 2^-10 us; 8% with one malformed kernel "
                f"slice, 6% all-negative timestamps, 25% with long regular groups of 1.5e5-6e5 us per call), end to "
                f"end {n_e2e} (1-4 ranks, 1-9 kernels per rank, f in "
                "{512,1024,2048} MHz, 11 + 16 option sets; 40% with kernels overlapping their predecessor on the "
                "lane by 1 .. 400 cycles, mostly run under -O shift / drop / warn / tid; 30% with a long regular "
                "group of 1.5e8-6e8 cycles per call, 35% "
                "with exactly repeated kernel records, export = json file / json text of get_output_data() / pandas "
                "frame of -f pddf to file or get_output_data(), single ranks also through api://jsonbuffer); plus "
                "name and file-name ties",
        "samples": [cases[len(corpus)], cases[len(corpus) + n_direct]] if len(cases) > len(corpus) + n_direct else [],
        "mismatches": mism, "oracle_failures": shr,
        "ties": [{"name": "Stats.tie_val = CSV files of calculate_stats/drain (direct) and of Acelyzer (end to end)",
                  "cases": len(cases), "mismatching": len(bad), "coq_seconds": round(secs, 1),
                  "e2e_seconds": round(t_e2e, 1)},
                 {"name": "Stats.name_val = queue name created by calculate_stats", "cases": len(names),
                  "mismatching": len(nbad), "coq_seconds": round(nsecs, 1)},
                 {"name": "Stats.gen_filename = generate_filename", "cases": len(fcases), "mismatching": len(fbad),
                  "coq_seconds": round(fsecs, 1)}],
        "distribution": dist,
        "traces_validated_against_impl": len(cases),
        "notes": [f"oracle failures before shrinking: {len(failures)}"],
    }


def search(ctx, res, broken):
    """something broke but the run's oracle was silent: fresh, larger stream (other seed), oracle only"""
    r = random.Random(ctx.seed + 7919)
    t0 = time.time()
    lim = ctx.pick(90, 900)
    i = 0
    while time.time() - t0 < lim and i < ctx.pick(20000, 200000):
        i += 1
        case = gen_e2e(r) if i % 12 == 0 else gen_direct(r)
        fs = judge(case, drive(case, ctx.work))
        if fs:
            return [shrink(fs[0], ctx.work)]
    return []


def replay(ctx, payload):
    f = payload.get("failing")
    if not f:
        return True, "replay file names only broken obligations: " + str(payload.get("broken"))[:500]
    case = f["input"]
    obs = drive(case, ctx.work)
    fs = judge(case, obs)
    same = [x for x in fs if x["signature"] == f.get("signature")] or fs
    if same:
        return False, {"signature": same[0]["signature"], "observed": same[0]["observed"],
                       "expected": same[0]["expected"]}
    return True, {"oracle": "no failure", "rows": obs.get("rows"), "acts": obs.get("acts"), "err": obs.get("err")}
