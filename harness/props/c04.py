"""C04 — after overlap resolution, slices sharing a (pid, tid) lane are nested or disjoint; -O tid changes
only the tid of a slice, never drops one and never merges lanes.

Tie (kernel): the real EventSortingContext/sort_events (sort key = Acelyzer._default_sort_ts_and_rev_dur) and the
real OverlapDetectionContext with detect_partial_overlap_tids / drain / detect_partial_overlap_events, driven in
the order register_processing_functions uses, vs Overlap.run_val evaluated by vm_compute: exported stream
(every field, in order) or exception class, plus the tid_space table built in the collection phase.
Tie (end to end): Acelyzer(["-O", mode]).run() on host slices, (uid -> tid) of the exported file vs the model.
Oracle: brute-force statement of the property on the implementation's output (pairwise laminarity per lane,
only-tid-changed by deep comparison with the input dicts, nothing lost/duplicated, lane injectivity, and
"no exception when the nesting depth is within the tool's limit").
One rank delivered as several input files of one run (-i rank0.json,rank0.b.json; host and device slices of different
files on one lane) is run end to end against the same laminarity oracle on the exported lanes (oracle only), and
kernel cases may carry the file id of every event (args.jobhash, as events do after ingestion).
The log level (-D 0..4 / aiu_trace_analyzer.logger.loglevel) is part of every case: the result may not depend on it
(the model has no such parameter).  Deep proper nests (far beyond 5+1 levels) are generated on purpose.
"""
import contextlib
import copy
import glob
import itertools
import json
import os
import shutil
import tempfile
import time
from fractions import Fraction

from common import coqrun, enc

ID = "C04"
PROP_FILE = "props/C04.v"
THEOREMS = ["C04_laminar", "C04_tid_only", "C04_sort_stage_perm", "C04_final_tid_in_chain", "C04_chains_private",
            "C04_no_merge", "C04_drop", "C04_no_err_partial", "C04_no_err_sorted_partial",
            "C04_lane_renaming_injective"]
ALLOWED_AXIOMS = []
MANIFEST = {
    "text": "Proof. Coq theorems over an executable model (Overlap.v) of sort_events (per-lane ts asc / dur desc), "
            "collect_tid_space/_create_tid_space/_collect_and_build_tid_space and overlap_detection/"
            "check_overlap_condition/update_queue_status/handle_overlap (TID with re-entry, DROP), for ANY input "
            "stream (no sortedness or size bound): if the run does not raise, exported slices of one (pid,tid) are "
            "pairwise disjoint or nested (C04_laminar, both modes); -O tid returns the input stream with only tid "
            "fields changed, same order, nothing dropped (C04_tid_only); the final tid lies in {tid0} + private "
            "chain(pid,tid0), chains avoid every tid seen in the pid and each other, so distinct source lanes stay "
            "distinct (C04_final_tid_in_chain, C04_chains_private, C04_no_merge); -O drop returns a sub-list and keeps "
            "every non-slice (C04_drop); the sort stage is a permutation (C04_sort_stage_perm); on per-lane ordered "
            "input the assertion never fires and drop mode never raises (C04_no_err_partial). The model is tied to the code on every run by differential "
            "testing inside Coq (exhaustive small interval families + random large ones + end-to-end runs).",
    "note": "partial: C04_no_err of DESIGN (ordered input needing <= 5 extra lanes never raises) is proved only as "
            "C04_no_err_partial / C04_no_err_sorted_partial: on per-lane ts-ordered, non-negative input (discharged "
            "for the sort stage) -O tid never raises the AssertionError, for any depth, and -O drop never raises at "
            "all. Missing: 'needs at most max_tid_streams extra lanes => no KeyError' (checked by the oracle only, "
            "point-depth criterion) and unreachability of the model-only outcome Err FuelExhausted (a mismatch in "
            "the tie if it ever occurred). Time is integer in "
            "the model (the code's round(ts+dur,4) is the identity on the tie's dyadic grids); lanes keyed by "
            "hash((pid,tid)) assumed collision-free; max_tid_streams=-1 and -O async/warn/shift not modelled. "
            "Print Assumptions: closed under the global context.",
    "technique": "Coq proof (lane invariant by induction over the stream and the re-entry fuel; allocation "
                 "invariant over the tid-space fold) + vm_compute correspondence against the real contexts + "
                 "brute-force oracle",
    "design_ref": "DESIGN.md section 4/C04; design-spikes/overlap_laminar.v (absorbed)",
}
TRUSTED = [
    "modelled, not verified: hash((pid,tid)) lane keys collision-free on the tids in use (tid -2 is never generated: "
    "hash(-1)==hash(-2)); Python list.sort stability; dict insertion order; round(x,4) identity on dyadic grids",
    "the end-to-end tie relies on the rest of the default pipeline leaving ts/dur/tid of plain host slices alone "
    "(observed: pid is rewritten to the rank and +1000, tid recombined to 1000 before overlap detection)",
]
ASSUMPTIONS = [
    "events carry pid, tid, ts (and dur for ph X); durations are >= 0",
    "max_tid_streams >= 0 (the CLI always uses the default 5)",
]

MODES = ("TID", "DROP")
CORPUS = os.path.join(coqrun.VERIF, "corpus", "C04")


# ---------------------------------------------------------------- cases
# a case: {"mode", "ms", "presort", "scale", "events": [[isx, pid, tid, ts, dur, uid], ...]} on an integer grid;
# the implementation sees ts*scale, dur*scale (scale a power of two, so every float operation is exact)
# "ll" (optional): the log level (aiu_trace_analyzer.logger.loglevel, what -D sets) the stages run at; the result may
# not depend on it.  Absent = -1 (below ERROR: nothing is printed).  The model has no such parameter.
LOGLEVELS = (0, 1, 2, 3, 4)


# "jobs" (optional, k >= 2): the events of a pid come from k input files of that rank (one rank delivered as several
# files in one run); like every event past ingestion they then carry the id of their file in args.jobhash (event uid
# belongs to file uid mod k).  Absent = no such field.  The lanes are (pid, tid) whatever the file; the model has no
# such parameter.
def mk_case(mode, ms, presort, scale, events, ll=None, jobs=None):
    c = {"mode": mode, "ms": ms, "presort": bool(presort), "scale": scale, "events": [list(e) for e in events]}
    if ll is not None:
        c["ll"] = ll
    if jobs:
        c["jobs"] = jobs
    return c


class _Null:
    """stdout sink for the runs at verbose log levels (the tool logs with print)"""
    def write(self, s):
        return len(s)

    def flush(self):
        pass


def py_events(case):
    from aiu_trace_analyzer.types import TraceEvent
    sc = case["scale"]
    jobs = case.get("jobs")
    evs = []
    for isx, pid, tid, ts, dur, uid in case["events"]:
        if isx:
            e = {"ph": "X", "name": f"slice_{uid}", "pid": pid, "tid": tid, "ts": ts * sc, "dur": dur * sc,
                 "args": {"uid": uid, "note": [uid, "keep"]}}
        else:
            e = {"ph": "i", "name": f"mark_{uid}", "pid": pid, "tid": tid, "ts": ts * sc, "s": "t",
                 "args": {"uid": uid}}
        if jobs:
            e["args"]["jobhash"] = 7919 * (pid + 1) + uid % jobs
        evs.append(TraceEvent(e))
    return evs


def grid(x, sc):
    """float time -> grid coordinate (int when exact, else an exact Fraction so that the tie shows the change)"""
    f = Fraction(x) / Fraction(sc)
    return int(f) if f.denominator == 1 else f


def project(e, sc):
    return [e.get("ph") == "X", e["pid"], e["tid"], grid(e["ts"], sc), grid(e.get("dur", 0), sc),
            e.get("args", {}).get("uid", -1)]


# ---------------------------------------------------------------- implementation driver (kernel)
def run_impl(case):
    """returns {"result": [projected events] | enc.Err, "table": [[pid, [[src, next], ...]], ...], "raw": [dicts]}"""
    import aiu_trace_analyzer.logger as aiulog
    mode, ms, sc = case["mode"], case["ms"], case["scale"]
    table, raw = [], []
    aiulog.loglevel = case.get("ll", -1)
    try:
        with contextlib.redirect_stdout(_Null()):
            result = _drive(case, mode, ms, sc, table, raw)
    finally:
        aiulog.loglevel = -1
    return {"result": result, "table": table, "raw": raw}


def _drive(case, mode, ms, sc, table, raw):
    from aiu_trace_analyzer.core.acelyzer import Acelyzer
    from aiu_trace_analyzer.pipeline.sort import EventSortingContext, sort_events
    from aiu_trace_analyzer.pipeline.overlap import (OverlapDetectionContext, detect_partial_overlap_tids,
                                                     detect_partial_overlap_events)
    octx = None
    try:
        events = py_events(case)
        if case["presort"]:
            sctx = EventSortingContext(event_types=None, sortkey=Acelyzer._default_sort_ts_and_rev_dur)
            stream = []
            for e in events:
                stream += sort_events(e, sctx)
            stream += sctx.drain()
        else:
            stream = events
        kw = {} if ms == 5 else {"max_tid_streams": ms}       # 5 = the constructor default the CLI relies on
        octx = OverlapDetectionContext(overlap_resolve=Acelyzer._overlap_option_from_arg(mode.lower()),
                                       ts_shift_threshold=Acelyzer.defaults["ts_shift_threshold"], **kw)
        held = []
        if mode == "TID":
            for e in stream:
                held += detect_partial_overlap_tids(e, octx)
            held += octx.drain()
            for pid in sorted(octx.tid_space):
                table.append([pid, sorted([k, v] for k, v in octx.tid_space[pid].items())])
        else:
            held = stream
        for e in held:
            raw += detect_partial_overlap_events(e, octx)
        raw += octx.drain()
        result = [project(e, sc) for e in raw]
    except Exception as e:  # noqa: BLE001
        result = enc.Err(type(e).__name__)
        if octx is not None and mode == "TID" and not table:
            try:
                for pid in sorted(octx.tid_space):
                    table.append([pid, sorted([k, v] for k, v in octx.tid_space[pid].items()
                                              if isinstance(v, int))])
            except Exception:  # noqa: BLE001
                pass
    return result


# ---------------------------------------------------------------- oracle (independent of the Coq model)
def partial_overlap(a, b):
    """half-open slices [s, e): neither disjoint nor nested"""
    (s1, e1), (s2, e2) = a, b
    return (s1 < s2 < e1 < e2) or (s2 < s1 < e2 < e1)


def max_depth(slices):
    """largest number of slices of the family that cover one common open point"""
    best = 0
    pts = sorted({s for s, _ in slices} | {e for _, e in slices})
    for lo, hi in zip(pts, pts[1:]):
        best = max(best, sum(1 for s, e in slices if s <= lo and hi <= e))
    return best


def crossing(slices):
    """the slices of a lane family whose start lies inside another slice and whose end lies beyond that slice's end:
    only these can ever be asked to leave the lane.  A slice that reaches the k-th extra lane started inside k-1
    such slices (one per extra lane it left), so 'depth of this sub-family <= number of extra lanes' means that the
    extra lanes suffice - however deep the proper nest around them is."""
    return [(s, e) for i, (s, e) in enumerate(slices)
            if any(j != i and s2 <= s < e2 < e for j, (s2, e2) in enumerate(slices))]


def lane_sorted_by_ts(case, with_dur=False):
    """ph-X events of every lane arrive by ts ascending (with_dur: and dur descending on equal ts)"""
    last = {}
    for isx, pid, tid, ts, dur, uid in case["events"]:
        if not isx:
            continue
        k = (ts, -dur) if with_dur else (ts, 0)
        if last.get((pid, tid), k) > k:
            return False
        last[(pid, tid)] = k
    return True


def oracle(case, obs):
    """list of property failures of the implementation's output `obs` on `case` (empty = property holds)"""
    mode, ms, sc = case["mode"], case["ms"], case["scale"]
    fails = []
    xin = [e for e in case["events"] if e[0]]

    def fail(kind, expected, observed, **facts):
        sig = {"kind": kind, "mode": mode}
        sig.update(facts)
        fails.append({"input": case, "expected": expected, "observed": observed, "signature": sig})

    if isinstance(obs["result"], enc.Err):
        tag = obs["result"].tag
        lanes = {}
        for _, pid, tid, ts, dur, _ in xin:
            lanes.setdefault((pid, tid), []).append((ts, ts + dur))
        limit = max(ms, 1)
        within = all(max_depth(v) <= (1 if k[1] == -1 else limit + 1) or
                     (k[1] != -1 and max_depth(crossing(v)) <= limit) for k, v in lanes.items())
        ordered = case["presort"] or lane_sorted_by_ts(case)
        nonneg = all(e[3] >= 0 for e in xin)
        if mode == "DROP" and ordered and nonneg:
            fail("unexpected_exception", "no exception in drop mode on per-lane ordered input", tag, exception=tag)
        elif mode == "TID" and ordered and nonneg and within:
            fail("unexpected_exception", f"no exception: nesting depth per lane <= {limit}+1, or at most {limit} "
                 "lane-leaving slices over any point", tag, exception=tag)
        return fails

    out = obs["raw"]
    xout = [e for e in out if e.get("ph") == "X"]
    # (1) laminar lanes
    by_lane = {}
    for e in xout:
        by_lane.setdefault((e["pid"], e["tid"]), []).append(e)
    done = False
    for k, l in by_lane.items():
        for a, b in itertools.combinations(l, 2):
            ia = (a["ts"], a["ts"] + a["dur"])
            ib = (b["ts"], b["ts"] + b["dur"])
            if partial_overlap(ia, ib):
                fail("partial_overlap_on_lane", "slices of one (pid,tid) disjoint or nested",
                     {"lane": list(k), "a": [a["args"]["uid"], *ia], "b": [b["args"]["uid"], *ib]})
                done = True
                break
        if done:
            break
    # (2) only the tid changes / nothing lost / nothing duplicated
    orig = {e["args"]["uid"]: e for e in py_events(case)}
    seen = {}
    for e in out:
        u = e.get("args", {}).get("uid")
        seen[u] = seen.get(u, 0) + 1
        o = orig.get(u)
        if o is None:
            fail("slice_invented", "every exported event is an input event", {"uid": u})
            continue
        diff = sorted(k for k in set(o) | set(e) if o.get(k) != e.get(k))
        allowed = ["tid"] if (mode == "TID" and o["ph"] == "X") else []
        bad = [k for k in diff if k not in allowed]
        if bad:
            fail("slice_changed", "only tid may change", {"uid": u, "fields": bad,
                                                           "before": {k: o.get(k) for k in bad},
                                                           "after": {k: e.get(k) for k in bad}}, fields=bad)
    dup = sorted(u for u, n in seen.items() if n > 1)
    if dup:
        fail("slice_duplicated", "every event exported once", {"uids": dup})
    lost = sorted(u for u in orig if u not in seen)
    if mode == "TID" and lost:
        fail("slice_lost", "tid mode never drops a slice", {"uids": lost})
    if mode == "DROP":
        lost_nx = [u for u in lost if orig[u]["ph"] != "X"]
        if lost_nx:
            fail("slice_lost", "drop mode drops only ph X slices", {"uids": lost_nx})
        # a dropped slice must partially overlap some input slice of its lane (nothing is dropped without a reason;
        # true when lanes arrive by ts asc / dur desc: an equal-start shorter-first arrival legitimately drops)
        for u in (lost if (case["presort"] or lane_sorted_by_ts(case, with_dur=True)) else []):
            o = orig[u]
            if o["ph"] != "X":
                continue
            io = (o["ts"], o["ts"] + o["dur"])
            if not any(partial_overlap(io, (p["ts"], p["ts"] + p["dur"])) for p in orig.values()
                       if p["ph"] == "X" and p is not o and (p["pid"], p["tid"]) == (o["pid"], o["tid"])):
                fail("dropped_without_overlap", "only partially overlapping slices are dropped", {"uid": u})
                break
    # (3) lanes never merge
    if mode == "TID":
        final = {}
        for e in xout:
            o = orig.get(e["args"]["uid"])
            if o is not None:
                final.setdefault((e["pid"], e["tid"]), set()).add((o["pid"], o["tid"]))
        for k, srcs in final.items():
            if len(srcs) > 1:
                fail("lanes_merged", "slices from different (pid,tid) stay on different lanes",
                     {"lane": list(k), "sources": sorted(map(list, srcs))})
                break
    return fails


def failing(case):
    return oracle(case, run_impl(case))


def shrink(f):
    """delta-debug the event list of an oracle failure, keeping the failure kind"""
    kind = f["signature"]["kind"]
    case = copy.deepcopy(f["input"])

    def still(c):
        for g in failing(c):
            if g["signature"]["kind"] == kind:
                return g
        return None
    best = f
    changed = True
    t0 = time.time()
    while changed and time.time() - t0 < 20:
        changed = False
        for k in range(len(case["events"])):
            c2 = dict(case, events=case["events"][:k] + case["events"][k + 1:])
            g = still(c2)
            if g:
                case, best, changed = c2, g, True
                break
    return best


# ---------------------------------------------------------------- generators
def intervals(T, zero=False):
    return [(s, e) for s in range(T + 1) for e in range(s if zero else s + 1, T + 1)]


def gen_exhaustive(ctx):
    """all multisets of <= n intervals on 0..T over <= 2 lanes (presorted, so the arrival order only matters for
    identical intervals).  Lanes are adjacent tids of one pid, so their private ranges are neighbours."""
    cases = []
    # one lane: up to 4 intervals on 0..6 (thorough: 5 on 0..7), chain of 2 lanes so that exhaustion is reached
    T1, n1 = ctx.pick((6, 4), (7, 5))
    items = [(3, s, e) for s, e in intervals(T1)]
    for n in range(0, n1 + 1):
        for fam in itertools.combinations_with_replacement(items, n):
            evs = [[True, 0, t, s, e - s, i] for i, (t, s, e) in enumerate(fam)]
            cases.append(mk_case("TID", 2, True, 1.0, evs))
    # same families in drop mode, zero-length slices allowed, shorter
    T1d, n1d = ctx.pick((5, 3), (6, 4))
    items = [(3, s, e) for s, e in intervals(T1d, zero=True)]
    for n in range(1, n1d + 1):
        for fam in itertools.combinations_with_replacement(items, n):
            evs = [[True, 0, t, s, e - s, i] for i, (t, s, e) in enumerate(fam)]
            cases.append(mk_case("DROP", 5, True, 1.0, evs))
            if n <= n1d - 1:
                cases.append(mk_case("TID", 1, True, 0.5, evs))
    # two lanes (three in the thorough tier, one of them in a second pid): <= 3 intervals on 0..4 and exactly 4 on
    # 0..3 (thorough: <= 4 on 0..4)
    lanes = ctx.pick([(0, 3), (0, 4)], [(0, 3), (0, 4), (1, 4)])
    for T2, sizes in ctx.pick([(4, (2, 3)), (3, (4,))], [(4, (2, 3, 4))]):
        items = [(p, t, s, e) for (p, t) in lanes for s, e in intervals(T2)]
        for n in sizes:
            for fam in itertools.combinations_with_replacement(items, n):
                if len({(p, t) for p, t, _, _ in fam}) < 2:
                    continue
                evs = [[True, p, t, s, e - s, i] for i, (p, t, s, e) in enumerate(fam)]
                cases.append(mk_case("TID", 1, True, 1.0, evs))
    # the log level is an option the result may not depend on: the families above are spread over -D 0..4 ...
    for i, c in enumerate(cases):
        c["ll"] = LOGLEVELS[i % len(LOGLEVELS)]
        if (i // len(LOGLEVELS)) % 2:                # every other block of five: the rank came as two input files
            c["jobs"] = 2
    # ... and every one-lane family of <= 3 intervals on 0..4 (thorough: <= 4 on 0..5) runs at every level, both modes
    T3, n3 = ctx.pick((4, 3), (5, 4))
    items = [(3, s, e) for s, e in intervals(T3)]
    for n in range(1, n3 + 1):
        for fam in itertools.combinations_with_replacement(items, n):
            evs = [[True, 0, t, s, e - s, i] for i, (t, s, e) in enumerate(fam)]
            for ll in LOGLEVELS:
                cases.append(mk_case("TID", 2, True, 1.0, evs, ll=ll))
                cases.append(mk_case("DROP", 5, True, 1.0, evs, ll=ll))
    return cases


def deep_nest(r, lo=18, hi=40):
    """a family of lo..hi slices of which each contains the next (occasional ties in start, end or both), i.e. a
    lane whose nesting depth is far beyond the number of overflow lanes - the tool sets no limit on the depth of a
    proper nest - followed by later slices that cross the end of ONE chosen level (mostly an outer one), touch the
    end of the level below it, or sit in the gap between two ends.  Returns [(s, e)] in ts asc / dur desc order."""
    D = r.randint(lo, hi) if r.random() < 0.9 else r.randint(hi + 1, 2 * hi)   # no depth is special
    steps = lambda: r.choice([0, 1, 1, 1, 2, 3])                               # noqa: E731
    starts, x = [], 0
    for _ in range(D):
        starts.append(x)
        x += steps()
    ends, x = [], starts[-1] + r.randint(1, 4)
    for _ in range(D):
        ends.append(x)
        x += steps()
    ends.reverse()                                                             # ends[0] = outermost
    fam = list(zip(starts, ends))
    late = []
    for _ in range(r.randint(1, 4)):
        j = r.choice([0, 0, 0, 1, 1, 2, 3, r.randrange(D)])
        j = min(j, D - 1)
        inner_end = ends[j + 1] if j + 1 < D else starts[-1] + 1
        s = r.randint(inner_end, ends[j] - 1) if inner_end < ends[j] else ends[j] - 1
        kind = r.random()
        if kind < 0.7:                                   # crosses the end of level j (and maybe of levels outside it)
            late.append((s, ends[j] + r.randint(1, 3)))
        elif kind < 0.85:                                # nested in level j, after (or touching) level j+1
            late.append((s, r.randint(s, ends[j])))
        else:                                            # after everything
            late.append((ends[0] + r.randint(0, 2), ends[0] + r.randint(2, 5)))
    late.sort(key=lambda iv: (iv[0], iv[0] - iv[1]))
    return fam + late


def gen_deep_case(r):
    mode = "TID" if r.random() < 0.6 else "DROP"
    ms = r.choice([5, 5, 5, 3, 1])
    presort = r.random() < 0.85
    pid = r.choice([0, 1, 7])
    tid = r.randint(0, 5)
    evs = [[True, pid, tid, s, e - s, 0] for s, e in deep_nest(r)]
    T = max(e[3] + e[4] for e in evs)
    for _ in range(r.randint(0, 6)):                     # neighbours: the next tid of the pid, another pid
        s = r.randint(0, T)
        evs.append([True, *r.choice([(pid, tid + 1), (pid, tid + 1), (pid + 1, tid)]), s, r.randint(1, max(1, T - s)), 0])
    if presort:
        r.shuffle(evs)                                   # the sort stage has to bring the lanes into order
    else:
        evs.sort(key=lambda e: (e[3], -e[4]))
    for i, e in enumerate(evs):
        e[5] = i
    return mk_case(mode, ms, presort, r.choice([1.0, 1.0, 0.5, 0.0625]), evs, ll=r.choice(LOGLEVELS))


def gen_random_case(r, big=False):
    if r.random() < 0.06:
        return gen_deep_case(r)
    mode = "TID" if r.random() < 0.75 else "DROP"
    ms = r.choice([5, 5, 5, 5, 3, 2, 1, 0])
    presort = r.random() < 0.8
    scale = r.choice([1.0, 1.0, 0.5, 0.25, 0.0625, 4.0])   # <= 4 decimals: round(ts+dur, 4) is the identity
    npid = r.choice([1, 1, 2, 3])
    pids = r.sample([0, 1, 2, 7], npid)
    lanes = []
    for p in pids:
        style = r.random()
        if style < 0.5:                              # adjacent tids: neighbouring private ranges
            base = r.randint(0, 5)
            tids = [base + i for i in range(r.randint(1, 4))]
        elif style < 0.8:                            # a tid sitting inside another lane's natural range
            base = r.randint(0, 5)
            tids = [base] + r.sample(range(base + 1, base + 9), r.randint(1, 3))
        else:
            tids = r.sample(range(0, 40), r.randint(1, 3))
        r.shuffle(tids)
        lanes += [(p, t) for t in tids]
    n = r.randint(1, 60 if big else 24)
    T = r.choice([4, 6, 8, 12, 20, 50])
    evs = []
    shape = r.random()
    for i in range(n):
        p, t = r.choice(lanes)
        if shape < 0.25:                             # staircase: mutually partially overlapping
            s = r.randint(0, T)
            d = T + r.randint(0, 3)
        elif shape < 0.45:                           # many ties in start / end
            s = r.choice([0, 1, 2, T // 2])
            d = r.choice([0, 1, 2, T // 2, T])
        elif shape < 0.6:                            # touching chains
            s = r.randint(0, T)
            d = r.choice([1, 2])
        else:
            s = r.randint(0, T)
            d = r.randint(0, max(1, T - s))
        isx = r.random() < 0.93
        evs.append([isx, p, t, s, d if isx else 0, i])
    if not presort and r.random() < 0.7:             # mostly in per-lane order, so that the assertion rarely fires
        evs.sort(key=lambda e: (e[3], -e[4]))
        for i, e in enumerate(evs):
            e[5] = i
    return mk_case(mode, ms, presort, scale, evs, ll=r.choice(LOGLEVELS), jobs=r.choice([None, None, 2, 2, 3]))


def load_corpus():
    """(kernel cases, end-to-end cases) from corpus/C04/*.json"""
    kern, e2e = [], []
    for fn in sorted(glob.glob(os.path.join(CORPUS, "*.json"))):
        d = json.load(open(fn))
        for c in d.get("cases", [d] if "events" in d else []):
            if c.get("mf"):
                continue                               # several input files: load_corpus_mf
            k = mk_case(c["mode"], c.get("ms", 5), c.get("presort", True), c.get("scale", 1.0), c["events"],
                        ll=c.get("ll"), jobs=c.get("jobs"))
            if c.get("e2e") and "D" in c:
                k["D"] = c["D"]
            (e2e if c.get("e2e") else kern).append(k)
    return kern, e2e


def nontrivial(case):
    xs = [e for e in case["events"] if e[0]]
    for a, b in itertools.combinations(xs, 2):
        if (a[1], a[2]) != (b[1], b[2]):
            continue
        ia, ib = (a[3], a[3] + a[4]), (b[3], b[3] + b[4])
        if partial_overlap(ia, ib) or ia[0] == ib[0] or ia[1] == ib[1]:
            return True
    return False


# ---------------------------------------------------------------- encoding
def coq_ev(e):
    isx, pid, tid, ts, dur, uid = e
    return f"(E {enc.B(isx)} {enc.Z(pid)} {enc.Z(tid)} {enc.Z(ts)} {enc.Z(dur)} {enc.Z(uid)})"


def coq_case(case):
    return enc.P(case["mode"], enc.N(case["ms"]), enc.B(case["presort"]), enc.L([coq_ev(e) for e in case["events"]]))


def coq_obs(obs):
    return enc.V([obs["result"], obs["table"]])


# ---------------------------------------------------------------- end to end
E2E_PID_TID = (0, 1000)       # where the default pipeline puts host slices of a single input file before detection


def run_e2e(case, work):
    """Acelyzer end to end on host slices of one file; returns {"result": sorted [[uid, tid]] | Err, "raw": [...]}"""
    import aiu_trace_analyzer.logger as aiulog
    from aiu_trace_analyzer.core.acelyzer import Acelyzer
    sc = case["scale"]
    evs = [{"ph": "X", "name": f"host_{uid}", "pid": 0, "tid": tid, "ts": ts * sc, "dur": dur * sc,
            "args": dict({"uid": uid}, **({"External id": 100 + uid} if case.get("annot") else {}))}
           for isx, pid, tid, ts, dur, uid in case["events"]]
    outp = os.path.join(work, "e2e_out.json")
    if os.path.exists(outp):
        os.remove(outp)
    payload = evs
    if case.get("torch"):
        # a torch-profiler style input (TORCH dialect) whose thread ids are strings, as older profiler versions write
        # them: ingestion works on hash(tid) and the export gives the string back
        for e in evs:
            e["tid"] = f"stream {e['tid']}"
            e["cat"] = "cpu_op"
        payload = {"deviceProperties": [{"id": 0, "name": "AIU", "type": "aiu"}], "traceEvents": evs}
    try:
        # "D" (optional): the -D log level of the run (0..4); absent = -D 0 and logging silenced altogether
        with contextlib.redirect_stdout(_Null()):
            try:
                ace = Acelyzer(["-i", "api://jsonbuffer", "-o", outp, "-O", case["mode"].lower(),
                                "-D", str(case.get("D", 0))], in_data=json.dumps(payload).encode())
                if "D" not in case:
                    aiulog.loglevel = -1
                rc = ace.run()
                del ace
            finally:
                aiulog.loglevel = -1
        if rc != 0:
            return {"result": enc.Err(f"rc{rc}"), "raw": []}
        data = json.load(open(outp))
        xs = [e for e in data["traceEvents"] if e.get("ph") == "X"]
        return {"result": sorted([e["args"]["uid"], e["tid"]] for e in xs), "raw": xs}
    except SystemExit as e:
        return {"result": enc.Err(f"SystemExit{e.code}"), "raw": []}
    except Exception as e:  # noqa: BLE001
        return {"result": enc.Err(type(e).__name__), "raw": []}


def oracle_e2e(case, obs):
    mode, sc = case["mode"], case["scale"]
    fails = []

    def fail(kind, expected, observed, **facts):
        sig = {"kind": kind, "mode": mode, "stage": "end_to_end"}
        sig.update(facts)
        fails.append({"input": dict(case, e2e=True), "expected": expected, "observed": observed, "signature": sig})
    slices = [(e[3], e[3] + e[4]) for e in case["events"]]
    if isinstance(obs["result"], enc.Err):
        if mode == "DROP" or max_depth(slices) <= 6 or max_depth(crossing(slices)) <= 5:
            fail("unexpected_exception", "exit 0: nesting depth <= 6, or at most 5 lane-leaving slices over any point",
                 obs["result"].tag, exception=obs["result"].tag)
        return fails
    by_lane = {}
    for e in obs["raw"]:
        by_lane.setdefault((e["pid"], e["tid"]), []).append(e)
    for k, l in by_lane.items():
        hit = next(((a, b) for a, b in itertools.combinations(l, 2)
                    if partial_overlap((a["ts"], a["ts"] + a["dur"]), (b["ts"], b["ts"] + b["dur"]))), None)
        if hit:
            fail("partial_overlap_on_lane", "exported slices of one (pid,tid) disjoint or nested",
                 {"lane": list(k), "a": hit[0], "b": hit[1]})
            break
    orig = {e[5]: e for e in case["events"]}
    cnt = {}
    for e in obs["raw"]:
        u = e["args"]["uid"]
        cnt[u] = cnt.get(u, 0) + 1
        o = orig.get(u)
        if o is None or e["ts"] != o[3] * sc or e["dur"] != o[4] * sc or e["name"] != f"host_{u}":
            fail("slice_changed", "ts, dur, name unchanged", {"uid": u, "event": e})
            break
    if any(n > 1 for n in cnt.values()):
        fail("slice_duplicated", "every slice exported once", sorted(u for u, n in cnt.items() if n > 1))
    if mode == "TID" and len(cnt) != len(orig):
        fail("slice_lost", "tid mode never drops a slice", sorted(u for u in orig if u not in cnt))
    if len({e["pid"] for e in obs["raw"]}) > 1:
        fail("pid_changed", "one input pid -> one exported pid", sorted({e["pid"] for e in obs["raw"]}))
    return fails


def gen_e2e_case(r):
    mode = "TID" if r.random() < 0.7 else "DROP"
    n = r.randint(1, 14)
    T = r.choice([4, 6, 10, 20])
    evs = []
    deep = r.random() < 0.15
    for i in range(n):
        s = r.randint(0, T)
        d = T + r.randint(0, 2) if deep else r.randint(1, max(1, T - s))   # zero-length host slices are removed
        evs.append([True, 0, r.choice([1, 2, 3]), s, d, i])                  # by an earlier stage of the pipeline
    if r.random() < 0.12:
        # a deep proper nest (all host slices share one lane) and later slices crossing one of its ends
        evs = [[True, 0, r.choice([1, 1, 1, 2]), s, max(e - s, 1), 0] for s, e in deep_nest(r, 18, 32)]
        r.shuffle(evs)
        for i, e in enumerate(evs):
            e[5] = i
    # (1/16 us = 0.0625: exact at the 0.1 ns the tool rounds to internally, but off the 1 ns grid - nothing may round slice
    # boundaries on the way to the export)
    case = mk_case(mode, 5, True, r.choice([1.0, 0.5, 0.25, 0.0625]), evs)
    # host slices of a FLEX file that carry torch-profiler annotations: a later stage renames their lanes
    case["annot"] = r.random() < 0.25
    # every eighth case: the same slices as a torch profile with string thread ids (oracle only, no Coq comparison:
    # the lanes are hash values there)
    case["torch"] = (not case["annot"]) and r.random() < 0.125
    case["D"] = r.choice(LOGLEVELS)      # the log level is an option the exported lanes may not depend on
    return case


def coq_e2e_case(case):
    # the model sees what reaches the overlap stages: every host slice on lane (pid, 1000)
    evs = [[True, E2E_PID_TID[0], E2E_PID_TID[1], ts, dur, uid] for _, _, _, ts, dur, uid in case["events"]]
    return enc.P(enc.P(case["mode"], enc.B(bool(case.get("annot")))), enc.L([coq_ev(e) for e in evs]))


# ---------------------------------------------------------------- end to end, one rank delivered as several input files
# a multi-file case: {"e2e": True, "mf": True, "mode", "scale", "D", "files": [{"rank": r, "events": [[isdev, tid, ts,
# dur, uid], ...]}, ...]} - every file is a FLEX file of ONE rank (pid = rank on every event); a rank may own several
# files of the run (`-i rank0.json,rank0.b.json,...`: two jobs on one device).  Host slices (isdev false) and device
# slices (TS1..TS5 cycle counters of the rank's one counter, SoC clock 1000 MHz = the default --freq) share the integer
# grid; the exported lanes are what the property speaks about, whatever file a slice came from.
MF_FREQ = 1000.0             # cycles per us (Acelyzer.defaults["freq"])
MF_TOL = 1.0e-4              # "up to the 0.1 ns rounding the tool itself applies"
MF_SUFFIX = ("", ".b", ".c")


def mf_epoch(rank):
    return 100000 + 37000 * rank


def mf_event(rank, ev, sc):
    isdev, tid, ts, dur, uid = ev
    if not isdev:
        return {"ph": "X", "name": f"host_{uid}", "pid": rank, "tid": tid, "ts": ts * sc, "dur": dur * sc,
                "args": {"uid": uid}}
    c1 = mf_epoch(rank) + int(ts * sc * MF_FREQ)
    c4 = c1 + int(dur * sc * MF_FREQ)
    return {"ph": "X", "name": f"kern{uid % 3} Cmpt Exec", "pid": rank, "tid": tid, "ts": ts * sc, "dur": dur * sc,
            "args": {"uid": uid, "TS1": str(c1), "TS2": str(c1 + 10), "TS3": str(c1 + 20), "TS4": str(c4),
                     "TS5": str(c4 + 10), "Power": "100"}}


def run_mf(case, work):
    """Acelyzer end to end on several FLEX files; returns {"result": sorted [[uid, pid, tid]] | Err, "raw": [X slices]}"""
    import aiu_trace_analyzer.logger as aiulog
    from aiu_trace_analyzer.core.acelyzer import Acelyzer
    sc = case["scale"]
    d = tempfile.mkdtemp(prefix="mf_", dir=work)
    try:
        paths, nth = [], {}
        for f in case["files"]:
            k = nth.get(f["rank"], 0)
            nth[f["rank"]] = k + 1
            p = os.path.join(d, f"rank{f['rank']}{MF_SUFFIX[k] if k < len(MF_SUFFIX) else '.' + str(k)}.json")
            with open(p, "w") as fh:
                json.dump([mf_event(f["rank"], e, sc) for e in f["events"]], fh)
            paths.append(p)
        outp = os.path.join(d, "out.json")
        with contextlib.redirect_stdout(_Null()):
            try:
                ace = Acelyzer(["-i", ",".join(paths), "-o", outp, "-O", case["mode"].lower(),
                                "-D", str(case.get("D", 0))])
                if "D" not in case:
                    aiulog.loglevel = -1
                rc = ace.run()
                del ace
            finally:
                aiulog.loglevel = -1
        if rc != 0:
            return {"result": enc.Err(f"rc{rc}"), "raw": []}
        xs = [e for e in json.load(open(outp))["traceEvents"] if e.get("ph") == "X"]
        return {"result": sorted([e.get("args", {}).get("uid", -1), e["pid"], e["tid"]] for e in xs), "raw": xs}
    except SystemExit as e:
        return {"result": enc.Err(f"SystemExit{e.code}"), "raw": []}
    except Exception as e:  # noqa: BLE001
        return {"result": enc.Err(type(e).__name__), "raw": []}
    finally:
        shutil.rmtree(d, ignore_errors=True)


def partial_overlap_tol(a, b, tol=MF_TOL):
    """neither disjoint nor nested, by more than the tool's own rounding"""
    (s1, e1), (s2, e2) = a, b
    return (s1 + tol < s2 and s2 + tol < e1 and e1 + tol < e2) or (s2 + tol < s1 and s1 + tol < e2 and e2 + tol < e1)


def mf_inputs(case):
    """uid -> (rank, file index, isdev, tid, start, end) on the grid"""
    return {e[4]: (f["rank"], i, bool(e[0]), e[1], e[2], e[2] + e[3])
            for i, f in enumerate(case["files"]) for e in f["events"]}


def mf_cross_pairs(case):
    """(host, device): pairs of slices of one rank that come from DIFFERENT files, sit on one input lane (all host
    slices of a rank share the exported host lane) and partially overlap"""
    inp = list(mf_inputs(case).values())
    h = d = 0
    for a, b in itertools.combinations(inp, 2):
        if a[0] != b[0] or a[1] == b[1] or a[2] != b[2] or (a[2] and a[3] != b[3]):
            continue
        if partial_overlap(a[4:], b[4:]):
            if a[2]:
                d += 1
            else:
                h += 1
    return h, d


def oracle_mf(case, obs):
    mode, sc = case["mode"], case["scale"]
    fails = []

    def fail(kind, expected, observed, **facts):
        sig = {"kind": kind, "mode": mode, "stage": "end_to_end_multi_file"}
        sig.update(facts)
        fails.append({"input": case, "expected": expected, "observed": observed, "signature": sig})
    inp = mf_inputs(case)
    if isinstance(obs["result"], enc.Err):
        # all slices of a rank taken as ONE family (a superset of every lane of the rank, so within the limits there
        # means within the limits on every lane: a device stream may be given the host stream's tid while the overlaps
        # are resolved); a device slice runs from TS3 = TS1 + 20 cycles to TS4
        fam = {}
        for rank, _, isdev, tid, s, e in inp.values():
            fam.setdefault(rank, []).append((s * sc + (20 / MF_FREQ if isdev else 0), e * sc))
        if mode == "DROP" or all(max_depth(v) <= 6 or max_depth(crossing(v)) <= 5 for v in fam.values()):
            fail("unexpected_exception", "exit 0: nesting depth of the rank's slices <= 6, or at most 5 lane-leaving "
                 "slices over any point", obs["result"].tag, exception=obs["result"].tag)
        return fails
    # (1) every exported lane is laminar, whatever input file its slices came from
    by_lane = {}
    for e in obs["raw"]:
        by_lane.setdefault((e["pid"], e["tid"]), []).append(e)
    for k, l in by_lane.items():
        hit = next(((a, b) for a, b in itertools.combinations(l, 2)
                    if partial_overlap_tol((a["ts"], a["ts"] + a["dur"]), (b["ts"], b["ts"] + b["dur"]))), None)
        if hit:
            ua, ub = (x.get("args", {}).get("uid") for x in hit)
            fa, fb = (inp[u][1] if u in inp else None for u in (ua, ub))
            fail("partial_overlap_on_lane", "exported slices of one (pid,tid) disjoint or nested",
                 {"lane": [str(x) for x in k], "a": hit[0], "b": hit[1], "input_files": [fa, fb]},
                 lane_kind="device" if (ua in inp and inp[ua][2]) else "host",
                 same_file=(fa == fb))
            break
    # (2) nothing lost under -O tid, nothing duplicated, host slices keep ts / dur / name
    cnt = {}
    for e in obs["raw"]:
        u = e.get("args", {}).get("uid")
        if u is None:
            continue                                   # a slice the tool derived itself
        cnt[u] = cnt.get(u, 0) + 1
        o = inp.get(u)
        if o is None:
            fail("slice_invented", "every exported uid is an input uid", {"uid": u})
            break
        if not o[2] and (e["ts"] != o[4] * sc or e["dur"] != (o[5] - o[4]) * sc or e["name"] != f"host_{u}"):
            fail("slice_changed", "ts, dur, name of a host slice unchanged", {"uid": u, "event": e})
            break
    if any(n > 1 for n in cnt.values()):
        fail("slice_duplicated", "every slice exported once", sorted(u for u, n in cnt.items() if n > 1))
    lost = sorted(u for u in inp if u not in cnt)
    if mode == "TID" and lost:
        fail("slice_lost", "tid mode never drops a slice", lost)
    if mode == "DROP":
        # nothing is dropped without a reason: a dropped host slice partially overlaps another host slice of its rank
        # (they share one lane), a dropped device slice shares more than a point with another device slice of its
        # stream (device slices start a few cycles after TS1, so the test is the loose one there).  Host and device
        # slices never share a lane: since the repair of the lane-1000 defect (36b7974) a device stream is no longer given
        # the host lane's tid while overlaps are resolved, and a drop "because of" a slice of the other kind is a failure.
        for u in lost:
            o = inp[u]
            if not any(v is not o and v[0] == o[0] and v[2] == o[2] and
                       (partial_overlap(o[4:], v[4:]) if not o[2] else (v[3] == o[3] and o[4] < v[5] and v[4] < o[5]))
                       for v in inp.values()):
                fail("dropped_without_overlap", "only partially overlapping slices are dropped",
                     {"uid": u, "slice": list(o)})
                break
    return fails


def mf_family(r, T, n, shape):
    out = []
    for _ in range(n):
        if shape < 0.3:                                  # staircase: mutually partially overlapping
            s, d = r.randint(0, T), T // 2 + r.randint(1, 3)
        elif shape < 0.5:                                # ties in start / end, touching
            s = r.choice([0, 1, 2, T // 2])
            d = r.choice([1, 2, T // 2, T // 2, T])
        else:
            s = r.randint(0, T)
            d = r.randint(1, max(1, T - s))
        out.append((s, d))
    return out


def gen_mf_case(r):
    mode = "TID" if r.random() < 0.65 else "DROP"
    T = r.choice([6, 10, 20])
    ranks = r.choice([[0], [0], [0, 1], [1], [0, 2]])
    files, uid = [], 0
    for rank in ranks:
        nf = r.choice([2, 2, 2, 3, 1])
        per = [[] for _ in range(nf)]
        slices = [(False, r.choice([1, 2, 3]), s, d) for s, d in mf_family(r, T, r.randint(2, 9), r.random())]
        for tid in r.sample([42, 43, 44], r.choice([0, 1, 1, 2])):
            slices += [(True, tid, s, d) for s, d in mf_family(r, T, r.randint(2, 4), r.random())]
        if nf > 1 and r.random() < 0.6:
            # a slice of one file that crosses the end (or touches it, or ends with it) of a slice of another file
            isdev, tid, s, d = r.choice(slices)
            s2 = r.randint(s, s + d)
            e2 = s + d + r.choice([0, 1, 1, 2, 3])
            if e2 > s2:
                slices.append((isdev, tid, s2, e2 - s2))
        for k, sl in enumerate(slices):
            per[r.randrange(nf) if k >= nf else k].append([sl[0], sl[1], sl[2], sl[3], 0])
        for evs in per:
            if not evs:
                continue
            if r.random() < 0.8:
                evs.sort(key=lambda e: e[2])             # a file is written in time order ...
            else:                                        # ... the host part not always; the device counter only grows
                dv = sorted((e for e in evs if e[0]), key=lambda e: e[2])
                hs = [e for e in evs if not e[0]]
                r.shuffle(hs)
                evs[:] = hs + dv if r.random() < 0.5 else dv + hs
            for e in evs:
                e[4] = uid
                uid += 1
            files.append({"rank": rank, "events": evs})
    if r.random() < 0.5:
        r.shuffle(files)                                 # the order of the -i list is the user's
    return {"e2e": True, "mf": True, "mode": mode, "scale": r.choice([1.0, 1.0, 0.5, 0.25, 0.125]),
            "D": r.choice(LOGLEVELS), "files": files}


def load_corpus_mf():
    out = []
    for fn in sorted(glob.glob(os.path.join(CORPUS, "*.json"))):
        d = json.load(open(fn))
        for c in d.get("cases", []):
            if c.get("mf"):
                out.append({"e2e": True, "mf": True, "mode": c["mode"], "scale": c.get("scale", 1.0),
                            "files": c["files"], **({"D": c["D"]} if "D" in c else {})})
    return out


# ---------------------------------------------------------------- check
def run(ctx):
    r = ctx.rng
    corpus, corpus_e2e = load_corpus()
    exh = gen_exhaustive(ctx)
    rnd = [gen_random_case(r, big=(i % 10 == 0)) for i in range(ctx.pick(2000, 30000))]
    cases = corpus + exh + rnd
    terms, oracle_failures, seen, nontriv = [], [], set(), 0
    dist = {"mode": {}, "n_events": {}, "ms": {}, "presort": {}, "scale": {}, "outcome": {}, "moved_slices": {},
            "corpus": len(corpus), "exhaustive": len(exh), "random": len(rnd)}

    def bump(d, k):
        d[str(k)] = d.get(str(k), 0) + 1
    raw_fail = []
    for case in cases:
        obs = run_impl(case)
        terms.append((coq_case(case), coq_obs(obs)))
        fs = oracle(case, obs)
        if fs and len(raw_fail) < 40:
            raw_fail += fs[:2]
        key = json.dumps(case, sort_keys=True)
        if key not in seen:
            seen.add(key)
            nontriv += nontrivial(case)
        bump(dist["mode"], case["mode"])
        bump(dist["n_events"], min(len(case["events"]) // 5 * 5, 60))
        bump(dist["ms"], case["ms"])
        bump(dist["presort"], case["presort"])
        bump(dist["scale"], case["scale"])
        if isinstance(obs["result"], enc.Err):
            bump(dist["outcome"], obs["result"].tag)
        else:
            bump(dist["outcome"], "ok")
            tid0 = {e[5]: e[2] for e in case["events"]}
            moved = sum(1 for e in obs["result"] if tid0.get(e[5]) != e[2]) \
                if case["mode"] == "TID" else len(case["events"]) - len(obs["result"])
            bump(dist["moved_slices"], min(moved, 10))
    n_oracle_fail = len(raw_fail)
    bad, extras, secs = coqrun.run_cases(
        "C04", "From AiuModel Require Import Overlap.", "case_in", "run_val", terms,
        extra="Definition nt := Eval vm_compute in (count_if nontrivial cases).\nOpen Scope nat_scope.\nPrint nt.", shard=600, timeout=900)
    mism = [{"name": "correspondence Overlap.run_val vs EventSortingContext + OverlapDetectionContext",
             "case": cases[j], "impl": terms[j][1][:600]} for j in bad[:5]]
    # kind-diverse, shrunk failures
    picked, kinds = [], set()
    for f in raw_fail:
        k = (f["signature"]["kind"], f["signature"]["mode"])
        if k not in kinds:
            kinds.add(k)
            picked.append(shrink(f))
    # the oracle on the mismatching cases (smallest first) — usually the quickest way to a replay
    if bad and not picked:
        for j in sorted(bad, key=lambda j: len(cases[j]["events"]))[:200]:
            fs = failing(cases[j])
            if fs:
                picked.append(shrink(fs[0]))
                break

    # end to end
    e2e_cases = list(corpus_e2e)
    e2e_cases += [gen_e2e_case(r) for _ in range(ctx.pick(120, 2000))]
    work = tempfile.mkdtemp(prefix="c04_", dir=ctx.work)
    e2e_terms, e2e_fail, tie_cases = [], [], []
    try:
        for case in e2e_cases:
            obs = run_e2e(case, work)
            if not case.get("torch"):
                e2e_terms.append((coq_e2e_case(case), enc.V(obs["result"])))
                tie_cases.append(case)
            fs = oracle_e2e(case, obs)
            if fs and len(e2e_fail) < 5:
                e2e_fail += fs[:1]
            bump(dist["outcome"], "e2e_" + (obs["result"].tag if isinstance(obs["result"], enc.Err) else "ok"))
        # one rank delivered as several input files (oracle only: device times are floats, and which of two identical
        # slices of different files arrives first is not modelled)
        mf_cases = load_corpus_mf() + [gen_mf_case(r) for _ in range(ctx.pick(150, 2500))]
        dist["multi_file"] = {"cases": len(mf_cases), "ranks_with_several_files": 0, "cross_file_overlap_host": 0,
                              "cross_file_overlap_device": 0, "outcome": {}}
        mf_fail = []
        for case in mf_cases:
            obs = run_mf(case, work)
            fs = oracle_mf(case, obs)
            if fs and len(mf_fail) < 5:
                mf_fail += fs[:1]
            h, d = mf_cross_pairs(case)
            m = dist["multi_file"]
            m["cross_file_overlap_host"] += h > 0
            m["cross_file_overlap_device"] += d > 0
            rk = [f["rank"] for f in case["files"]]
            m["ranks_with_several_files"] += len(rk) != len(set(rk))
            bump(m["outcome"], obs["result"].tag if isinstance(obs["result"], enc.Err) else "ok")
        e2e_fail += mf_fail
    finally:
        shutil.rmtree(work, ignore_errors=True)
    bad2, _, secs2 = coqrun.run_cases(
        "C04_e2e", "From AiuModel Require Import Overlap Lanes.", "((mode * bool) * list ev)", "e2e_val", e2e_terms,
        prelude=E2E_PRELUDE, shard=500)
    mism += [{"name": "correspondence Overlap.run (host slices on lane (pid,1000)) vs Acelyzer end to end",
              "case": dict(tie_cases[j], e2e=True), "impl": e2e_terms[j][1][:600]} for j in bad2[:3]]
    for f in e2e_fail:
        k = (f["signature"]["kind"], f["signature"].get("stage", "e2e"))
        if k not in kinds:
            kinds.add(k)
            picked.append(f)
    if bad2 and not picked:
        for j in bad2[:50]:
            c = tie_cases[j]
            kc = mk_case(c["mode"], 5, True, c["scale"], [[True, 0, 1000, e[3], e[4], e[5]] for e in c["events"]])
            fs = failing(kc)
            if fs:
                picked.append(shrink(fs[0]))
                break

    return {
        "evaluations": len(cases) + len(e2e_cases) + len(mf_cases), "distinct_nontrivial": nontriv,
        "rule": "kernel cases = corpus + all multisets of <= %s intervals on one lane / <= 4 (0..3; <= 3 on 0..4) on two%s lanes of a small "
                "integer grid (TID with short chains so exhaustion is reached, DROP, zero-length slices) + random "
                "families (<= 60 events, <= 3 pids, adjacent/interleaved tids, staircases beyond the lane limit, ties, "
                "touching, instant events mixed in, presorted or raw, max_tid_streams 0..5, dyadic time scales; 6%% deep "
                "proper nests of 18..80 levels in one lane followed by slices crossing / touching one of the ends) "
                "+ end-to-end runs (12%% deep nests) + end-to-end runs on several FLEX files (1-2 ranks, a rank "
                "delivered as 1-3 files, host and device slices of different files on one lane with partial overlaps, "
                "ties and touching ends; oracle only). The log level varies over 0..4 in every group (logger.loglevel "
                "in the stage drive, -D end to end); one-lane families of <= 3 intervals on 0..4 run at every level. non-trivial = distinct kernel cases with two ph-X slices on one (pid,tid) that "
                "partially overlap or share a start or an end (same rule inside Coq over all kernel cases incl. "
                "duplicates: %s); measured, not copied from evaluations"
                % (ctx.pick("4 (0..6)", "5 (0..7)"), ctx.pick("", "/three"), extras.get("nt")),
        "samples": [cases[j] for j in (len(corpus) + 5, len(corpus) + len(exh) - 1, len(cases) - 1) if j < len(cases)],
        "mismatches": mism, "oracle_failures": picked,
        "ties": [{"name": "Overlap.run_val = sort_events + OverlapDetectionContext (stream/exception + tid_space)",
                  "cases": len(cases), "mismatching": len(bad), "coq_seconds": round(secs, 1)},
                 {"name": "Overlap.run on lane (pid,1000) = Acelyzer -O tid|drop end to end (uid -> tid)",
                  "cases": len(e2e_cases), "mismatching": len(bad2), "coq_seconds": round(secs2, 1)}],
        "distribution": dist, "exhaustive": True,
        "notes": [f"oracle failures before de-duplication/shrinking: {n_oracle_fail}"],
    }


E2E_PRELUDE = """
Definition uid_leb (a b : ev) : bool := (uid a <=? uid b)%Z.
(* tb_refinement_lightweight, a later stage: host slices that carry torch-profiler annotations ("External id") are pulled
   to the top by renaming their lane t to t/10 + t mod 10 (1000..1005 -> 100..105) *)
Definition light_tid (annot : bool) (t : Z) : Z := if annot then Lanes.light_tid t else t.
Definition e2e_val (c : (mode * bool) * list ev) : val :=
  match run (fst (fst c)) 5%nat true (snd c) with
  | Err t => VE t
  | Ok _ out => VL (map (fun a => VL [VZ (uid a); VZ (light_tid (snd (fst c)) (tid a))]) (isort uid_leb out))
  end.
"""


def search(ctx, res, broken):
    """something broke but the run's oracle was silent: oracle on a fresh, larger stream (time-bounded)"""
    import random
    r = random.Random(ctx.seed + 4004)
    t0 = time.time()
    budget = ctx.pick(60, 600)
    n = 0
    while time.time() - t0 < budget and n < ctx.pick(30000, 300000):
        n += 1
        c = gen_random_case(r, big=(n % 3 == 0))
        fs = failing(c)
        if fs:
            return [shrink(fs[0])]
    work = tempfile.mkdtemp(prefix="c04s_", dir=ctx.work)
    try:
        for _ in range(ctx.pick(300, 3000)):
            if time.time() - t0 > budget * 1.5:
                break
            c = gen_e2e_case(r)
            fs = oracle_e2e(c, run_e2e(c, work))
            if fs:
                return [fs[0]]
            c = gen_mf_case(r)
            fs = oracle_mf(c, run_mf(c, work))
            if fs:
                return [fs[0]]
    finally:
        shutil.rmtree(work, ignore_errors=True)
    return []


def replay(ctx, payload):
    f = payload.get("failing")
    if not f:
        return True, "replay file names only broken obligations: " + str(payload.get("broken"))[:500]
    case = f["input"]
    if case.get("e2e"):
        work = tempfile.mkdtemp(prefix="c04r_", dir=ctx.work)
        try:
            obs = (run_mf if case.get("mf") else run_e2e)(case, work)
            fs = (oracle_mf if case.get("mf") else oracle_e2e)(case, obs)
        finally:
            shutil.rmtree(work, ignore_errors=True)
        return not fs, {"observed": obs["result"] if not isinstance(obs["result"], enc.Err) else repr(obs["result"]),
                        "failures": [x["signature"] for x in fs]}
    obs = run_impl(case)
    fs = oracle(case, obs)
    return not fs, {"observed": obs["result"] if not isinstance(obs["result"], enc.Err) else repr(obs["result"]),
                    "table": obs["table"], "failures": [{"signature": x["signature"], "observed": x["observed"]}
                                                        for x in fs]}
