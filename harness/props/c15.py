"""C15 — multi-file ingestion is a loss-free time-ordered merge with correct B/E pairing.

Tie: the real MultifileIngest (one JsonFileEventTraceIngest per generated file, iterated through the
public iterator protocol: one iter(), then next() until StopIteration/exception) is compared, inside
Coq, with Ingest.ingest_val: every emitted event projected to (uid, ph, name, ts, dur, pid,
args.rank/jobhash, attr.rank/jobhash) in emission order, plus per file (zero-duration count,
negative-duration count, final rank_pid), or the events emitted before an exception + its class.
Oracle: an independent Python statement of the property (expected slices from the file contents,
exactly-once by uid, dur = E.ts - B.ts, skip counters, per-file order, global order of the events that
have a ts if every file's events that have a ts are ordered (any sign of ts, events without ts anywhere),
rank/pid attribution, error class for malformed pairs) on the implementation's output.
"""
import copy
import glob
import json
import os
import shutil
import time
import zlib
from fractions import Fraction

from common import coqrun, e2e, enc

ID = "C15"
PROP_FILE = "props/C15.v"
THEOREMS = ["C15_merge_complete", "C15_merge_perm", "C15_merge_per_file_order", "C15_merge_sorted",
            "C15_raw_sorted_stream_sorted", "C15_pairing", "C15_rank_attr", "C15_fuel_sufficient",
            "C15_wf_files_ok", "C15_json_path_is_json"]
ALLOWED_AXIOMS = []
MANIFEST = {
    "text": "Proof. Coq theorems over an executable model (Ingest.v) of JsonEventTraceIngest (updated_event, FLEX rank "
            "annotation, build_complete_event, sane_event) and MultifileIngest (__iter__ prefill, event front = append + "
            "stable descending sort + pop from the end, refill, disable, silent-drop branch), for any number of files of "
            "any length: if no per-file iterator raises, the merged stream is emitted completely with the model's fuel, "
            "never takes the silent-drop branch, is a permutation of the concatenated per-file streams "
            "(C15_merge_complete/_perm), preserves every file's order (C15_merge_per_file_order); time order as the "
            "property states it, for all rational ts (negative included) and events without ts anywhere in the files: if "
            "in every file the events that have a ts are non-decreasing, the merged stream's events that have a ts are "
            "non-decreasing (C15_merge_sorted; the same for raw file -> per-file stream: C15_raw_sorted_stream_sorted). "
            "The model's sort key is the code's: ts, or -inf (an option, None below every number - not a number) for an "
            "event without ts, which is therefore emitted as soon as it heads its file. Per file, over the grammar X | adjacent B/E | M, i, b, e (with or without an "
            "args dict) | other, the stream is exactly the expected slices with dur = E.ts - B.ts, metadata passed on, "
            "skipped = counted (C15_pairing), and every annotated event carries the rank latched from the first "
            "annotated pid, in a fresh args dict if it had none (C15_rank_attr); such files never raise "
            "(C15_wf_files_ok). The model is tied to the code "
            "by a correspondence run of the real MultifileIngest on generated file sets vs vm_compute of the model.",
    "note": "Trusted: Coq kernel + vm_compute; the hand-written model Ingest.v is tied by differential testing only "
            "(exact-grid timestamps so Q and double agree; tiny durations around the 1e-9 tolerance as exact doubles). "
            "Protocol assumption: __iter__ is called once (Engine.run does); a second __iter__ reaches the silent-drop "
            "branch and loses events (DESIGN C15 observation). Outside the model: TORCH dialect, string pids/tids, "
            "scale != 1, .pftrace/api:// sources, glob order of wildcard patterns (the tie passes explicit comma "
            "lists). Print Assumptions: closed under the global context.",
    "technique": "Coq proof (induction over fuel with a front/enabled invariant; induction over the token list) + "
                 "vm_compute correspondence against the real MultifileIngest",
    "design_ref": "DESIGN.md section 4/C15, design-spikes/merge_perm.v (absorbed)",
}
TRUSTED = [
    "modelled, not verified: json.load, pathlib glob of an exact file name, list.sort stability with reverse=True, "
    "math.isclose(d, 0.0, abs_tol=1e-9) == (d <= double(1e-9)) for d >= 0, zlib.crc32 (job id is an input of the model)",
    "events of the tie carry integer pids and a top-level 'uid'; other keys (tid, user args) are passed through by the "
    "code and not projected",
]
ASSUMPTIONS = [
    "MultifileIngest.__iter__ is called exactly once per object (iterator protocol as used by Engine.run)",
    "FLEX dialect (no deviceProperties), scale 1.0, integer pids",
    "theorems about loss-freedom/order assume no per-file iterator raises (malformed pairs abort the run; the tie "
    "compares the error class and what was emitted before)",
    "order claim (theorem and oracle): about the events that have a ts, as sub-sequences of the per-file streams and of "
    "the merged stream; no sign restriction on ts, no restriction on where events without ts stand; where an event "
    "without ts is emitted is fixed by the model/tie (as soon as it heads its file), not by the oracle",
]

TOL = Fraction(1e-9)          # exact value of the double 1e-9
TINY = [1e-9, 1.0000000000000003e-09, 5e-10, 1.5e-9, 1e-6, 1e-12]


# ---------------------------------------------------------------- implementation driver
def crc_job(path):
    return zlib.crc32(str(path).encode()) % 10000


def file_json(f):
    evs = [e for tok in f["tokens"] for e in tok]
    if f.get("form", "list") == "list":
        return evs
    d = {"traceEvents": evs, "displayTimeUnit": "ms"}
    if f.get("rank") is not None:
        d["distributedInfo"] = {"rank": f["rank"]}
    if f.get("processed"):
        d["otherData"] = {"Application": "Acelyzer 1.0"}
    return d


def proj(e):
    def ad(d):
        return None if d is None else [d.get("rank"), d.get("jobhash")]
    return [e.get("uid"), e.get("ph"), e.get("name"), e.get("ts"), e.get("dur"), e.get("pid"),
            ad(e.get("args")), ad(e.get("attr"))]


def run_impl(case, work):
    """case: list of file descriptions.  Returns (events, tail, paths): events = projected emitted events,
    tail = per-file [zero, neg, rank_pid] or enc.Err(class)."""
    import aiu_trace_analyzer.logger as aiulog
    from aiu_trace_analyzer.ingest.ingestion import MultifileIngest
    os.makedirs(work, exist_ok=True)
    paths = []
    # where the files of the set live is not part of the case: flat (f0.json, f1.json, ...), one directory per file with
    # the SAME base name (rank0/trace.json, rank1/trace.json: the usual multi-rank layout), or two different files
    # whose paths share a 4-digit job id (crc32(path) % 10000)
    nev = sum(len(t) for f in case for t in f["tokens"])
    layout = ("flat", "dirs", "collide", "flat", "odd_names", "dirs", "odd_names", "flat")[nev % 8]
    # file and directory names are data too: a JSON input is a JSON input whatever else its path contains (other known
    # extensions as substrings, several dots, upper case; blanks and commas separate the entries of -i)
    odd = ["aiu.login1.rank{i}.json", "run.logs/r{i}.json", "x.logits.{i}.json", "trace.pftrace.bak/f{i}.json",
           "job-7/rank_{i}.json", "A.JSON.d/f{i}.json", "f{i}.log.json", "r{i}.json.json"]        # (no blanks: -i splits on them)
    for i, f in enumerate(case):
        p = os.path.join(work, f"f{i}.json")
        if layout == "odd_names":
            p = os.path.join(work, odd[(nev // 8 + i) % len(odd)].format(i=i))
            os.makedirs(os.path.dirname(p), exist_ok=True)
        elif layout == "dirs":
            os.makedirs(os.path.join(work, f"rank{i}"), exist_ok=True)
            p = os.path.join(work, f"rank{i}", "trace.json")
        elif layout == "collide" and i == 1:
            j = 0
            while crc_job(os.path.join(work, f"f1_{j}.json")) != crc_job(paths[0]):
                j += 1
            p = os.path.join(work, f"f1_{j}.json")
        paths.append(p)
    old = aiulog.loglevel
    aiulog.loglevel = -1            # TraceWarning.__del__ would print one line per file otherwise
    if case and nev % 3 == 1:
        # history of the process: the first path was ingested before, as a torch profile (another dialect, same job id)
        with open(paths[0], "w") as fh:
            json.dump({"deviceProperties": [{"id": 0}], "distributedInfo": {"rank": 3},
                       "traceEvents": [{"ph": "X", "name": "aten::add", "pid": 9, "tid": 9, "ts": 1.0, "dur": 2.0}]}, fh)
        try:
            m0 = MultifileIngest(paths[0])
            for _ in iter(m0):
                pass
            for g in list(m0.ingesters) + [m0]:
                for w in g.warnings.values():
                    w.auto_log = False
            del m0
        except Exception:  # noqa: BLE001
            pass
    for p, f in zip(paths, case):
        with open(p, "w") as fh:
            json.dump(file_json(f), fh)
    out, m = [], None
    try:
        try:
            m = MultifileIngest(",".join(paths))
            it = iter(m)            # exactly one __iter__ (protocol)
            while True:
                try:
                    out.append(proj(next(it)))
                except StopIteration:
                    break
            tail = [[g.warnings["zero_duration"].args_list["count"],
                     g.warnings["negative_duration"].args_list["count"], g.rank_pid] for g in m.ingesters]
        except Exception as e:  # noqa: BLE001
            tail = enc.Err(type(e).__name__)
    finally:
        if m is not None:           # no summary lines from TraceWarning.__del__ at collection time
            for g in list(m.ingesters) + [m]:
                for w in g.warnings.values():
                    w.auto_log = False
        del m
        aiulog.loglevel = old
    return out, tail, paths


# ---------------------------------------------------------------- encoding
def coq_ev(e):
    def od(k):
        return "(Some (None, None))" if k in e else "None"
    return ("(mkEv " + " ".join([
        enc.Z(e["uid"]), enc.O(e.get("ph"), enc.S), enc.O(e.get("name"), enc.S),
        enc.O(e.get("ts"), enc.Q), enc.O(e.get("dur"), enc.Q), enc.O(e.get("pid"), enc.Z),
        od("args"), od("attr")]) + ")")


def coq_case(case, paths):
    fs = []
    ids = e2e.job_ids(paths)
    for f, p, jid in zip(case, paths, ids):
        dictform = f.get("form", "list") == "dict"
        rank0 = f["rank"] if (dictform and f.get("rank") is not None) else -1
        processed = bool(dictform and f.get("processed"))
        evs = [coq_ev(e) for tok in f["tokens"] for e in tok]
        fs.append(f"(mkFile {enc.Z(jid)} {enc.Z(rank0)} {enc.B(processed)} {enc.L(evs)})")
    return enc.L(fs)


# ---------------------------------------------------------------- oracle (independent statement)
def key_of(ts):
    return Fraction(0) if ts is None else enc.frac(ts)


def tok_kind(tok):
    """well-formed token kinds of the property's domain, else None"""
    def base(e, need_ts=True):
        return (isinstance(e.get("pid"), int) and isinstance(e.get("name"), str)
                and (("ts" in e) or not need_ts))
    if len(tok) == 1:
        e = tok[0]
        ph = e.get("ph")
        if ph == "X" and base(e) and "dur" in e:
            return "X"
        # (an "args" dict is optional in the trace event format: events without one are ordinary input)
        # (a metadata event is passed on whatever other keys it carries: a "dur" - even 0 or negative - does not make it
        # a slice, and the zero/negative-duration rule is about slices)
        if ph == "M" and base(e, False):
            return "M"
        if ph in ("i", "b", "e") and base(e) and "dur" not in e:      # instant / async begin, end: annotated, passed on
            return "i"
        if ph == "C" and base(e) and "dur" not in e:
            return "C"
        return None
    if len(tok) == 2:
        b, e = tok
        if b.get("ph") == "B" and e.get("ph") == "E" and base(b) and base(e) and b["name"] == e["name"]:
            return "BE"
    return None


def assertion_defect(tok):
    """clear-cut malformed pairs for which the code's contract is an AssertionError"""
    if len(tok) == 1 and tok[0].get("ph") == "E" and isinstance(tok[0].get("pid"), int):
        return "E_without_B"
    if len(tok) == 2 and tok[0].get("ph") == "B" and all(isinstance(x.get("pid"), int) and isinstance(x.get("name"), str)
                                                         and "ts" in x for x in tok):
        if tok[1].get("ph") == "E" and tok[0]["name"] != tok[1]["name"]:
            return "name_mismatch"
        if tok[1].get("ph") in ("X", "B"):
            return "B_not_followed_by_E"
    return None


def expected_file(f):
    """spec of one well-formed file: (list of expected events, zero count, neg count, rank or None=unchecked)"""
    if f.get("form", "list") == "dict" and f.get("processed"):
        return [], 0, 0, None
    rank = f["rank"] if (f.get("form") == "dict" and f.get("rank") is not None) else None
    exp, zero, neg = [], 0, 0
    check_rank = rank != -1              # a preset rank of -1 means "not set": outside the rank claim
    latched = rank is not None
    for tok in f["tokens"]:
        k = tok_kind(tok)
        e = tok[0]
        annotated = k in ("X", "BE", "M", "i")
        if annotated and not latched:
            rank, latched = e["pid"], True
            if rank == -1:               # a first pid of -1 does not latch: outside the rank claim
                check_rank = False
        if k in ("X", "BE"):
            dur = enc.frac(e["dur"]) if k == "X" else enc.frac(tok[1]["ts"]) - enc.frac(e["ts"])
            if dur < 0:
                neg += 1
                continue
            if dur <= TOL:
                zero += 1
                continue
            exp.append({"uid": e["uid"], "ph": "X", "name": e["name"], "ts": enc.frac(e["ts"]), "dur": dur,
                        "annotated": True, "where": "attr" if "attr" in e else "args", "pid0": e["pid"]})
        else:
            exp.append({"uid": e["uid"], "ph": e["ph"], "name": e["name"],
                        "ts": None if "ts" not in e else enc.frac(e["ts"]),
                        "dur": enc.frac(e["dur"]) if (k == "M" and "dur" in e) else None,      # passed on as it came
                        "annotated": annotated, "where": "args", "pid0": e["pid"]})
    return exp, zero, neg, (rank if check_rank else None)


def oracle(case, out, tail):
    """returns a list of failure dicts {kind, ...}; empty = property holds on this run"""
    fails = []
    kinds = [[tok_kind(t) for t in f["tokens"]] for f in case]
    wellformed = all(k is not None for ks in kinds for k in ks)
    if not wellformed:
        defects = [assertion_defect(t) for f in case if not (f.get("form") == "dict" and f.get("processed"))
                   for t in f["tokens"]]
        others = [t for f, ks in zip(case, kinds) for t, k in zip(f["tokens"], ks)
                  if k is None and assertion_defect(t) is None]
        if any(defects) and not others:
            if tail != enc.Err("AssertionError"):
                fails.append({"kind": "malformed_pair_not_rejected", "defect": [d for d in defects if d][0],
                              "observed_tail": repr(tail)})
        return fails
    if isinstance(tail, enc.Err):
        return [{"kind": "unexpected_error", "error": tail.tag}]
    specs = [expected_file(f) for f in case]
    exp_by_uid = {x["uid"]: (i, x) for i, (exp, _, _, _) in enumerate(specs) for x in exp}
    seen = {}
    for o in out:
        seen[o[0]] = seen.get(o[0], 0) + 1
    lost = sorted(u for u in exp_by_uid if u not in seen)
    dup = sorted(u for u, c in seen.items() if c > 1)
    extra = sorted(u for u in seen if u not in exp_by_uid)
    if lost:
        fails.append({"kind": "event_lost", "n_files": len(case), "uids": lost[:5]})
    if dup:
        fails.append({"kind": "event_duplicated", "uids": dup[:5]})
    if extra:
        fails.append({"kind": "event_not_skipped", "uids": extra[:5]})
    for o in out:
        if o[0] not in exp_by_uid:
            continue
        i, x = exp_by_uid[o[0]]
        uid, ph, name, ts, dur, pid, a_args, a_attr = o
        if ph != x["ph"] or name != x["name"]:
            fails.append({"kind": "wrong_ph_or_name", "uid": uid})
        if (None if ts is None else enc.frac(ts)) != x["ts"]:
            fails.append({"kind": "wrong_ts", "uid": uid})
        if (None if dur is None else enc.frac(dur)) != x["dur"]:
            fails.append({"kind": "wrong_dur", "uid": uid, "expected": str(x["dur"]), "observed": repr(dur)})
        rank = specs[i][3]
        if rank is not None:
            d = a_attr if x["where"] == "attr" else a_args
            if x["annotated"]:
                if d is None or d[0] != rank:
                    fails.append({"kind": "wrong_rank", "uid": uid, "expected": rank, "observed": repr(d)})
                if rank >= 0 and pid != rank:
                    fails.append({"kind": "wrong_pid", "uid": uid, "expected": rank, "observed": pid})
                if rank < 0 and pid != x["pid0"]:
                    fails.append({"kind": "wrong_pid", "uid": uid, "expected": x["pid0"], "observed": pid})
            else:
                if pid != x["pid0"] or (d is not None and d[0] is not None):
                    fails.append({"kind": "unannotated_event_changed", "uid": uid})
    if len(tail) != len(specs):
        fails.append({"kind": "input_file_not_ingested", "expected": len(specs), "observed": len(tail)})
        return fails
    for i, (exp, zero, neg, _) in enumerate(specs):
        if tail[i][0] != zero or tail[i][1] != neg:
            fails.append({"kind": "skip_count", "file": i, "expected": [zero, neg], "observed": tail[i][:2]})
        got = [o[0] for o in out if o[0] in exp_by_uid and exp_by_uid[o[0]][0] == i]
        want = [x["uid"] for x in exp]
        if sorted(got) == sorted(want) and got != want:
            fails.append({"kind": "per_file_order", "file": i})
    # "if each file is ordered by ts the merged stream is ordered by ts": a statement about the events that HAVE a ts
    # (an event without one - metadata - has no place in time; wherever it is emitted, it does not disturb the order)
    def timed(seq):
        return [enc.frac(t) for t in seq if t is not None]
    streams_sorted = all(all(a <= b for a, b in zip(timed(x["ts"] for x in exp), timed(x["ts"] for x in exp)[1:]))
                         for exp, _, _, _ in specs)
    if streams_sorted:
        ks = timed(o[3] for o in out)
        if any(a > b for a, b in zip(ks, ks[1:])):
            fails.append({"kind": "merged_not_ordered", "n_files": len(case),
                          "negative_ts": any(k < 0 for k in ks),
                          "event_without_ts": any(o[3] is None for o in out)})
    return fails


def check_case(case, work):
    out, tail, paths = run_impl(case, work)
    return out, tail, paths, oracle(case, out, tail)


# ---------------------------------------------------------------- generators
PIDS = [0, 1, 2, 3, 5, 7]
NAMES = ["k", "op", "m n"]


def mk(uid, ph, name, ts, pid, r=None, dur=None, p_args=0.6, p_attr=0.15):
    e = {"uid": uid, "ph": ph, "name": name}
    if ts is not None:
        e["ts"] = ts
    if dur is not None:
        e["dur"] = dur
    e["pid"] = pid
    e["tid"] = 0
    if r is None or r.random() < p_args:
        e["args"] = {"k": uid}
    if r is not None and r.random() < p_attr:
        e["attr"] = {"TS1": "1"}
    return e


def gen_dur(r):
    x = r.random()
    if x < 0.62:
        return r.choice([1, 2, 3, 0.5, 1.25, 3 / 1024, 1 / 1024])
    if x < 0.74:
        return 0
    if x < 0.84:
        return r.choice([-1, -0.5, -2, -1 / 1024])
    if x < 0.86:
        return -0.0
    if x < 0.88:
        return r.choice([-1e-12, -1e-9])
    return r.choice(TINY)


def gen_file(r, fi, maxtok=8):
    n = r.choice([0, 0, 1, 1, 2, 2, 3, 3, 4, 5, 6, maxtok])
    base = r.choice(PIDS) if r.random() < 0.85 else r.choice([-1, -1, -5])
    ordered = r.random() < 0.8
    f = {"form": "list", "rank": None, "processed": False, "tokens": []}
    if r.random() < 0.3:
        f["form"] = "dict"
        if r.random() < 0.35:
            f["rank"] = r.choice([0, 1, 4, 6, -1, -3])
        if r.random() < 0.08:
            f["processed"] = True
    t = r.choice([0, 0, 0, 1, 2, 0.5, -3, -7.5, -1])       # (a time axis may start below zero)
    uid = fi * 1000
    for j in range(n):
        uid += 2
        pid = base if r.random() < 0.75 else r.choice(PIDS + [-1])
        name = r.choice(NAMES)
        if ordered:
            t = t + r.choice([0, 0, 0, 1, 1, 2, 0.5, 1 / 1024])
        else:
            t = r.choice([0, 1, 2, 3, 4, 0.5, 5])
        x = r.random()
        if x < 0.40:
            tok = [mk(uid, "X", name, t, pid, r, dur=gen_dur(r))]
        elif x < 0.75:
            d = gen_dur(r)
            tb = t
            tiny = isinstance(d, float) and abs(d) < 1e-4 and d != 0
            if tiny and (r.random() < 0.6 or t < 0.25):
                tb = 0                               # tiny durations: E.ts - 0 is exact
            te = tb + d                              # exact on the grid; else tb >= 0.25: Sterbenz-exact difference
            b = mk(uid, "B", name, tb, pid, r)
            e = mk(uid + 1, "E", name, te, pid if r.random() < 0.8 else r.choice(PIDS), r)
            tok = [b, e]
            if ordered and d > 0 and not tiny and r.random() < 0.7:
                t = te                               # t itself never leaves the 2^-10 grid
        elif x < 0.87:
            ts = None if (r.random() < 0.5) else t
            tok = [mk(uid, "M", r.choice(["process_name", "thread_name"]), ts, pid, r, p_args=0.7, p_attr=0)]
            if r.random() < 0.25:
                tok[0]["dur"] = r.choice([0, 0.0, -1, 5, 0.5])
        elif x < 0.94:
            tok = [mk(uid, "C", "ctr", t, pid, r, p_args=0.8, p_attr=0)]
        else:
            tok = [mk(uid, r.choice(["i", "i", "b", "e"]), "inst", t, pid, r, p_args=0.6, p_attr=0)]
        f["tokens"].append(tok)
    return f


def gen_case(r, maxfiles=5):
    k = r.choice([1, 2, 2, 2, 3, 3, 3, 4, 5][:4 + maxfiles])
    return [gen_file(r, i) for i in range(k)]


DEFECTS = ["lone_E", "B_then_X", "name_mismatch", "trailing_B", "no_pid_first", "no_pid_later", "no_name_B",
           "no_name_E", "no_ts_E", "no_ts_B", "no_ph", "no_args_event", "ph_empty", "ph_BE", "ph_XB", "ph_Mb",
           "C_dur0", "i_durneg", "B_then_B", "E_after_pair", "M_dur0", "X_no_dur", "first_pid_m1_then_X"]


def inject(r, case):
    """one defect in one file of a well-formed set"""
    case = copy.deepcopy(case)
    fi = r.randrange(len(case))
    f = case[fi]
    f["processed"] = False
    d = r.choice(DEFECTS)
    toks = f["tokens"]
    pos = r.randint(0, len(toks))
    uid = fi * 1000 + 500 + 2 * pos
    pid = toks[0][0].get("pid", 0) if toks else 1
    t = r.choice([0, 1, 2, 3])
    new = None
    if d == "lone_E":
        new = [mk(uid, "E", "k", t, pid, r)]
    elif d == "B_then_X":
        new = [mk(uid, "B", "k", t, pid, r), mk(uid + 1, "X", r.choice(["k", "op"]), t + 1, pid, r, dur=1)]
    elif d == "B_then_B":
        new = [mk(uid, "B", "k", t, pid, r), mk(uid + 1, "B", "k", t + 1, pid, r)]
    elif d == "name_mismatch":
        new = [mk(uid, "B", "k", t, pid, r), mk(uid + 1, "E", "op", t + 1, pid, r)]
    elif d == "trailing_B":
        pos = len(toks)
        new = [mk(uid, "B", "k", t, pid, r)]
    elif d in ("no_pid_first", "no_pid_later"):
        if d == "no_pid_first":
            pos = 0
        new = [mk(uid, r.choice(["X", "M", "C", "B"]), "k", t, pid, r, dur=1, p_args=1.0)]
        del new[0]["pid"]
        if new[0]["ph"] != "X":
            new[0].pop("dur")
        if new[0]["ph"] == "B":
            new.append(mk(uid + 1, "E", "k", t + 1, pid, r))
    elif d in ("no_name_B", "no_name_E", "no_ts_E", "no_ts_B"):
        new = [mk(uid, "B", "k", t, pid, r), mk(uid + 1, "E", "k", t + 1, pid, r)]
        del new[0 if d.endswith("B") else 1]["name" if "name" in d else "ts"]
    elif d == "no_ph":
        new = [mk(uid, "X", "k", t, pid, r, dur=1)]
        del new[0]["ph"]
    elif d == "no_args_event":
        # NOT a defect (args is optional): a well-formed M/i/b/e event without args, possibly with an attr dict, at any
        # position of an otherwise well-formed set - the full oracle applies
        new = [mk(uid, r.choice(["M", "i", "b", "e"]), "process_name", t, pid, r, p_args=0.0, p_attr=0.3)]
    elif d.startswith("ph_"):
        ph = {"ph_empty": "", "ph_BE": "BE", "ph_XB": "XB", "ph_Mb": "Mb"}[d]
        new = [mk(uid, ph, "k", t, pid, r, dur=r.choice([1, 0, -1, None]), p_args=0.7)]
    elif d == "C_dur0":
        new = [mk(uid, "C", "ctr", t, pid, r, dur=r.choice([0, 1e-9, 1]))]
    elif d == "i_durneg":
        new = [mk(uid, "i", "inst", t, pid, r, dur=r.choice([-1, 0, 2]), p_args=1.0)]
    elif d == "E_after_pair":
        new = [mk(uid, "B", "k", t, pid, r), mk(uid + 1, "E", "k", t + 1, pid, r)]
        toks.insert(pos, new)
        new = [mk(uid + 2, "E", "k", t + 2, pid, r)]
        pos += 1
    elif d == "M_dur0":
        new = [mk(uid, "M", "process_name", t, pid, r, dur=0, p_args=1.0)]
    elif d == "X_no_dur":
        new = [mk(uid, "X", "k", t, pid, r)]
    elif d == "first_pid_m1_then_X":
        pos = 0
        new = [mk(uid, "X", "k", 0, -1, r, dur=1)]
    toks.insert(pos, new)
    return case, d


def grid_cases(nfiles, nev, grid):
    """all sets of 1..nfiles files x 0..nev events on the grid: a number = X slice with that ts (dur 1, pid = file
    index), None = metadata event without ts"""
    import itertools
    files = []
    for n in range(nev + 1):
        for tss in itertools.product(grid, repeat=n):
            files.append(tss)
    out = []
    for k in range(1, nfiles + 1):
        for combo in itertools.product(files, repeat=k):
            case = []
            for fi, tss in enumerate(combo):
                case.append({"form": "list", "rank": None, "processed": False,
                             "tokens": [[mk(fi * 1000 + 2 * j, "X", "k", t, fi, None, dur=1) if t is not None else
                                         mk(fi * 1000 + 2 * j, "M", "process_name", None, fi, None)]
                                        for j, t in enumerate(tss)]})
            out.append(case)
    return out


def load_corpus():
    d = os.path.join(coqrun.VERIF, "corpus", ID)
    out = []
    for p in sorted(glob.glob(os.path.join(d, "*.json"))):
        j = json.load(open(p))
        out.append((os.path.basename(p), j["files"]))
    return out


# ---------------------------------------------------------------- shrinking
def shrink(case, work, kind):
    def bad(c):
        if not c:
            return False
        try:
            return any(f["kind"] == kind for f in check_case(c, work)[3])
        except Exception:  # noqa: BLE001
            return False
    case = copy.deepcopy(case)
    changed = True
    while changed:
        changed = False
        for i in range(len(case)):
            c2 = case[:i] + case[i + 1:]
            if bad(c2):
                case, changed = c2, True
                break
        if changed:
            continue
        for i, f in enumerate(case):
            for j in range(len(f["tokens"])):
                c2 = copy.deepcopy(case)
                del c2[i]["tokens"][j]
                if bad(c2):
                    case, changed = c2, True
                    break
            if changed:
                break
    return case


def failure_record(case, work, fl):
    kind = fl["kind"]
    small = shrink(case, work, kind)
    out, tail, paths, fails = check_case(small, work)
    f0 = [f for f in fails if f["kind"] == kind][0]
    sig = {"kind": kind}
    for k in ("defect", "error", "n_files"):
        if k in f0:
            sig[k] = f0[k]
    if kind in ("event_lost", "merged_not_ordered"):
        sig["n_files"] = len(small)
    specs = [expected_file(f) for f in small]
    return {"input": {"files": small},
            "expected": {"per_file_events": [[(x["uid"], str(x["ts"]), str(x["dur"])) for x in s[0]] for s in specs],
                         "skip_counts": [[s[1], s[2]] for s in specs], "ranks": [s[3] for s in specs],
                         "violated": f0},
            "observed": {"events": out, "tail": repr(tail)},
            "signature": sig}


# ---------------------------------------------------------------- check
def nontrivial(out):
    return len({o[0] // 1000 for o in out if isinstance(o[0], int)}) >= 2


def run(ctx):
    r = ctx.rng
    work = os.path.join(ctx.work, f"files_{os.getpid()}")
    shutil.rmtree(work, ignore_errors=True)
    cases = []          # (origin, case)
    for name, c in load_corpus():
        cases.append(("corpus:" + name, c))
    n_corpus = len(cases)
    grid = grid_cases(3, 2, [0, 1]) if ctx.quick() else grid_cases(3, 3, [0, 1, 2])
    # negative time axis and events without ts (None), exhaustively
    grid += grid_cases(2, 2, [-1, None, 0, 1]) if ctx.quick() else grid_cases(3, 2, [-1, None, 0, 1])
    cases += [("grid", c) for c in grid]
    n_rand = ctx.pick(2000, 30000)
    n_mal = ctx.pick(500, 5000)
    for _ in range(n_rand):
        cases.append(("random", gen_case(r)))
    inj = {}
    for _ in range(n_mal):
        c, d = inject(r, gen_case(r, maxfiles=3))
        inj[d] = inj.get(d, 0) + 1
        cases.append(("malformed:" + d, c))

    terms, raw_fail, seen, nontriv = [], [], set(), 0
    dist = {"files": {}, "events_per_file": {}, "origin": {"corpus": n_corpus, "grid": len(grid), "random": n_rand,
                                                            "malformed": n_mal},
            "defects": inj, "errors": {}, "emitted": 0, "skipped_zero": 0, "skipped_negative": 0,
            "sets_with_cross_file_ts_tie": 0, "wellformed_sets": 0, "wellformed_sets_with_argless_M_i_b_e": 0,
            "all_streams_ordered": 0, "all_streams_ordered_with_negative_ts": 0,
            "all_streams_ordered_with_event_without_ts_behind_a_timed_one": 0,
            "all_streams_ordered_with_negative_ts_and_event_without_ts": 0}
    try:
        for origin, c in cases:
            out, tail, paths, fails = check_case(c, work)
            terms.append((coq_case(c, paths), enc.V([out, tail])))
            for fl in fails:
                if len(raw_fail) < 40:
                    raw_fail.append((c, fl))
            canon = json.dumps(c, sort_keys=True)
            if canon not in seen:
                seen.add(canon)
                nontriv += nontrivial(out)
            dist["files"][len(c)] = dist["files"].get(len(c), 0) + 1
            for f in c:
                n = sum(len(t) for t in f["tokens"])
                dist["events_per_file"][n] = dist["events_per_file"].get(n, 0) + 1
            if isinstance(tail, enc.Err):
                dist["errors"][tail.tag] = dist["errors"].get(tail.tag, 0) + 1
            else:
                dist["errors"]["none"] = dist["errors"].get("none", 0) + 1
                dist["skipped_zero"] += sum(t[0] for t in tail)
                dist["skipped_negative"] += sum(t[1] for t in tail)
            dist["emitted"] += len(out)
            firsts = {}
            for o in out:
                if isinstance(o[0], int) and o[3] is not None:
                    firsts.setdefault(enc.frac(o[3]), set()).add(o[0] // 1000)
            dist["sets_with_cross_file_ts_tie"] += any(len(v) > 1 for v in firsts.values())
            if all(tok_kind(t) for f in c for t in f["tokens"]):
                dist["wellformed_sets"] += 1
                dist["wellformed_sets_with_argless_M_i_b_e"] += any(
                    tok_kind(t) in ("M", "i") and "args" not in t[0] for f in c for t in f["tokens"])
                if not isinstance(tail, enc.Err):
                    streams = [[x["ts"] for x in expected_file(f)[0]] for f in c]
                    tl = [[t for t in st if t is not None] for st in streams]
                    if all(a <= b for st in tl for a, b in zip(st, st[1:])):       # hypothesis of the order claim
                        neg_ts = any(t < 0 for st in tl for t in st)
                        no_ts = any(t is None for st in streams for t in st)
                        dist["all_streams_ordered"] += 1
                        dist["all_streams_ordered_with_negative_ts"] += neg_ts
                        dist["all_streams_ordered_with_negative_ts_and_event_without_ts"] += neg_ts and no_ts
                        dist["all_streams_ordered_with_event_without_ts_behind_a_timed_one"] += any(
                            t is None and any(u is not None for u in st[:k]) for st in streams for k, t in enumerate(st))
        # distinct failures by kind, shrunk
        oracle_failures, kinds = [], set()
        for c, fl in raw_fail:
            if fl["kind"] in kinds or len(oracle_failures) >= 3:
                continue
            kinds.add(fl["kind"])
            oracle_failures.append(failure_record(c, work, fl))
    finally:
        shutil.rmtree(work, ignore_errors=True)

    bad, extras, secs = coqrun.run_cases(
        "C15", "From AiuModel Require Import Ingest.", "(list file)", "ingest_val", terms,
        extra="Definition nt := Eval vm_compute in (count_if nontrivial cases).\nLocal Open Scope nat_scope.\nPrint nt.")
    mism = [{"name": "correspondence Ingest.ingest_val vs MultifileIngest iteration",
             "case": {"origin": cases[j][0], "files": cases[j][1]}, "impl": terms[j][1][:600]} for j in bad[:5]]
    ctx._c15_mismatching = [cases[j][1] for j in bad[:20]]
    # ---- file type by name: Ftype.ftype_val = the real detect_ftype on path names (no file is opened: every generated name
    # holds one of the substrings the function looks for, or starts with api://)
    from aiu_trace_analyzer.ingest.ingestion import MultifileIngest
    probe = MultifileIngest.__new__(MultifileIngest)
    names_of = {probe.FTYPE_JSON: "json", probe.FTYPE_PFTRACE: "pftrace", probe.FTYPE_LOG: "log", probe.FTYPE_API: "api"}
    parts = ["run", "rank0", "aiu", "x", ".log", ".logs", ".login1", ".json", ".JSON", ".pftrace", ".bak", "/", "-", "_7", ".",
             "json", "log", ".jsonl", ".LOG"]
    fnames = []
    for _ in range(ctx.pick(400, 4000)):
        nm = "".join(r.choice(parts) for _ in range(r.randint(1, 6)))
        if r.random() < 0.1:
            nm = "api://" + nm
        if any(k in nm for k in (".json", ".pftrace", ".log")) or nm.startswith("api://"):
            fnames.append(nm)
    fterms = [(enc.S(nm), enc.V(names_of.get(probe.detect_ftype(nm), "other"))) for nm in fnames]
    bad_f, _, secs_f = coqrun.run_cases("C15f", "From AiuModel Require Import Ftype.", "string", "ftype_val", fterms)
    mism += [{"name": "correspondence Ftype.ftype_val vs detect_ftype", "case": {"name": fnames[j]}, "impl": fterms[j][1]}
             for j in bad_f[:5]]
    dist["ftype_names"] = len(fnames)
    dist["ftype_json_with_other_extension_inside"] = sum(1 for nm in fnames if ".json" in nm and (".log" in nm or ".pftrace" in nm))
    return {
        "evaluations": len(cases), "distinct_nontrivial": nontriv,
        "rule": "corpus + all sets of <= 3 files x <= " + str(ctx.pick(2, 3)) + " X events with ts on the grid "
                + str(ctx.pick([0, 1], [0, 1, 2])) + " and all sets of <= " + str(ctx.pick(2, 3)) + " files x <= 2 events from "
                "{X@-1, M without ts, X@0, X@1}" + f" (exhaustive: {len(grid)}) + random well-formed sets of 1-5 files x 0-8 "
                "tokens (time base -7.5..2, X, adjacent B/E, M with/without ts at any position, C, i/b/e; M/i/b/e/C with and without an args dict; zero/negative/1e-9-boundary durations; list and "
                "{traceEvents,distributedInfo,otherData} forms; ordered and unordered files) + a separate malformed "
                "stream (one injected defect). non-trivial = distinct file sets in which at least two files contribute "
                f"at least one emitted event (Coq-side rule 'two files yield a first event' over all cases: {extras.get('nt')})",
        "samples": [{"origin": cases[j][0], "files": cases[j][1]} for j in (0, n_corpus + len(grid) + 1, len(cases) - 1)
                    if j < len(cases)],
        "mismatches": mism, "oracle_failures": oracle_failures,
        "ties": [{"name": "Ingest.ingest_val = real MultifileIngest iteration (events, counters, rank_pid | error class)",
                  "cases": len(cases), "mismatching": len(bad), "coq_seconds": round(secs, 1)},
                 {"name": "Ftype.ftype_val = real detect_ftype on path names", "cases": len(fnames),
                  "mismatching": len(bad_f), "coq_seconds": round(secs_f, 1)}],
        "distribution": dist, "exhaustive": True,
    }


def search(ctx, res, broken):
    """tie/proof broke but the run's oracle was silent: oracle on the mismatching cases, then a fresh larger stream"""
    import random
    work = os.path.join(ctx.work, f"search_{os.getpid()}")
    try:
        for c in getattr(ctx, "_c15_mismatching", []):
            fails = check_case(c, work)[3]
            if fails:
                return [failure_record(c, work, fails[0])]
        r = random.Random(ctx.seed + 1)
        t0 = time.time()
        for n in range(ctx.pick(20000, 200000)):
            if time.time() - t0 > ctx.pick(60, 600):
                break
            c = gen_case(r) if n % 5 else inject(r, gen_case(r, maxfiles=3))[0]
            fails = check_case(c, work)[3]
            if fails:
                return [failure_record(c, work, fails[0])]
    finally:
        shutil.rmtree(work, ignore_errors=True)
    return []


def replay(ctx, payload):
    f = payload.get("failing")
    if not f:
        return True, "replay file names only broken obligations: " + str(payload.get("broken"))[:500]
    case = f["input"]["files"]
    work = os.path.join(ctx.work, f"replay_{os.getpid()}")
    try:
        out, tail, paths, fails = check_case(case, work)
    finally:
        shutil.rmtree(work, ignore_errors=True)
    return not fails, {"violations": fails, "events": out, "tail": repr(tail)}
