"""C11 — PT utilization equals ideal cycles over observed kernel time, capped at 100%; category table consistent.

Ties (all compared inside Coq by vm_compute, model = coq/theories/Util.v):
  * direct: a generated single-table compiler log (text) is parsed by the REAL MultiRCUUtilizationContext /
    RCUUtilizationContext; generated event sequences (kernel slices of several ranks/jobs, listed / zero / unlisted /
    duplicated kernels, '[N]' names with fn_idx, pre-existing cat, non-kernel events) go through the REAL
    compute_utilization_fingerprints -> drain -> compute_utilization -> drain -> (calculate_stats) and the csv is
    written by the real print_table_as_pd at destruction.  Util.run_val must reproduce: the parsed table (kernel ->
    cycles, kernel -> category map in dict order, phase, fingerprint total time), every returned event in order
    (pt_active / 'core used' / cat / user_cat, the 'PT Active' counters with or without the helper dur), the
    categories dict per pid in dict order, and every row of <out>_categories.csv in file order; exceptions as enum.
    Numbers are exact (exact grid: core frequency a power of two, times multiples of 2^-10), except values that are
    the result of a double division/multiplication (pt_active, Percent: relative 2^-50) and the cells printed after
    round(., 4) (must be a correct 4-decimal rounding of the model's exact value).
  * parser: a larger stream of logs only (junk lines, rows outside the table, ignored rows, Total rows, duplicate rows,
    -NA / multiple -opCat / missing category, phase lines, clock-scaling line, autopilot after the table).
  * end to end: shared scenario generator -> Acelyzer(...).run() with -c <log> --freq soc:core under several option
    sets; the model is evaluated on the kernel slices of the EXPORTED json and must reproduce pt_active of every
    kernel slice, the multiset of exported 'PT Active' counters and the csv the same run wrote.
  * off-grid (supporting): 560:800 MHz style frequencies and decimal times, everything up to relative 1e-9.
Oracle (independent of the model, exact Fractions, from the generator's ground truth): per kernel slice pt_active =
min(1, (cycles/core)/dur) iff listed with non-zero cycles, counter pair (100*pt_active at ts, 0 at ts+dur), none
otherwise; csv: every slice counted once in its category (else 'other'), Total = sum of the category rows in all
three components, sum of Calls = number of kernel slices, ratios within half a printed unit.
"""
import contextlib
import csv
import gc
import io
import json
import os
import random
import shutil
import tempfile
import time
import zlib
from fractions import Fraction

from common import coqrun, enc

ID = "C11"
PROP_FILE = "props/C11.v"
MODEL_TARGETS = ["theories/Util.vo"]
THEOREMS = []
ALLOWED_AXIOMS = []
MANIFEST = {"text": "", "note": "", "technique": "", "design_ref": "DESIGN.md section 4/C11"}
TRUSTED = []
ASSUMPTIONS = []

COQ_IMPORTS = "From AiuModel Require Import Util."
RUN_TY = "((cfg * list item * list uev) * val)"
G = 1024
CE = "Cmpt Exec"
CORES = [256.0, 512.0, 1024.0, 2048.0]
KPOOL = ["add_11", "convolution_1", "convolution_2", "relu_3", "addmm_MatMul", "mean", "bmm-BMM_1", "add",
         "max_pool2d_with_indices", "convolution", "addmm_1_MatMul-BMM_1", "view-VirtualReshape-Output-LxRelayout",
         "mul", "sub", "k_0", "K-9_x"]
CATS = ["Conv_fp16", "Broadcast", "Pooling", "Bmm_fp16", "Scalar", "StcdpLx", "ConvOs1_fp16", "StcdpHbm", "other"]


def _quiet():
    return contextlib.redirect_stdout(io.StringIO()), contextlib.redirect_stderr(io.StringIO())


def _bump(d, k):
    d[str(k)] = d.get(str(k), 0) + 1


# ---------------------------------------------------------------- compiler-log generator (text + classification)
JUNK = ["-" * 91, "Name" + " " * 76 + "Ideal Cy.", "[DeepRT] ===== Perf BEGIN =====", "====== Perf Summary ======", "",
        "Total\t\t\t\t\t\t\t\t\t\t556336", "name.with.dot-opCatX   55", " leadingspace-opCatX  55",
        "three-opCatX 1 2", "neg-opCatX -5", "float-opCatX 5.5", "tab-opCatX\t55", "nonumber-opCatX",
        "mixed-opCatY 12abc", "[DeepRT] ===== Perf END =====", "comma-opCatX 1,000", "hex-opCatX 0x10",
        "plus+opCatX 10", "=== Perf Summary End =====", "Ideal/Total Cycles", "PREFILL", "  PREFILL x ",
        "Ideal Clock Scaling 1.0"]
STARTS = ["~~~~ Ideal/Total Cycles ~~~~", "== Ideal/Total Cycles ==", "x Ideal/Total Cycles y"]
ENDS = ["====== Perf Summary End ======", "xx ====== Perf Summary End ====== yy"]


def render(it):
    k = it[0]
    if k == "start":
        return STARTS[it[1]]
    if k == "end":
        return ENDS[it[1]]
    if k == "auto":
        return "[DeepRT] ===== DSM-AutoPilot BEGIN ====="
    if k == "clock":
        return "Ideal Clock Scaling: 1.25"
    if k == "junk":
        return JUNK[it[1]]
    if k == "phase":
        return ("   PREFILL   " if it[1] else "\tDECODING ") if it[2] == 0 else (" PREFILL" if it[1] else "  DECODING")
    if k == "row":
        _, base, pieces, cyc, sep, trail, zpad = it
        return base + "".join(pieces) + " " * sep + ("0" * zpad + str(cyc)) + " " * trail
    raise ValueError(k)


def log_text(items):
    return "\n".join(render(i) for i in items) + "\n"


def gen_pieces(rng, edge):
    r = rng.random()
    if not edge or r < 0.6:
        if rng.random() < 0.1:
            return ["-NA", ""]
        return ["-opCat", rng.choice(CATS)]
    if r < 0.7:
        return []                                   # no category at all -> accounted under 'Total' (quirk)
    if r < 0.8:
        return ["-opCat", rng.choice(CATS), "-opCat", rng.choice(CATS)]
    if r < 0.9:
        return ["-opCat", rng.choice(CATS), "-NA", ""]
    if r < 0.95:
        return ["-opCat", ""]
    return ["-opCat", "Total"]


def gen_row(rng, base, edge, zero_p=0.25):
    cyc = 0 if rng.random() < zero_p else rng.choice([rng.randrange(1, 64), rng.randrange(1, 200000),
                                                       G * rng.randrange(1, 200)])
    sep = rng.choice([1, 2, 80 - min(79, len(base) + 10)])
    return ("row", base, gen_pieces(rng, edge), cyc, max(1, sep), rng.choice([0, 0, 3, 15]),
            rng.choice([0, 0, 0, 2]) if edge else 0)


def gen_log(rng, edge=False, all_zero=False, pool=None):
    """single-table log: items (classification, = the model's input) in line order"""
    pool = list(pool or rng.sample(KPOOL, rng.randrange(1, 8)))
    items = []

    def noise(n, inside):
        out = []
        for _ in range(n):
            r = rng.random()
            if r < 0.5:
                out.append(("junk", rng.randrange(len(JUNK))))
            elif r < 0.65:
                out.append(gen_row(rng, rng.choice(KPOOL), edge))      # outside the table: must be ignored
            elif r < 0.75:
                out.append(("clock",))
            elif r < 0.9 and not inside:
                out.append(("phase", rng.random() < 0.5, rng.randrange(2)))
            elif edge and not inside:
                out.append(("end", 0))                                  # end without start: ignored
            else:
                out.append(("junk", 0))
        return out
    items += noise(rng.randrange(0, 5), False)
    if edge and rng.random() < 0.15:                                    # an abandoned table start
        items += [("start", 0)] + [gen_row(rng, rng.choice(KPOOL), edge) for _ in range(rng.randrange(0, 3))]
    items.append(("start", rng.randrange(len(STARTS))))
    body = []
    for b in pool:
        body.append(gen_row(rng, b, edge, zero_p=1.0 if all_zero else 0.25))
        r = rng.random()
        if r < 0.12:                                                    # duplicate row, same or different values
            body.append(gen_row(rng, b, edge, zero_p=1.0 if all_zero else 0.4))
        elif r < 0.2:
            body.append(gen_row(rng, b + rng.choice(["-Precompute", "-LxPreload", "_Precompute_x"]), edge))
        elif r < 0.3:
            body.append(("junk", rng.randrange(len(JUNK))))
        elif r < 0.34:
            body.append(("clock",))
        elif r < 0.38 and edge:
            body.append(("phase", rng.random() < 0.5, 0))               # inside a table: no effect on its phase
    if rng.random() < 0.8:
        body.append(("junk", 0))
        body.append(("row", "Total", [], sum(i[3] for i in body if i[0] == "row"), 5, 0, 0))
    items += body
    items.append(("end", rng.randrange(len(ENDS))))
    items += noise(rng.randrange(0, 4), False)
    if edge and rng.random() < 0.3:
        items.append(("auto",))
        items += noise(2, False)
    # phase lines after the end do not matter; rows after the end are ignored
    return items


def listed(items):
    """ground truth for the oracle, independent of the model: kernel name -> (cycles, category) for a single-table
    log under the documented reading: first row of a name fixes the category, first NON-ZERO row its cycles; rows
    outside start..end, rows naming Precompute/-LxPreload and the Total row do not count."""
    active, cyc, cat, finished, total = False, {}, {}, None, 0
    for it in items:
        if it[0] == "auto":
            break
        if it[0] == "start":
            active, cyc, cat, total = True, {}, {}, 0
        elif it[0] == "end" and active:
            active, finished = False, (dict(cyc), dict(cat), total)
        elif it[0] == "row" and active:
            name = it[1] + "".join(it[2])
            if "Precompute" in name or "-LxPreload" in name or it[1] == "Total":
                continue
            k = it[1] + " " + CE
            total += it[3]
            if k not in cyc and it[3] != 0:
                cyc[k] = it[3]
            if k not in cat:
                p = it[2]
                cat[k] = "Total" if not p else (p[-1] if p[0] == "-opCat" else "NotAvailable")
    return finished


# ---------------------------------------------------------------- event generator
def gen_events(rng, items, edge=False, stats=True, n=None):
    truth = listed(items)
    names = [k[:-len(CE) - 1] for k in truth[1]] if truth else []
    npid = rng.choice([1, 1, 2, 3])
    n = rng.randrange(0, 14) if n is None else n
    evs = []
    ts = {p: rng.randrange(1, 1 << 30) + rng.randrange(G) / G for p in range(npid)}
    for _ in range(n):
        pid = rng.randrange(npid)
        r = rng.random()
        if r < 0.75 or not names:
            base = rng.choice(names) if names and rng.random() < 0.85 else rng.choice(KPOOL + ["unlisted_3"])
            cyc = truth[0].get(base + " " + CE, 0) if truth else 0
            rr = rng.random()
            if cyc and rr < 0.15:
                durg = cyc                      # ratio depends on core only (1.0 when core == 1024)
            elif cyc and rr < 0.3:
                durg = max(1, cyc >> rng.randrange(1, 4))           # above 100 %
            elif cyc and rr < 0.45:
                durg = cyc << rng.randrange(1, 5)
            else:
                durg = rng.choice([rng.randrange(1, 400), rng.randrange(1, 300000)])
            e = {"ph": "X", "name": base + " " + CE, "pid": pid, "tid": 3, "ts": ts[pid], "dur": durg / G,
                 "args": {"TS1": "1", "TS2": "2", "TS3": "3", "TS4": "4", "TS5": "5"}}
            if rng.random() < 0.1:
                e["cat"] = "precat"
            if rng.random() < 0.08 and "_" in base:
                # remove_ids_from_name style: first number replaced by [N], kept in args.fn_idx
                import re
                m = re.search(r"[_-](\d+)", base)
                if m:
                    e["name"] = base[:m.start(1)] + "[N]" + base[m.end(1):] + " " + CE
                    e["args"]["fn_idx"] = int(m.group(1)) if rng.random() < 0.5 else m.group(1)
            ts[pid] += durg / G + rng.choice([0, 0, rng.randrange(1, 5000) / G])
        elif r < 0.85:
            e = {"ph": "X", "name": rng.choice(KPOOL) + " Cmpt Prep", "pid": pid, "tid": 2, "ts": ts[pid],
                 "dur": rng.randrange(1, 500) / G,
                 "args": {"TS1": "1", "TS2": "2", "TS3": "3", "TS4": "4", "TS5": "5"}}
        elif r < 0.93:
            e = {"ph": "X", "name": rng.choice(["HostFn_1", "Flex RoundTrip", "x Cmpt Exe"]), "pid": pid, "tid": 11,
                 "ts": ts[pid], "dur": rng.randrange(1, 500) / G, "args": {}}
        elif r < 0.97:
            e = {"ph": "C", "name": rng.choice(["Power", "PT Active"]), "pid": pid, "ts": ts[pid],
                 "args": {"Percent": 12.5}}
        else:
            e = {"ph": "M", "name": "process_name", "pid": pid, "ts": 0, "args": {"name": "r"}}
        e["args"]["job"] = pid          # replaced by the registered jobhash in the driver
        evs.append(e)
    if edge and not stats and evs:
        # degenerate durations: only without calculate_stats (it asserts dur > 0)
        for e in evs:
            if e["ph"] == "X" and rng.random() < 0.2:
                e["dur"] = rng.choice([0.0, -e["dur"], 2.0 ** -40])
    return evs


def gen_case(rng, edge=False, all_zero=False):
    items = gen_log(rng, edge=edge, all_zero=all_zero)
    stats = rng.random() < 0.8
    core = rng.choice(CORES)
    return {"items": items, "core": core, "soc": rng.choice(CORES), "stats": stats,
            "events": gen_events(rng, items, edge=edge, stats=stats)}


# ---------------------------------------------------------------- implementation driver
class Crash(Exception):
    pass


def _num(txt):
    try:
        return int(txt)
    except ValueError:
        return Fraction(txt)


def read_csv(path):
    rows = []
    with open(path, newline="") as fh:
        rd = csv.reader(fh)
        hdr = next(rd)
        if hdr != ["Pid", "Phase", "Category", "Kernel_Time", "Frac_Time", "Calls", "Ideal_Time", "Ideal_Cyc",
                   "Frac_Ideal", "PT_Util"]:
            return ["bad header", hdr]
        for r in rd:
            rows.append([_num(r[0]), r[1], r[2], Fraction(*float(r[3]).as_integer_ratio()), Fraction(r[4]), _num(r[5]), Fraction(r[6]),
                         _num(r[7]), Fraction(r[8]), Fraction(r[9])])
    return rows


def project(e):
    a = e.get("args", {})
    if e.get("ph") == "C" and e.get("name") == "PT Active" and "Percent" in a and "jobhash" not in a:
        return ["C", "PT Active", e["pid"], e["ts"], a["Percent"], e.get("dur")]
    return [e["ph"], e["name"], e["pid"], e["ts"], e.get("dur", 0), a.get("pt_active"), a.get("core used"),
            e.get("cat"), a.get("user_cat")]


def run_impl(case, workdir):
    """drive the real classes; returns the observed value (python lists) or enc.Err"""
    import copy
    import aiu_trace_analyzer.pipeline.rcu_utilization as ru
    import aiu_trace_analyzer.pipeline.stats as st
    from aiu_trace_analyzer.types import GlobalIngestData, InputDialectFLEX

    shutil.rmtree(workdir, ignore_errors=True)
    os.makedirs(workdir)
    logp = os.path.join(workdir, "compiler.log")
    with open(logp, "w") as fh:
        fh.write(case["text"] if "text" in case else log_text(case["items"]))
    outp = os.path.join(workdir, "out.json")
    import aiu_trace_analyzer.logger as aiulog
    aiulog.loglevel = -1
    GlobalIngestData()
    jobs = {}
    evs = copy.deepcopy(case["events"])
    for e in evs:
        j = e["args"].pop("job")
        if j not in jobs:
            jobs[j] = GlobalIngestData.add_job_info(os.path.join(workdir, f"rank{j}.json"), InputDialectFLEX())
        e["args"]["jobhash"] = jobs[j]
    q1, q2 = _quiet()
    try:
        with q1, q2:
            ctx = ru.MultiRCUUtilizationContext(compiler_log=logp, csv_fname=outp, soc_freq=case["soc"],
                                                core_freq=case["core"])
            ctx.enable()
            rc = ctx.rcuctx[0]
            if len(rc.kernel_cycles) != 1:
                rc.categories = {}
                return enc.Err("not_single_table")
            fp = next(iter(rc.kernel_cycles))
            tblv = [[[k, v] for k, v in rc.kernel_cycles[fp].items()],
                    [[k, v] for k, v in rc.kernel_cat_map[fp].kernel_cat_map.items()],
                    rc.fingerprints[fp].get_table_mode(), rc.fingerprints[fp].totaltime]
            try:
                s1 = []
                for e in evs:
                    s1 += ru.compute_utilization_fingerprints(e, ctx)
                ctx.drain()
                s2 = []
                for e in s1:
                    s2 += ru.compute_utilization(e, ctx)
                ctx.drain()
                if case["stats"]:
                    sctx = st.StatsExtractionContext(stats_filename=outp)
                    s3 = []
                    for e in s2:
                        s3 += st.calculate_stats(e, sctx)
                    sctx.total_util = {}
                else:
                    s3 = s2
            except Exception as ex:  # noqa: BLE001
                rc.categories = {}          # nothing to print at destruction
                return enc.Err(type(ex).__name__)
            evv = [project(e) for e in s3]
            catv = [[rc.hash_to_pid[h][0], [[k, d, i, n] for k, (d, i, n) in data.items()]]
                    for h, data in rc.categories.items()]
            del rc, ctx
            gc.collect()
        csvp = os.path.join(workdir, "out_categories.csv")
        csvv = read_csv(csvp) if os.path.exists(csvp) else None
        return [tblv, evv, catv, csvv]
    finally:
        pass


# ---------------------------------------------------------------- encoding
def coq_item(it):
    k = it[0]
    if k == "start":
        return "IStart"
    if k == "end":
        return "IEnd"
    if k == "auto":
        return "IAuto"
    if k == "clock":
        return "IClock"
    if k == "junk":
        return "IJunk"
    if k == "phase":
        return f"(IPhase {enc.B(it[1])})"
    return f"(IRow {enc.S(it[1])} {enc.L([enc.S(p) for p in it[2]])} {enc.Z(it[3])})"


def coq_event(e):
    a = e.get("args", {})
    acc = "TS1" in a
    fn = a.get("fn_idx")
    return ("(mkUev " + " ".join([
        enc.S(e["ph"]), enc.S(e["name"]), enc.Z(e["pid"]), enc.Q(e["ts"]), enc.Q(e.get("dur", 0)), enc.B(acc),
        enc.O(e.get("cat"), enc.S), enc.O(None if fn is None else str(fn), enc.S), enc.Z(a.get("job", 0))]) + ")")


def coq_input(case):
    return enc.P(enc.P(f"(mkCfg {enc.Q(case['core'])} {enc.B(case['stats'])})",
                       enc.L([coq_item(i) for i in case["items"]])),
                 enc.L([coq_event(e) for e in case["events"]]))


def coq_case(case, observed):
    return enc.P(coq_input(case), enc.V(observed)), "(VB true)"
