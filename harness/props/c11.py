"""C11 — PT utilization equals ideal cycles over observed kernel time, capped at 100%; category table consistent.

Ties (all compared inside Coq by vm_compute, model = coq/theories/Util.v):
  * direct: a generated single-table compiler log (text) is parsed by the REAL MultiRCUUtilizationContext /
    RCUUtilizationContext; generated event sequences (kernel slices of several ranks/jobs, listed / zero / unlisted /
    duplicated kernels, '[N]' names with fn_idx, pre-existing cat, non-kernel events) go through the REAL
    compute_utilization_fingerprints -> drain -> compute_utilization -> drain -> (calculate_stats) and the csv is
    written by the real print_table_as_pd at destruction.  Util.run_val must reproduce: the parsed table (kernel ->
    cycles, kernel -> category map in dict order, phase, fingerprint total time), every returned event in order
    (pt_active / 'core used' / cat / user_cat, the 'PT Active' counters with or without the helper dur), the
    categories dict per pid in dict order, and every row of <out>_categories.csv in file order; exceptions as enum.
    Numbers are exact (exact grid: core frequency a power of two, times multiples of 2^-10), except values that are
    the result of a double division/multiplication (pt_active, Percent: relative 2^-50) and the cells printed after
    round(., 4) (must be a correct 4-decimal rounding of the model's exact value).
  * parser: a larger stream of logs only (junk lines, rows outside the table, ignored rows, Total rows, duplicate rows,
    -NA / multiple -opCat / missing category, phase lines, clock-scaling line, autopilot after the table).
  * end to end: shared scenario generator -> Acelyzer(...).run() with -c <log> --freq soc:core under several option
    sets; the model is evaluated on the kernel slices of the EXPORTED json and must reproduce pt_active of every
    kernel slice, the multiset of exported 'PT Active' counters and the csv the same run wrote.  Next to the shared
    scenarios a stream of kernel CHAINS (gen_chain: Exec slices exactly back to back, TS3 == TS4 of the predecessor,
    so that the closing sample of one kernel and the opening sample of the next share a timestamp), also under
    changed counter selections (-C).  Option x profile: 40 % of the end-to-end runs select the stage profile
    explicitly (--tb = shipped torch_minimal + TensorBoard exporter, -P <each shipped profile> by name or by path,
    --tb -P <profile>), combined with the other option sets.
  * names as data (all streams): kernel names of the log and of the trace are drawn from the whole documented row
    class (letters, digits, '_', '-': leading underscore / digit / dash, all digits, doubled / trailing dashes) and
    include names that differ only in case (XPOOL, case_variant); category names likewise (XCATS).
  * magnitudes (direct, off-grid and chain streams; heavy=True): every 6th direct case, 30 % of the off-grid cases and
    every 5th chain have a table of 1e8 .. 4e9 ideal cycles per kernel (also 2^31 +- 2, 2^32 +- 2) and kernel slices
    of 0.1 .. 4 s, several per rank, so that category rows and the Total row pass 2^31 and 2^32 cycles; in the chains
    TS1..TS5 are written modulo 2^32 with every slice shorter than half a counter period.
  * off-grid (supporting, ORACLE ONLY - no Coq comparison): 560:800 / 1000:1100 MHz style frequencies and decimal
    times; pt_active / Percent up to relative 1e-12, csv sums up to relative 1e-9, Ideal_Cyc exact, row order not
    checked.
Oracle (independent of the model, exact Fractions, from the generator's ground truth): per kernel slice pt_active =
min(1, (cycles/core)/dur) iff listed with non-zero cycles, counter pair (100*pt_active at ts, 0 at ts+dur), none
otherwise; csv: every slice counted once in its category (else 'other'), Total = sum of the category rows in all
three components, sum of Calls = number of kernel slices, ratios within half a printed unit.  End to end also the
exported 'PT Active' samples of a rank read as ONE counter track in file order (the last sample at a timestamp is the
value from then on): at every sample / kernel boundary it reads 100*pt_active of the kernel running then, else 0
(oracle_track; instants touched by genuinely overlapping counted kernels are left out).
"""
import contextlib
import csv
import gc
import io
import json
import os
import random
import shutil
import time
from fractions import Fraction

from common import coqrun, enc

ID = "C11"
PROP_FILE = "props/C11.v"
MODEL_TARGETS = ["theories/Util.vo"]
THEOREMS = ["C11_pt_active_value", "C11_pt_active_iff", "C11_kernel_slice_active", "C11_kernel_slice_idle",
            "C11_active_without_stats", "C11_idle_without_stats", "C11_events_pointwise", "C11_non_kernel_untouched", "C11_run_events",
            "C11_category_is_its_slices", "C11_slice_in_one_category", "C11_total_is_sum", "C11_calls_count",
            "C11_csv_rows", "C11_csv_ratios", "C11_cell_rounding", "C11_ideal_cyc", "C11_parsed_tables_ok",
            "C11_single_table", "C11_table_lookup"]
ALLOWED_AXIOMS = []
MANIFEST = {
    "text": "Proof. Coq theorems over an executable model (Util.v) of the compiler-log table (parser state machine, "
            "_add_kernel, category map), compute_utilization, make_utilization_event, calculate_stats' counter rule, "
            "accumulate_categories / set_categories_for_pid and print_table_as_pd, for ALL tables, core frequencies "
            "> 0, event sequences and ranks (no bound): pt_active = min(1, (cycles/core)/dur) (C11_pt_active_value), "
            "positive iff the kernel is listed with non-zero cycles and dur is not ~0 (C11_pt_active_iff); an active "
            "slice yields exactly the slice with pt_active, a 'PT Active' counter 100*pt_active at ts and 0 at "
            "ts+dur, an idle one nothing but the slice (C11_kernel_slice_active/_idle; the same without the statistics "
            "stage, -t: C11_active_without_stats, C11_idle_without_stats); the output stream is the in-order concatenation of the "
            "per-event outputs, non-kernel events unchanged, no exception when 'Cmpt Exec' slices have dur > 0 "
            "(C11_events_pointwise, C11_non_kernel_untouched, C11_run_events); after ANY event sequence every "
            "category row of a rank holds exactly (time, ideal time, calls of) the kernel slices of that rank the "
            "table files under it, unknown kernels under 'other' (C11_category_is_its_slices), each slice in exactly "
            "one row (C11_slice_in_one_category), Total = sum of the category rows in all three components "
            "(C11_total_is_sum), Total.Calls = number of kernel slices of the rank (C11_calls_count); the csv rows "
            "are a sorted permutation of the table rows with Frac_Time/Frac_Ideal/PT_Util the stated ratios, "
            "Ideal_Cyc the sum of the slices' cycles, printed cells within half a unit (C11_csv_rows, C11_csv_ratios, "
            "C11_ideal_cyc, C11_cell_rounding); every parsed table meets the hypothesis of the category theorems "
            "(C11_parsed_tables_ok); a log <no start> START <rows/junk> END <no start> yields exactly one table, in "
            "which a kernel has the cycles of its first non-zero row and the category of its first row "
            "(C11_single_table, C11_table_lookup). The model is tied to the code on every run: direct drive of the real "
            "MultiRCUUtilizationContext / compute_utilization / calculate_stats on generated log TEXT and event "
            "sequences with the csv read back, a parser-only stream, and end to end through Acelyzer -c <log> "
            "--freq soc:core with the model evaluated on the exported slices.",
    "note": "Print Assumptions: closed under the global context for all 20 theorems. Trusted: Coq kernel + "
            "vm_compute; the hand-written model is tied by differential testing only; the regular expressions that "
            "classify a log LINE are not modelled (the generator emits text plus its classification; a changed regex "
            "shows as a different parsed table); fingerprint hashing / similarity (choice among several tables) is "
            "outside the model - single-table logs only; double rounding not modelled: pt_active and Percent are "
            "compared up to relative 2^-50, csv cells printed after round(.,4) as correct 4-decimal roundings, "
            "everything else exactly (exact grid: core a power of two, times multiples of 2^-10). Hypothesis "
            "no_total of the Total theorems excludes data rows WITHOUT -opCat/-NA token (the code files them under a "
            "category literally named 'Total', counting them twice in the Total row: Example "
            "C11_uncategorised_row_counts_twice). The category of a slice is overwritten later by "
            "tb_refinement_lightweight, so end to end it is observable only through the csv. The ORDER of the exported "
            "'PT Active' samples is outside the model (the end-to-end tie compares them as a multiset): that the "
            "samples of a rank, read in file order as one counter track (last sample at a timestamp wins), show "
            "100*pt_active while a counted kernel runs and 0 otherwise is checked by the oracle only (oracle_track), "
            "on the shared scenarios and on generated kernel chains whose Exec slices are exactly back to back.",
    "technique": "Coq proof (induction over the event sequence with a key-set invariant on the per-rank tables, "
                 "setoid reasoning on Q triples, permutation/sortedness of the stable insertion sort) + vm_compute "
                 "correspondence against the real classes and Acelyzer end to end",
    "design_ref": "DESIGN.md section 4/C11",
}
TRUSTED = [
    "modelled, not verified: IEEE double rounding of ideal/dur, *100 and the csv ratios (compared up to relative "
    "2^-50, resp. as correct roundings to 4 decimals); pandas DataFrame.sort_values(kind='stable') on several keys "
    "taken as a stable lexicographic sort; to_csv prints round-trip floats",
    "modelled, not verified: the regular expressions classifying a log line (_data_pattern, _ignore_pattern is "
    "modelled on the name, _category_splitter is given as the split list); Python dict insertion order; "
    "hash(fprint+pid) collision-free for the ranks of a run",
    "fingerprint matching among several tables (RCUTableFingerprint hash/similarity) is outside the model: "
    "single-table logs, for which every job is mapped to the one table",
    "end-to-end tie reads the combined exported json; a kernel slice is an X event with args.TS1 whose "
    "args.orig_name (else name) ends in 'Cmpt Exec'",
]
ASSUMPTIONS = [
    "the compiler log holds exactly one finished ideal-cycle table (any rows, zero entries, ignored rows, junk)",
    "core frequency > 0 (Acelyzer asserts it); kernel slices have dur > 0 when statistics are on (calculate_stats "
    "asserts it)",
    "every data row carries an -opCat<category> or -NA token (hypothesis no_total of the Total/Calls theorems)",
    "both utilisation stages see the same events (they are separated only by the barrier), so every kernel slice's "
    "job has a fingerprint",
]

COQ_IMPORTS = "From AiuModel Require Import Util."
RUN_TY = "((cfg * list item * list uev) * val)"
G = 1024
CE = "Cmpt Exec"
CORES = [256.0, 512.0, 1024.0, 2048.0]
KPOOL = ["add_11", "convolution_1", "convolution_2", "relu_3", "addmm_MatMul", "mean", "bmm-BMM_1", "add",
         "max_pool2d_with_indices", "convolution", "addmm_1_MatMul-BMM_1", "view-VirtualReshape-Output-LxRelayout",
         "mul", "sub", "k_0", "K-9_x"]
CATS = ["Conv_fp16", "Broadcast", "Pooling", "Bmm_fp16", "Scalar", "StcdpLx", "ConvOs1_fp16", "StcdpHbm", "other"]
# NAMES AS DATA: a kernel name of the table is any word over letters, digits, '_' and '-' (the documented row format:
# <name>[-opCat<category>|-NA] <cycles>).  Torch-style names with a leading underscore, names with a leading digit or
# dash, all-digit names, inner / doubled / trailing dashes, and names that differ from another one only in case
# (a different kernel: its own cycles and category; an event whose name differs in case from a listed one is unlisted).
XPOOL = ["_softmax", "_to_copy", "_unsafe_view_2", "__x", "_", "2d_pool", "3x3_conv_1", "0", "42", "7up-BMM_2",
         "-lead", "-x_1", "-", "a--b", "a-b-c_3", "trailing-", "trailing_", "Add", "ADD", "Mean", "MEAN", "total",
         "TOTAL", "Add_11", "Relu_3", "K_0", "k-9_X"]
XCATS = ["conv_fp16", "Other", "_internal", "2d", "Fused-Op_1"]


def case_variant(rng, name):
    """a name that differs from `name` only in the case of its letters (None when there is no letter)"""
    vs = [v for v in (name.upper(), name.lower(), name.swapcase(), name.capitalize(), name.title()) if v != name]
    return rng.choice(sorted(set(vs))) if vs else None


def exotic_pool(rng, pool):
    """widen a pool of table names by names from XPOOL and by case variants of names already in it"""
    pool = list(pool)
    for _ in range(rng.choice([1, 1, 2, 3])):
        r = rng.random()
        if r < 0.65 or not pool:
            x = rng.choice(XPOOL)
        else:
            x = case_variant(rng, rng.choice(pool))
        if x and x not in pool:
            pool.insert(rng.randrange(len(pool) + 1), x)
    return pool


def _quiet():
    return contextlib.redirect_stdout(io.StringIO()), contextlib.redirect_stderr(io.StringIO())


def _bump(d, k):
    d[str(k)] = d.get(str(k), 0) + 1


# ---------------------------------------------------------------- compiler-log generator (text + classification)
JUNK = ["-" * 91, "Name" + " " * 76 + "Ideal Cy.", "[DeepRT] ===== Perf BEGIN =====", "====== Perf Summary ======", "",
        "Total\t\t\t\t\t\t\t\t\t\t556336", "name.with.dot-opCatX   55", " leadingspace-opCatX  55",
        "three-opCatX 1 2", "neg-opCatX -5", "float-opCatX 5.5", "tab-opCatX\t55", "nonumber-opCatX",
        "mixed-opCatY 12abc", "[DeepRT] ===== Perf END =====", "comma-opCatX 1,000", "hex-opCatX 0x10",
        "plus+opCatX 10", "=== Perf Summary End =====", "Ideal/Total Cycles", "PREFILL", "  PREFILL x ",
        "Ideal Clock Scaling 1.0"]
STARTS = ["~~~~ Ideal/Total Cycles ~~~~", "== Ideal/Total Cycles ==", "x Ideal/Total Cycles y"]
ENDS = ["====== Perf Summary End ======", "xx ====== Perf Summary End ====== yy"]


def render(it):
    k = it[0]
    if k == "start":
        return STARTS[it[1]]
    if k == "end":
        return ENDS[it[1]]
    if k == "auto":
        return "[DeepRT] ===== DSM-AutoPilot BEGIN ====="
    if k == "clock":
        return "Ideal Clock Scaling: 1.25"
    if k == "junk":
        return JUNK[it[1]]
    if k == "phase":
        return ("   PREFILL   " if it[1] else "\tDECODING ") if it[2] == 0 else (" PREFILL" if it[1] else "  DECODING")
    if k == "row":
        _, base, pieces, cyc, sep, trail, zpad = it
        return base + "".join(pieces) + " " * sep + ("0" * zpad + str(cyc)) + " " * trail
    raise ValueError(k)


def log_text(items):
    return "\n".join(render(i) for i in items) + "\n"


def gen_pieces(rng, edge):
    r = rng.random()
    if not edge or r < 0.6:
        u = rng.random()
        if u < 0.1:
            return ["-NA", ""]
        if u < 0.18:
            return ["-opCat", rng.choice(XCATS)]          # category names are data too (case, leading '_' / digit)
        return ["-opCat", rng.choice(CATS)]
    if r < 0.7:
        return []                                   # no category at all -> accounted under 'Total' (quirk)
    if r < 0.8:
        return ["-opCat", rng.choice(CATS), "-opCat", rng.choice(CATS)]
    if r < 0.9:
        return ["-opCat", rng.choice(CATS), "-NA", ""]
    if r < 0.95:
        return ["-opCat", ""]
    return ["-opCat", "Total"]


def heavy_cycles(rng):
    """MAGNITUDES: ideal cycle counts of 1e8 .. 4e9 per kernel (0.1 .. 5 s of ideal time at 800 MHz), and counts right
    at 2^31 / 2^32, so that the sums of a category row and of the Total row pass 2^31 and 2^32"""
    return rng.choice([rng.randrange(10 ** 8, 4 * 10 ** 9), rng.randrange(10 ** 8, 4 * 10 ** 9),
                       G * rng.randrange(10 ** 5, 4 * 10 ** 6), (1 << 31) + rng.randrange(-2, 3),
                       (1 << 32) + rng.randrange(-2, 3), rng.randrange(1, 200000)])


def gen_row(rng, base, edge, zero_p=0.25, heavy=False):
    if heavy:
        cyc = 0 if rng.random() < min(zero_p, 0.15) or zero_p >= 1.0 else heavy_cycles(rng)
    else:
        cyc = 0 if rng.random() < zero_p else rng.choice([rng.randrange(1, 64), rng.randrange(1, 200000),
                                                           G * rng.randrange(1, 200)])
    sep = rng.choice([1, 2, 80 - min(79, len(base) + 10)])
    return ("row", base, gen_pieces(rng, edge), cyc, max(1, sep), rng.choice([0, 0, 3, 15]),
            rng.choice([0, 0, 0, 2]) if edge else 0)


def gen_log(rng, edge=False, all_zero=False, pool=None, heavy=False):
    """single-table log: items (classification, = the model's input) in line order; heavy: the rows of the table carry
    ideal cycle counts of 1e8 .. 4e9"""
    if pool is None:
        pool = rng.sample(KPOOL, rng.randrange(1, 8))
        if rng.random() < 0.45:
            pool = exotic_pool(rng, pool)
    pool = list(pool)
    items = []

    def noise(n, inside):
        out = []
        for _ in range(n):
            r = rng.random()
            if r < 0.5:
                out.append(("junk", rng.randrange(len(JUNK))))
            elif r < 0.65:
                out.append(gen_row(rng, rng.choice(KPOOL + XPOOL), edge))      # outside the table: must be ignored
            elif r < 0.75:
                out.append(("clock",))
            elif r < 0.9 and not inside:
                out.append(("phase", rng.random() < 0.5, rng.randrange(2)))
            elif edge and not inside:
                out.append(("end", 0))                                  # end without start: ignored
            else:
                out.append(("junk", 0))
        return out
    items += noise(rng.randrange(0, 5), False)
    if edge and rng.random() < 0.15:                                    # an abandoned table start
        items += [("start", 0)] + [gen_row(rng, rng.choice(KPOOL), edge) for _ in range(rng.randrange(0, 3))]
    items.append(("start", rng.randrange(len(STARTS))))
    body = []
    for b in pool:
        body.append(gen_row(rng, b, edge, zero_p=1.0 if all_zero else 0.25, heavy=heavy))
        r = rng.random()
        if r < 0.12:                                                    # duplicate row, same or different values
            body.append(gen_row(rng, b, edge, zero_p=1.0 if all_zero else 0.4, heavy=heavy))
        elif r < 0.2:
            body.append(gen_row(rng, b + rng.choice(["-Precompute", "-LxPreload", "_Precompute_x"]), edge))
        elif r < 0.3:
            body.append(("junk", rng.randrange(len(JUNK))))
        elif r < 0.34:
            body.append(("clock",))
        elif r < 0.38 and edge:
            body.append(("phase", rng.random() < 0.5, 0))               # inside a table: no effect on its phase
    if rng.random() < 0.8:
        body.append(("junk", 0))
        body.append(("row", "Total", [], sum(i[3] for i in body if i[0] == "row"), 5, 0, 0))
    items += body
    items.append(("end", rng.randrange(len(ENDS))))
    items += noise(rng.randrange(0, 4), False)
    if edge and rng.random() < 0.3:
        items.append(("auto",))
        items += noise(2, False)
    # phase lines after the end do not matter; rows after the end are ignored
    return items


def listed(items):
    """ground truth for the oracle, independent of the model: kernel name -> (cycles, category) for a single-table
    log under the documented reading: first row of a name fixes the category, first NON-ZERO row its cycles; rows
    outside start..end, rows naming Precompute/-LxPreload and the Total row do not count."""
    active, cyc, cat, finished, total = False, {}, {}, None, 0
    for it in items:
        if it[0] == "auto":
            break
        if it[0] == "start":
            active, cyc, cat, total = True, {}, {}, 0
        elif it[0] == "end" and active:
            active, finished = False, (dict(cyc), dict(cat), total)
        elif it[0] == "row" and active:
            name = it[1] + "".join(it[2])
            if "Precompute" in name or "-LxPreload" in name or it[1] == "Total":
                continue
            k = it[1] + " " + CE
            total += it[3]
            if k not in cyc and it[3] != 0:
                cyc[k] = it[3]
            if k not in cat:
                p = it[2]
                cat[k] = "Total" if not p else (p[-1] if p[0] == "-opCat" else "NotAvailable")
    return finished


# ---------------------------------------------------------------- event generator
def gen_events(rng, items, edge=False, stats=True, n=None, heavy=False):
    """heavy: more slices per rank and slices that run for 0.1 .. 4 s (the time unit is the microsecond)"""
    truth = listed(items)
    names = [k[:-len(CE) - 1] for k in truth[1]] if truth else []
    npid = rng.choice([1, 1, 2, 3])
    n = (rng.randrange(3, 20) if heavy else rng.randrange(0, 14)) if n is None else n
    evs = []
    ts = {p: rng.randrange(1, 1 << 30) + rng.randrange(G) / G for p in range(npid)}
    for _ in range(n):
        pid = rng.randrange(npid)
        r = rng.random()
        if r < 0.75 or not names:
            u = rng.random()
            if names and u < 0.82:
                base = rng.choice(names)
            elif names and u < 0.88:
                # differs from a listed name only in case: another kernel (listed only if the log lists it as well)
                base = case_variant(rng, rng.choice(names)) or "unlisted_3"
            else:
                base = rng.choice(KPOOL + XPOOL + ["unlisted_3", "_unlisted", "9unlisted"])
            cyc = truth[0].get(base + " " + CE, 0) if truth else 0
            rr = rng.random()
            if cyc and rr < 0.15:
                durg = cyc                      # ratio depends on core only (1.0 when core == 1024)
            elif cyc and rr < 0.3:
                durg = max(1, cyc >> rng.randrange(1, 4))           # above 100 %
            elif cyc and rr < 0.45:
                durg = cyc << rng.randrange(1, 5)
            elif heavy and rr < 0.9:
                durg = rng.randrange(10 ** 8, 4 * 10 ** 9)         # 0.1 .. 4 s
            else:
                durg = rng.choice([rng.randrange(1, 400), rng.randrange(1, 300000)])
            e = {"ph": "X", "name": base + " " + CE, "pid": pid, "tid": 3, "ts": ts[pid], "dur": durg / G,
                 "args": {"TS1": "1", "TS2": "2", "TS3": "3", "TS4": "4", "TS5": "5"}}
            if rng.random() < 0.1:
                e["cat"] = "precat"
            if rng.random() < 0.08 and "_" in base:
                # remove_ids_from_name style: first number replaced by [N], kept in args.fn_idx
                import re
                m = re.search(r"[_-](\d+)", base)
                if m:
                    e["name"] = base[:m.start(1)] + "[N]" + base[m.end(1):] + " " + CE
                    e["args"]["fn_idx"] = int(m.group(1)) if rng.random() < 0.5 else m.group(1)
            ts[pid] += durg / G + rng.choice([0, 0, rng.randrange(1, 5000) / G])
        elif r < 0.85:
            e = {"ph": "X", "name": rng.choice(KPOOL) + " Cmpt Prep", "pid": pid, "tid": 2, "ts": ts[pid],
                 "dur": rng.randrange(1, 500) / G,
                 "args": {"TS1": "1", "TS2": "2", "TS3": "3", "TS4": "4", "TS5": "5"}}
        elif r < 0.93:
            e = {"ph": "X", "name": rng.choice(["HostFn_1", "Flex RoundTrip", "x Cmpt Exe"]), "pid": pid, "tid": 11,
                 "ts": ts[pid], "dur": rng.randrange(1, 500) / G, "args": {}}
        elif r < 0.97:
            e = {"ph": "C", "name": rng.choice(["Power", "PT Active"]), "pid": pid, "ts": ts[pid],
                 "args": {"Percent": 12.5}}
        else:
            e = {"ph": "M", "name": "process_name", "pid": pid, "ts": 0, "args": {"name": "r"}}
        e["args"]["job"] = pid          # replaced by the registered jobhash in the driver
        evs.append(e)
    if edge and not stats and evs:
        # degenerate durations: only without calculate_stats (it asserts dur > 0)
        for e in evs:
            if e["ph"] == "X" and rng.random() < 0.2:
                # (heavy: no 2^-40 - next to durations of seconds the double sum of a category row would no longer
                # be exact, and the tie compares the sums exactly)
                e["dur"] = rng.choice([0.0, -e["dur"]] if heavy else [0.0, -e["dur"], 2.0 ** -40])
    return evs


def gen_case(rng, edge=False, all_zero=False, heavy=False):
    items = gen_log(rng, edge=edge, all_zero=all_zero, heavy=heavy)
    stats = rng.random() < 0.8
    core = rng.choice(CORES)
    c = {"items": items, "core": core, "soc": rng.choice(CORES), "stats": stats,
         "events": gen_events(rng, items, edge=edge, stats=stats, heavy=heavy)}
    if heavy:
        c["heavy"] = True
    return c


def gen_offgrid(rng):
    """realistic decimals: 560:800 / 1000:1100 MHz, times with 3 decimals (supporting stream, oracle only)"""
    c = gen_case(rng, edge=False, heavy=rng.random() < 0.3)
    c["core"] = rng.choice([800.0, 1100.0, 560.0, 1000.0, 933.3])
    c["soc"] = rng.choice([560.0, 1000.0])
    c["stats"] = True
    c["offgrid"] = True
    for e in c["events"]:
        e["ts"] = round(e["ts"] + rng.randrange(1000) / 1000.0, 3)
        if "dur" in e:
            e["dur"] = round(e["dur"] * 1.001 + 0.001 * rng.randrange(1, 999), 3)
    return c


# ---------------------------------------------------------------- implementation driver
class Crash(Exception):
    pass


def _num(txt):
    try:
        return int(txt)
    except ValueError:
        return Fraction(txt)


def read_csv(path):
    rows = []
    with open(path, newline="") as fh:
        rd = csv.reader(fh)
        hdr = next(rd)
        if hdr != ["Pid", "Phase", "Category", "Kernel_Time", "Frac_Time", "Calls", "Ideal_Time", "Ideal_Cyc",
                   "Frac_Ideal", "PT_Util"]:
            return ["bad header", hdr]
        for r in rd:
            rows.append([_num(r[0]), r[1], r[2], Fraction(*float(r[3]).as_integer_ratio()), Fraction(r[4]), _num(r[5]), Fraction(r[6]),
                         _num(r[7]), Fraction(r[8]), Fraction(r[9])])
    return rows


def project(e):
    a = e.get("args", {})
    if e.get("ph") == "C" and e.get("name") == "PT Active" and "Percent" in a and "jobhash" not in a:
        return ["C", "PT Active", e["pid"], e["ts"], a["Percent"], e.get("dur")]
    return [e["ph"], e["name"], e["pid"], e["ts"], e.get("dur", 0), a.get("pt_active"), a.get("core used"),
            e.get("cat"), a.get("user_cat")]


def run_impl(case, workdir):
    """drive the real classes; returns the observed value (python lists) or enc.Err"""
    import copy
    import aiu_trace_analyzer.pipeline.rcu_utilization as ru
    import aiu_trace_analyzer.pipeline.stats as st
    from aiu_trace_analyzer.types import GlobalIngestData, InputDialectFLEX

    shutil.rmtree(workdir, ignore_errors=True)
    os.makedirs(workdir)
    logp = os.path.join(workdir, "compiler.log")
    with open(logp, "w") as fh:
        fh.write(case["text"] if "text" in case else log_text(case["items"]))
    outp = os.path.join(workdir, "out.json")
    import aiu_trace_analyzer.logger as aiulog
    aiulog.loglevel = -1
    GlobalIngestData()
    jobs = {}
    evs = copy.deepcopy(case["events"])
    for e in evs:
        j = e["args"].pop("job")
        if j not in jobs:
            jobs[j] = GlobalIngestData.add_job_info(os.path.join(workdir, f"rank{j}.json"), InputDialectFLEX())
        e["args"]["jobhash"] = jobs[j]
    q1, q2 = _quiet()
    try:
        with q1, q2:
            try:
                ctx = ru.MultiRCUUtilizationContext(compiler_log=logp, csv_fname=outp, soc_freq=case["soc"],
                                                    core_freq=case["core"], stats_enabled=case["stats"])
            except TypeError:       # a tree without the stats_enabled parameter (before fix dbd55f3)
                ctx = ru.MultiRCUUtilizationContext(compiler_log=logp, csv_fname=outp, soc_freq=case["soc"],
                                                    core_freq=case["core"])
            ctx.enable()
            rc = ctx.rcuctx[0]
            if len(rc.kernel_cycles) != 1:
                rc.categories = {}
                return enc.Err("not_single_table")
            fp = next(iter(rc.kernel_cycles))
            tblv = [[[k, v] for k, v in rc.kernel_cycles[fp].items()],
                    [[k, v] for k, v in rc.kernel_cat_map[fp].kernel_cat_map.items()],
                    rc.fingerprints[fp].get_table_mode(), rc.fingerprints[fp].totaltime]
            try:
                s1 = []
                for e in evs:
                    s1 += ru.compute_utilization_fingerprints(e, ctx)
                ctx.drain()
                s2 = []
                for e in s1:
                    s2 += ru.compute_utilization(e, ctx)
                ctx.drain()
                if case["stats"]:
                    sctx = st.StatsExtractionContext(stats_filename=outp)
                    s3 = []
                    for e in s2:
                        s3 += st.calculate_stats(e, sctx)
                    sctx.total_util = {}
                else:
                    s3 = s2
            except Exception as ex:  # noqa: BLE001
                rc.categories = {}          # nothing to print at destruction
                return enc.Err(type(ex).__name__)
            evv = [project(e) for e in s3]
            catv = [[rc.hash_to_pid[h][0], [[k, d, i, n] for k, (d, i, n) in data.items()]]
                    for h, data in rc.categories.items()]
            del rc, ctx
            gc.collect()
        csvp = os.path.join(workdir, "out_categories.csv")
        csvv = read_csv(csvp) if os.path.exists(csvp) else None
        return [tblv, evv, catv, csvv]
    finally:
        pass


# ---------------------------------------------------------------- encoding
def coq_item(it):
    k = it[0]
    if k == "start":
        return "IStart"
    if k == "end":
        return "IEnd"
    if k == "auto":
        return "IAuto"
    if k == "clock":
        return "IClock"
    if k == "junk":
        return "IJunk"
    if k == "phase":
        return f"(IPhase {enc.B(it[1])})"
    return f"(IRow {enc.S(it[1])} {enc.L([enc.S(p) for p in it[2]])} {enc.Z(it[3])})"


def coq_event(e):
    a = e.get("args", {})
    acc = "TS1" in a
    fn = a.get("fn_idx")
    return ("(mkUev " + " ".join([
        enc.S(e["ph"]), enc.S(e["name"]), enc.Z(e["pid"]), enc.Q(e["ts"]), enc.Q(e.get("dur", 0)), enc.B(acc),
        enc.O(e.get("cat"), enc.S), enc.O(None if fn is None else str(fn), enc.S), enc.Z(a.get("job", 0))]) + ")")


def coq_input(case):
    return enc.P(enc.P(f"(mkCfg {enc.Q(case['core'])} {enc.B(case['stats'])})",
                       enc.L([coq_item(i) for i in case["items"]])),
                 enc.L([coq_event(e) for e in case["events"]]))


def coq_case(case, observed):
    return enc.P(coq_input(case), enc.V(observed)), "(VB true)"


# ---------------------------------------------------------------- oracle (independent of the model; exact Fractions)
F = Fraction
CSV_HALF = F(1, 20000) + F(1, 10 ** 9)


def fr(x):
    return x if isinstance(x, Fraction) else (F(x) if isinstance(x, int) else F(*float(x).as_integer_ratio()))


def is_kernel_ev(e):
    return e.get("ph") == "X" and "TS1" in e.get("args", {}) and e["name"].endswith(CE)


def resolved_name(e):
    n = e["name"]
    a = e.get("args", {})
    if "[N]" in n and "fn_idx" in a:
        n = n.replace("[N]", str(a["fn_idx"]), 1)
    return n if n.endswith(CE) else n + " " + CE


def expected_pt(truth, core, name, dur):
    """min(1, (cycles/core)/dur) for a kernel listed with non-zero cycles, else None"""
    cyc = truth[0].get(name, 0)
    if cyc == 0:
        return None
    return min(F(1), (F(cyc) / fr(core)) / fr(dur))


def close(a, b, rel=F(1, 10 ** 12)):
    a, b = fr(a), fr(b)
    return abs(a - b) <= rel * max(abs(a), abs(b))


def oracle_direct(case, obs):
    """-> list of failures ({expected, observed, signature}) of the property on the observed output of one case"""
    truth = listed(case["items"])
    if truth is None:
        return []
    evs = case["events"]
    if any(e["ph"] == "X" and e.get("dur", 0) < 2.0 ** -20 for e in evs):
        return []                                   # degenerate durations: tie only
    if isinstance(obs, enc.Err):
        return [{"expected": "run completes", "observed": repr(obs),
                 "signature": {"kind": "run_aborts", "exc": obs.tag}}]
    core, stats = case["core"], case["stats"]
    tblv, evv, catv, csvv = obs
    fails = []
    # --- the event stream
    exp = []
    for e in evs:
        if not is_kernel_ev(e):
            exp.append(("pass", e))
            continue
        kn = resolved_name(e)
        pt = expected_pt(truth, core, kn, e["dur"])
        exp.append(("kern", e, pt, truth[1].get(kn, "other")))
        if pt is not None:      # with or without the statistics stage: the pair, no helper dur left
            exp.append(("cnt", e["pid"], fr(e["ts"]), 100 * pt, None))
            exp.append(("cnt", e["pid"], fr(e["ts"]) + fr(e["dur"]), F(0), None))
    if len(exp) != len(evv):
        kinds = [("C" if x[0] == "cnt" else "E") for x in exp]
        got = [("C" if (o[0] == "C" and o[1] == "PT Active" and len(o) == 6) else "E") for o in evv]
        fails.append({"expected": {"shape (E = event, C = PT Active counter)": "".join(kinds),
                                   "events": [[x[0]] + ([x[1]["name"], x[2] if x[0] == "pass" or x[2] is None
                                                         else float(x[2])] if x[0] != "cnt"
                                                        else [x[1], float(x[2]), float(x[3])]) if x[0] != "pass"
                                              else ["pass", x[1]["name"]] for x in exp][:12]},
                      "observed": {"shape": "".join(got), "events": [list(o) for o in evv][:12]},
                      "signature": {"kind": "event_stream_wrong", "what": "number or order of returned events",
                                    "more_counters": got.count("C") > kinds.count("C"),
                                    "fewer_counters": got.count("C") < kinds.count("C")}})
    else:
        for x, o in zip(exp, evv):
            if x[0] == "cnt":
                ok = (len(o) == 6 and o[0] == "C" and o[1] == "PT Active" and o[2] == x[1] and
                      (fr(o[3]) == x[2] or (case.get("offgrid") and close(o[3], x[2])))
                      and close(o[4], x[3]) and (o[5] is None) == (x[4] is None) and
                      (x[4] is None or fr(o[5]) == fr(x[4])))
                if not ok:
                    fails.append({"expected": ["C", "PT Active", x[1], str(x[2]), str(x[3]), x[4]], "observed": o,
                                  "signature": {"kind": "counter_wrong",
                                                "at_end": x[3] == 0, "value_ok": len(o) == 6 and close(o[4], x[3])
                                                if len(o) == 6 and not isinstance(o[4], (str, type(None))) else False}})
            elif x[0] == "pass":
                e = x[1]
                want = [e["ph"], e["name"], e["pid"], e["ts"], e.get("dur", 0), None, None, e.get("cat"), None]
                if list(o) != want:
                    fails.append({"expected": want, "observed": o, "signature": {"kind": "non_kernel_event_changed"}})
            else:
                _, e, pt, cat = x
                if len(o) != 9 or o[:5] != [e["ph"], e["name"], e["pid"], e["ts"], e["dur"]]:
                    fails.append({"expected": [e["ph"], e["name"], e["pid"], e["ts"], e["dur"]], "observed": o,
                                  "signature": {"kind": "kernel_slice_changed"}})
                    continue
                got = o[5]
                if (pt is None) != (got is None) or (pt is not None and not close(got, pt)) or \
                        ((pt is not None) != (o[6] is True)):
                    fails.append({"expected": {"pt_active": None if pt is None else float(pt), "kernel": e["name"],
                                               "dur": e["dur"], "core": core},
                                  "observed": {"pt_active": got, "core used": o[6]},
                                  "signature": {"kind": "pt_active_wrong", "expected_present": pt is not None,
                                                "observed_present": got is not None,
                                                "clamped": pt == 1}})
                wcat = [e["cat"], cat] if "cat" in e else [cat, None]
                if [o[7], o[8]] != wcat:
                    fails.append({"expected": wcat, "observed": [o[7], o[8]],
                                  "signature": {"kind": "category_wrong", "had_cat": "cat" in e}})
    # --- the csv
    ks = [{"pid": e["pid"], "name": resolved_name(e), "dur": e["dur"]} for e in evs if is_kernel_ev(e)]
    fails += oracle_csv(ks, csvv, truth, core, tolerant=bool(case.get("offgrid")))
    return fails


def oracle_csv(ks, rows, truth, core, tolerant=False):
    """ks: kernel slices (pid, resolved name, dur); rows: the csv as read back (or None).
    tolerant (off-grid stream): sums are double sums (relative 1e-9) and int(ideal/factor) may lose one unit per
    summand to truncation"""
    fails = []

    def same_t(a, b):
        return a == b if not tolerant else close(a, b, F(1, 10 ** 9))

    def same_c(a, b, n=1):
        # cycle counts are integers "as read from the table": exact also off the grid (until /repo fix "C11b"
        # int(ideal/factor) truncated a double quotient and lost one unit per summand at 560/800/1100 MHz)
        return a == b
    if not ks:
        if rows:
            fails.append({"expected": "no csv", "observed": rows[:3], "signature": {"kind": "csv_without_kernels"}})
        return fails
    if rows is None or (rows and rows[0] == "bad header"):
        return [{"expected": "categories csv", "observed": rows, "signature": {"kind": "csv_missing"}}]
    core = fr(core)
    total_cat = "Total" in truth[1].values()
    pids = sorted({k["pid"] for k in ks})
    if sorted({r[0] for r in rows}) != pids:
        fails.append({"expected": pids, "observed": sorted({r[0] for r in rows}),
                      "signature": {"kind": "csv_rank_set_wrong"}})
        return fails
    order = [(r[0], r[3]) for r in rows]
    if order != sorted(order) and not tolerant:
        fails.append({"expected": "rows sorted by (Pid, Kernel_Time)", "observed": [(a, float(b)) for a, b in order],
                      "signature": {"kind": "csv_order_wrong"}})
    ncalls = 0
    for p in pids:
        pr = [r for r in rows if r[0] == p]
        names = [r[2] for r in pr]
        want = {"Total", "StcdpHbm", "other"} | set(truth[1].values())
        if len(set(names)) != len(names) or set(names) != want:
            fails.append({"expected": sorted(want), "observed": names, "signature": {"kind": "csv_category_set_wrong"}})
            continue
        mine = [k for k in ks if k["pid"] == p]
        by = {r[2]: r for r in pr}
        tot = by["Total"]
        for c, r in by.items():
            if c == "Total":
                sl = mine
                if total_cat:
                    continue                # quirk: rows without category token are filed under 'Total' twice
            else:
                sl = [k for k in mine if truth[1].get(k["name"], "other") == c]
            dur = sum((fr(k["dur"]) for k in sl), F(0))
            cyc = sum(truth[0].get(k["name"], 0) for k in sl)
            if not same_t(r[3], dur) or r[5] != len(sl) or not same_c(r[7], cyc) or \
                    abs(r[6] - F(cyc) / core) > CSV_HALF * (2 if tolerant else 1):
                fails.append({"expected": {"category": c, "Kernel_Time": float(dur), "Calls": len(sl),
                                           "Ideal_Cyc": cyc, "Ideal_Time": float(F(cyc) / core)},
                              "observed": [str(x) for x in r],
                              "signature": {"kind": "csv_row_wrong", "total_row": c == "Total",
                                            "time_ok": same_t(r[3], dur), "calls_ok": r[5] == len(sl),
                                            "cycles_ok": same_c(r[7], cyc)}})
            # ratios: the row's time against the Total row's time, ideal times from the table's cycles
            ideal = F(cyc) / core
            itot = F(sum(truth[0].get(k["name"], 0) for k in mine)) / core
            for idx, nm, num, den in ((4, "Frac_Time", r[3], tot[3]), (8, "Frac_Ideal", ideal, itot),
                                      (9, "PT_Util", ideal, r[3])):
                if total_cat and idx != 9:
                    continue            # the doubled Total row of the quirk is the denominator
                wantv = F(0) if abs(den) <= F(1, 10 ** 9) else num / den
                if abs(r[idx] - wantv) > CSV_HALF * (3 if tolerant else 1):
                    fails.append({"expected": {nm: float(wantv), "category": c}, "observed": float(r[idx]),
                                  "signature": {"kind": "csv_ratio_wrong", "column": nm}})
        if not total_cat:
            others = [r for c, r in by.items() if c != "Total"]
            sums = [sum((r[i] for r in others), F(0)) for i in (3, 5, 7)]
            if not (same_t(sums[0], tot[3]) and sums[1] == tot[5] and same_c(sums[2], tot[7], len(others))):
                fails.append({"expected": {"Total": [str(s) for s in sums]},
                              "observed": [str(tot[3]), str(tot[5]), str(tot[7])],
                              "signature": {"kind": "csv_total_not_sum"}})
        ncalls += tot[5]
    if not total_cat and ncalls != len(ks):
        fails.append({"expected": len(ks), "observed": ncalls, "signature": {"kind": "csv_calls_not_slice_count"}})
    return fails


def nontrivial_case(case):
    """>= 2 categories receive a kernel slice and >= 1 slice has a non-zero utilisation"""
    truth = listed(case["items"])
    if truth is None:
        return False
    ks = [resolved_name(e) for e in case["events"] if is_kernel_ev(e)]
    return len({truth[1].get(k, "other") for k in ks}) >= 2 and any(truth[0].get(k, 0) for k in ks)


# ---------------------------------------------------------------- shrinking
def shrink_direct(case, workdir, sig_kind, budget=40.0):
    t0 = time.time()

    def bad(c):
        if listed(c["items"]) is None:
            return False
        fs = oracle_direct(c, run_impl(c, workdir))
        return any(f["signature"]["kind"] == sig_kind for f in fs)
    cur = dict(case)
    changed = True
    while changed and time.time() - t0 < budget:
        changed = False
        for key in ("events", "items"):
            i = 0
            while i < len(cur[key]) and time.time() - t0 < budget:
                c2 = dict(cur)
                c2[key] = cur[key][:i] + cur[key][i + 1:]
                if bad(c2):
                    cur, changed = c2, True
                else:
                    i += 1
    return cur


def shrink_e2e(ec, f, workdir, budget=15.0):
    """drop whole input files and whole slices (an X event, or a B with its E) while a failure with the same
    signature remains; -> (smaller case, its failure)"""
    t0 = time.time()
    want = f["signature"]

    def bad(c):
        obs, _m, ks, rest = run_e2e(c, workdir)
        if isinstance(obs, enc.Err):
            return None
        for g in oracle_e2e(c, ks, rest[0], rest[1]):
            if g["signature"] == want:
                return g
        return None

    def groups(evs):
        out, i = [], 0
        while i < len(evs):
            if evs[i].get("ph") == "B" and i + 1 < len(evs) and evs[i + 1].get("ph") == "E" and \
                    evs[i + 1]["name"] == evs[i]["name"]:
                out.append(evs[i:i + 2])
                i += 2
            else:
                out.append(evs[i:i + 1])
                i += 1
        return out
    cur, curf = dict(ec), f
    for fn in list(cur["files"]):
        if len(cur["files"]) > 1 and time.time() - t0 < budget:
            c2 = dict(cur, files={k: v for k, v in cur["files"].items() if k != fn})
            g = bad(c2)
            if g:
                cur, curf = c2, g
    changed = True
    while changed and time.time() - t0 < budget:
        changed = False
        for fn in list(cur["files"]):
            gs = groups(cur["files"][fn])
            i = 0
            while i < len(gs) and time.time() - t0 < budget:
                rest_ = gs[:i] + gs[i + 1:]
                c2 = dict(cur, files=dict(cur["files"], **{fn: [e for g_ in rest_ for e in g_]}))
                g = bad(c2)
                if g:
                    cur, curf, gs, changed = c2, g, rest_, True
                else:
                    i += 1
    return cur, curf


def failure_record(mode, case, f):
    inp = {"mode": mode, "case": case}
    if mode == "direct":
        inp["log_text"] = log_text(case["items"])
    return {"input": inp, "expected": f["expected"], "observed": f["observed"], "signature": f["signature"]}


# ---------------------------------------------------------------- end to end
E2E_OPTS = [[], [], ["--disable_tb"], ["--keep_names"], ["-M"], ["--drop_globals"], ["--keep_prep"], ["-O", "tid"],
            ["-t"], ["-t"], ["-t", "--disable_tb"], ["-F", "XC"], ["-F", "XCM"], ["--flow"], ["--power-stats"]]

# option x profile: --tb selects the shipped 'torch_minimal' stage profile (and the TensorBoard exporter), -P names a
# stage profile explicitly (bare name of a shipped one, or a path: '@profiles/' stands for the profiles directory of
# the tree under test).  The property's claims do not depend on which shipped profile runs the two utilization stages.
PROFILE_SEL = [["--tb"], ["--tb"], ["--tb"], ["-P", "torch_minimal.json"], ["-P", "default.json"],
               ["-P", "everything.json"], ["-P", "@profiles/torch_minimal.json"], ["-P", "@profiles/everything.json"],
               ["--tb", "-P", "default.json"], ["--tb", "-P", "everything.json"], ["--tb", "-P", "torch_minimal.json"]]


def with_profile(rng, opts, p=0.4):
    if rng.random() < p:
        return list(rng.choice(PROFILE_SEL)) + list(opts)
    return list(opts)


def resolve_opts(opts):
    d = os.path.join(coqrun.REPO, "src", "aiu_trace_analyzer", "profiles") + os.sep
    return [o.replace("@profiles/", d, 1) if isinstance(o, str) and o.startswith("@profiles/") else o for o in opts]


def readback_items(path):
    """classification of the lines written by scenario.compiler_log (its format is fixed: name-opCatX <cycles>)"""
    import re
    items = []
    for ln in open(path).read().split("\n"):
        m = re.match(r"^(\S+?)-opCat(\S*) +(\d+) *$", ln)
        if " Ideal/Total Cycles " in ln:
            items.append(("start", 0))
        elif "====== Perf Summary End ======" in ln:
            items.append(("end", 0))
        elif m and "-opCat" not in m.group(2):
            items.append(("row", m.group(1), ["-opCat", m.group(2)], int(m.group(3)), 1, 0, 0))
        else:
            items.append(("junk", 0))
    return items


def gen_e2e(rng, workdir):
    from common import scenario
    shutil.rmtree(workdir, ignore_errors=True)
    os.makedirs(workdir)
    s = scenario.gen_scenario(rng, ranks=rng.choice([1, 1, 2, 3]), kernels=rng.randrange(2, 10),
                              host=rng.randrange(0, 3), zero_dur=False)
    logp = os.path.join(workdir, "compiler.log")
    names = sorted({t["name"].rsplit(" " + CE, 1)[0] for t in s.truth.values() if t["kind"] == CE})
    if names and rng.random() < 0.4:
        # names as data: some kernels of the scenario get a name from the wider class (all their events, every lane)
        ren = {}
        for n in rng.sample(names, min(len(names), rng.choice([1, 1, 2]))):
            x = rng.choice(XPOOL) if rng.random() < 0.7 else case_variant(rng, n)
            if x and x not in names and x not in ren.values():
                ren[n] = x
        for evs in s.files.values():
            for e in evs:
                for old, new in ren.items():
                    if e.get("name", "").startswith(old + " ") or e.get("name", "").startswith(old + "-Other"):
                        e["name"] = new + e["name"][len(old):]
                        break
        for t in s.truth.values():
            for old, new in ren.items():
                if t["name"].startswith(old + " ") or t["name"].startswith(old + "-Other"):
                    t["name"] = new + t["name"][len(old):]
                    break
        names = sorted({t["name"].rsplit(" " + CE, 1)[0] for t in s.truth.values() if t["kind"] == CE})
    r = rng.random()
    if r < 0.4:
        force = rng.choice([None, None, None, "all_zero", "empty"])
        scenario.compiler_log(s, logp, rng, allow_zero_total=True, force=force)
        items = readback_items(logp)
        text = open(logp).read()
    else:
        pool = [n for n in names if rng.random() < 0.8] + rng.sample(KPOOL, rng.randrange(0, 3))
        items = gen_log(rng, edge=rng.random() < 0.3, all_zero=rng.random() < 0.1, pool=pool or ["add_11"])
        text = log_text(items)
        open(logp, "w").write(text)
    core = rng.choice(CORES)
    opts = with_profile(rng, rng.choice(E2E_OPTS))
    return {"files": {fn: evs for fn, evs in s.files.items()}, "freq": s.freq, "core": core, "opts": opts,
            "items": items, "text": text, "summary": s.summary()}


# option sets of the chain stream: the general ones plus a changed counter selection (-C without coll_bw / without
# the power counter) - the 'PT Active' track is a statement about the exported file whatever else is selected
CHAIN_OPTS = E2E_OPTS + [["-C", "rcu_util", "power_ts4"], ["-C", "rcu_util"], ["-C", "rcu_util", "coll_bw"],
                         ["-t", "-C", "rcu_util", "prep_queue"], ["-t", "-C", "rcu_util", "coll_bw"]]


def gen_chain(rng, heavy=False):
    """heavy (MAGNITUDES): the table lists 1e8 .. 4e9 ideal cycles per kernel and most Exec slices run for seconds - each
    for less than half a period of the 32-bit device counter (TS1..TS5 are written modulo 2^32, as the device does),
    several of them per rank, so that the rank's trace spans several counter periods.
    kernel CHAINS: one to three ranks whose Exec slices follow each other on the device without any idle cycle
    (TS3 of a kernel == TS4 of its predecessor; next to it one-cycle gaps and ordinary gaps), everything on the exact
    grid, so that the end of one slice and the start of the next are the SAME exported timestamp: the closing
    'PT Active' sample of one kernel and the opening sample of the next tie.  Same case format as gen_e2e."""
    from common import scenario
    f = rng.choice([256, 512, 1024, 1024, 2048])
    core = rng.choice(CORES)
    R = rng.choice([1, 1, 1, 2, 3])
    names = rng.sample(scenario.KERNELS, rng.randrange(2, 6))
    if rng.random() < 0.5:
        names = exotic_pool(rng, names)          # names as data: leading '_' / digit / dash, case-only differences
    tabled = [n for n in names if rng.random() < 0.85] or names[:1]
    items = gen_log(rng, edge=False, pool=tabled + rng.sample(KPOOL, rng.randrange(0, 2)), heavy=heavy)
    truth = listed(items)
    files, nsl = {}, 0
    W = scenario.W
    for r in range(R):
        tbase = rng.randrange(1 << 20, 1 << 34) + rng.randrange(1024) / 1024.0
        c0 = rng.randrange(1000, scenario.W // 2)
        c0 -= c0 % f
        H = tbase - c0 // f
        charge = rng.randrange(1 << 20, 1 << 30)
        with_prep = rng.random() < 0.5
        style = rng.random()            # mostly chained / mixed
        p_tie = 0.9 if style < 0.3 else 0.5
        prev4, prev_ex = c0 + rng.randrange(200, 5000), 1 << 20
        evs = []
        for k in range(rng.randrange(2, 9)):
            name = rng.choice(names)
            cyc = truth[0].get(name + " " + CE, 0) if truth else 0
            soc_ideal = (cyc * f) // int(core)          # SoC cycles that last as long as the ideal core cycles
            rr = rng.random()
            if cyc and rr < 0.2:
                ex = soc_ideal                          # 100 % (exactly, when the division is exact)
            elif cyc and rr < 0.35:
                ex = soc_ideal >> rng.randrange(1, 4)   # above 100 %: capped
            elif cyc and rr < 0.65:
                ex = soc_ideal << rng.randrange(1, 5)
            elif heavy and rr < 0.92:
                ex = rng.randrange(W // 40, W * 45 // 100)
            else:
                ex = rng.choice([rng.randrange(4, 400), rng.randrange(400, 90000)])
            ex = max(4, ex)
            if heavy:
                ex = min(ex, W * 45 // 100)             # a slice lasts less than half a counter period
            u = rng.random()
            gap = 0 if (k > 0 and u < p_tie) else (1 if u < p_tie + 0.15 else rng.randrange(2, 50000))
            ts3 = prev4 + gap
            b = rng.randrange(1, max(2, min(40, prev_ex // 2)))
            a = rng.choice([0, rng.randrange(0, max(1, min(40, prev_ex // 4)))])
            ts = [ts3 - b - a, ts3 - b, ts3, ts3 + ex, ts3 + ex + rng.choice([0, rng.randrange(1, 30)])]
            charge = (charge + rng.randrange(1, 4000) * (ts[4] - ts[0]) // 64 + 1) % scenario.W
            for (kw, i, j, tid) in ([("Cmpt Prep", 1, 2, scenario.TID_PREP)] if with_prep else []) + \
                    [(CE, 2, 3, scenario.TID_EXEC)]:
                attr = {"TS" + str(q + 1): (hex(ts[q] % W) if rng.random() < 0.5 else str(ts[q] % W))
                        for q in range(5)}
                attr["Power"] = hex(charge) if rng.random() < 0.5 else str(charge)
                t0, t1 = H + ts[i] / f, H + ts[j] / f
                evs.append((t0, t1, {"name": f"{name} {kw}", "pid": r, "tid": tid, "ts": t0, "attr": attr}))
                nsl += 1
            prev4, prev_ex = ts[3], ex
        evs.sort(key=lambda x: x[0])
        out = []
        if rng.random() < 0.5:
            out.append({"ph": "M", "name": "process_name", "pid": r, "ts": 0, "args": {"name": f"rank{r}"}})
        for (t0, t1, e) in evs:
            if rng.random() < 0.5:
                out += [dict(e, ph="B"), {"name": e["name"], "ph": "E", "pid": e["pid"], "tid": e["tid"], "ts": t1,
                                          "attr": dict(e["attr"])}]
            else:
                out.append(dict(e, ph="X", dur=t1 - t0))
        files[f"rank{r}_job0.json"] = out
    return {"files": files, "freq": float(f), "core": core, "opts": with_profile(rng, rng.choice(CHAIN_OPTS)), "items": items,
            "text": log_text(items), "summary": {"ranks": R, "slices": nsl, "chain": True, "heavy": bool(heavy)}}


def run_e2e(ec, workdir):
    """-> (observed value for the tie | enc.Err, model input case, kernel slices for the oracle, counters)"""
    from common import e2e
    shutil.rmtree(workdir, ignore_errors=True)
    os.makedirs(os.path.join(workdir, "in"))
    paths = []
    for fn, evs in ec["files"].items():
        p = os.path.join(workdir, "in", fn)
        json.dump(evs, open(p, "w"))
        paths.append(p)
    logp = os.path.join(workdir, "compiler.log")
    open(logp, "w").write(ec["text"])
    out = os.path.join(workdir, "out.json")
    argv = ["-i", ",".join(paths), "-o", out, "-c", logp, "--freq", f"{ec['freq']}:{ec['core']}"] + resolve_opts(ec["opts"])
    r = e2e.run_inproc(argv, out, quiet=True)
    gc.collect()
    if not r.ok() or r.events is None:
        return enc.Err((r.exc or ("exit", str(r.rc), ""))[0]), None, None, None
    ks, cnts, mevs = [], [], []
    for e in r.events:
        a = e.get("args", {}) or {}
        if e.get("ph") == "X" and "TS1" in a:
            nm = a.get("orig_name", e["name"])
            if nm.endswith(CE):
                ks.append({"pid": e["pid"], "name": nm, "ts": e["ts"], "dur": e["dur"], "pt": a.get("pt_active"),
                           "core_used": a.get("core used")})
                mevs.append({"ph": "X", "name": nm, "pid": e["pid"], "ts": e["ts"], "dur": e["dur"],
                             "args": {"TS1": "1", "job": 0}})
        elif e.get("ph") == "C" and e.get("name") == "PT Active":
            cnts.append([e["pid"], e["ts"], a.get("Percent"), "dur" in e or "dur" in a])
    csvp = os.path.join(workdir, "out_categories.csv")
    csvv = read_csv(csvp) if os.path.exists(csvp) else None
    obs = [[[k["pid"], k["ts"], k["dur"], k["pt"], k["core_used"]] for k in ks],
           [c[:3] for c in sorted(cnts, key=lambda c: (c[0], c[1], c[2]))], csvv]
    mcase = {"items": ec["items"], "core": ec["core"], "stats": "-t" not in ec["opts"], "events": mevs}
    return obs, mcase, ks, (cnts, csvv)


def oracle_e2e(ec, ks, cnts, csvv):
    truth = listed(ec["items"])
    fails = []
    core = ec["core"]
    want_c = []
    for k in ks:
        pt = expected_pt(truth, core, k["name"], k["dur"])
        got = k["pt"]
        if (pt is None) != (got is None) or (pt is not None and not close(got, pt)) or \
                ((pt is not None) != (k["core_used"] is True)):
            fails.append({"expected": {"pt_active": None if pt is None else float(pt), "kernel": k["name"],
                                       "dur": k["dur"], "core": core},
                          "observed": {"pt_active": got, "core used": k["core_used"]},
                          "signature": {"kind": "pt_active_wrong", "expected_present": pt is not None,
                                        "observed_present": got is not None, "clamped": pt == 1}})
        if pt is not None:
            want_c += [(k["pid"], fr(k["ts"]), 100 * pt), (k["pid"], fr(k["ts"]) + fr(k["dur"]), F(0))]
    have = sorted(((c[0], fr(c[1]), fr(c[2])) for c in cnts))
    want_c.sort()
    okc = len(have) == len(want_c) and all(a[0] == b[0] and a[1] == b[1] and close(a[2], b[2])
                                           for a, b in zip(have, want_c))
    if not okc or any(c[3] for c in cnts):
        fails.append({"expected": [(p, float(t), float(v)) for p, t, v in want_c][:12],
                      "observed": [(p, float(t), float(v)) for p, t, v in have][:12],
                      "signature": {"kind": "counter_wrong", "n_expected": len(want_c) - len(have) if not okc else 0,
                                    "helper_dur_exported": any(c[3] for c in cnts)}})
    fails += oracle_csv([{"pid": k["pid"], "name": k["name"], "dur": k["dur"]} for k in ks], csvv, truth, core)
    fails += oracle_track(ks, cnts, truth, core, ec["opts"])
    return fails


def active_slices(ks, truth, core):
    """pid -> [(start, end, 100 * expected pt_active, name)] of the kernel slices the property gives a counter"""
    by = {}
    for k in ks:
        pt = expected_pt(truth, core, k["name"], k["dur"])
        if pt is not None:
            by.setdefault(k["pid"], []).append((fr(k["ts"]), fr(k["ts"]) + fr(k["dur"]), 100 * pt, k["name"]))
    return by


def count_ties(ks, truth, core):
    """number of kernel slices with a counter that start exactly where another one of the same rank ends"""
    n = 0
    for sl in active_slices(ks, truth, core).values():
        ends = {s[1] for s in sl}
        n += sum(1 for s in sl if s[0] in ends)
    return n


def oracle_track(ks, cnts, truth, core, opts):
    """The exported 'PT Active' samples of a rank read as a COUNTER TRACK, the way a trace viewer draws it: a sample
    holds until the next one, and of several samples with the same timestamp the LAST one in the file is the value
    from then on.  Property: the track shows 100 x pt_active from the start of a kernel listed with non-zero cycles
    and is back at 0 from its end - so at every instant at which a sample or a kernel boundary lies, it must read the
    utilisation of the kernel running then (start <= t < end), 0 when none runs.  Instants inside or at the border of
    kernels that genuinely overlap another counted kernel of the rank are left out (two 'PT Active' pairs interleave
    there and the text does not say what the one track shows)."""
    fails = []
    act = active_slices(ks, truth, core)
    per = {}
    for c in cnts:                                   # export order
        if c[2] is None:
            continue
        per.setdefault(c[0], []).append((fr(c[1]), fr(c[2])))
    allk = {}
    for k in ks:
        allk.setdefault(k["pid"], []).append((fr(k["ts"]), fr(k["ts"]) + fr(k["dur"])))
    stats = "-t" not in opts
    coll_bw = ("coll_bw" in opts) if "-C" in opts else True
    for pid in sorted(set(per) | set(allk), key=str):
        sl = act.get(pid, [])
        taint = [a for a in sl if any(b is not a and a[0] < b[1] and b[0] < a[1] for b in sl)]
        smp = per.get(pid, [])
        points = sorted({t for t, _ in smp} | {x for s in allk.get(pid, []) for x in s})
        for t in points:
            if any(a[0] <= t <= a[1] for a in taint):
                continue
            cover = [a for a in sl if a[0] <= t < a[1]]
            want = cover[0][2] if cover else F(0)
            before = [s for s in smp if s[0] <= t]
            if before:
                last_t = max(s[0] for s in before)
                here = [s for s in before if s[0] == last_t]
                got = here[-1][1]
            else:
                last_t, here, got = None, [], F(0)
            if close(got, want):
                continue
            fails.append({"expected": {"pid": pid, "at": float(t), "track reads": float(want),
                                       "kernel running": cover[0][3] if cover else None,
                                       "kernel interval": [float(cover[0][0]), float(cover[0][1])] if cover else None},
                          "observed": {"track reads": float(got),
                                       "samples at the last sampled instant, in export order":
                                           [[float(a), float(b)] for a, b in here]},
                          "signature": {"kind": "counter_track_wrong", "tie": len(here) > 1,
                                        "reads_zero_while_kernel_runs": bool(cover) and got == 0,
                                        "statistics": stats, "coll_bw": coll_bw}})
            break                                   # one per rank
    return fails


# ---------------------------------------------------------------- corpus
def load_corpus(e2e=False):
    """direct-drive cases (items/core/stats/events) or, e2e=True, end-to-end cases (files/freq/core/opts/items/text)"""
    d = os.path.join(coqrun.VERIF, "corpus", ID)
    out = []
    if os.path.isdir(d):
        for fn in sorted(os.listdir(d)):
            if fn.endswith(".json"):
                c = json.load(open(os.path.join(d, fn)))
                if ("files" in c) != e2e:
                    continue
                c["items"] = [tuple(i) for i in c["items"]]
                c["_file"] = fn
                out.append(c)
    return out


def canon(case):
    return json.dumps({k: case[k] for k in ("items", "core", "stats", "events")}, sort_keys=True, default=str)


# ---------------------------------------------------------------- check
def run(ctx):
    rng = ctx.rng
    work = os.path.join(ctx.work, "w")
    dist = {"direct": {"cases": 0, "edge": 0, "all_zero_table": 0, "stats_off": 0, "events": {}, "rows": {},
                       "pids": {}, "core": {}, "errors": {}, "heavy": 0, "ranks_total_cycles_ge_2^31": 0,
                       "ranks_total_cycles_ge_2^32": 0, "category_rows_cycles_ge_2^31": 0},
            "parser": {"logs": 0}, "e2e": {"scenarios": 0, "options": {}, "ranks": {}, "kernel_slices": 0,
                                           "all_zero_or_empty_table": 0, "aborted": 0}}
    oracle_failures, mism, ties, samples = [], [], [], []
    seen, nontriv = set(), 0
    sigs = set()

    def add_fail(mode, c, f):
        """keep the first failing input of every distinct signature (so that a recorded finding does not crowd out
        a different failure of the same run)"""
        k = json.dumps(f["signature"], sort_keys=True, default=str)
        if k not in sigs and len(oracle_failures) < 10:
            sigs.add(k)
            oracle_failures.append((mode, c, f))

    # ---- direct stream (corpus first)
    cases = load_corpus()
    n_corpus = len(cases)
    for i in range(ctx.pick(420, 5000)):
        az = (i % 25 == 7)
        cases.append(gen_case(rng, edge=(i % 5 == 4), all_zero=az, heavy=(i % 6 == 1)))
    terms = []
    for i, c in enumerate(cases):
        obs = run_impl(c, work)
        terms.append(coq_case(c, obs))
        d = dist["direct"]
        d["cases"] += 1
        d["edge"] += int(i >= n_corpus and (i - n_corpus) % 5 == 4)
        d["stats_off"] += int(not c["stats"])
        tr = listed(c["items"])
        d["all_zero_table"] += int(tr is not None and tr[2] == 0)
        d["heavy"] += int(bool(c.get("heavy")))
        if tr is not None:
            per = {}
            for e in c["events"]:
                if is_kernel_ev(e):
                    kn = resolved_name(e)
                    k2 = (e["pid"], tr[1].get(kn, "other"))
                    per[k2] = per.get(k2, 0) + tr[0].get(kn, 0)
            for p_ in {k2[0] for k2 in per}:
                t_ = sum(v for k2, v in per.items() if k2[0] == p_)
                d["ranks_total_cycles_ge_2^31"] += int(t_ >= 1 << 31)
                d["ranks_total_cycles_ge_2^32"] += int(t_ >= 1 << 32)
            d["category_rows_cycles_ge_2^31"] += sum(1 for v in per.values() if v >= 1 << 31)
        _bump(d["events"], min(len(c["events"]), 12))
        _bump(d["rows"], min(sum(1 for it in c["items"] if it[0] == "row"), 12))
        _bump(d["pids"], len({e["pid"] for e in c["events"]}))
        _bump(d["core"], c["core"])
        if isinstance(obs, enc.Err):
            _bump(d["errors"], obs.tag)
        key = canon(c)
        if key not in seen:
            seen.add(key)
            nontriv += int(nontrivial_case(c))
        for f in oracle_direct(c, obs)[:2]:
            add_fail("direct", c, f)
    bad, extras, secs = coqrun.run_cases(
        "C11_direct", COQ_IMPORTS, RUN_TY, "run_check", terms, shard=40,
        extra="Local Open Scope nat_scope.\nDefinition nt := Eval vm_compute in "
              "(count_if (fun c => nontrivial (fst c)) cases).\nPrint nt.")
    ties.append({"name": "Util.run_val = MultiRCUUtilizationContext + compute_utilization(+fingerprints) + "
                         "calculate_stats counter rule + categories csv (direct drive)",
                 "cases": len(cases), "corpus": n_corpus, "mismatching": len(bad), "coq_seconds": round(secs, 1)})
    for j in bad[:4]:
        parts = None
        try:
            parts = coqrun.eval_terms("C11_diag", COQ_IMPORTS, ["run_diff " + terms[j][0]])[0]
        except Exception:  # noqa: BLE001
            pass
        mism.append({"name": "correspondence Util.run_val vs rcu_utilization/stats (direct drive)",
                     "case": {k: cases[j][k] for k in ("items", "core", "soc", "stats", "events")},
                     "log_text": log_text(cases[j]["items"]),
                     "agreeing_parts[table,events,categories,csv]": parts})
    samples += [{"log": log_text(cases[j]["items"]).split("\n")[:14], "core": cases[j]["core"],
                 "events": cases[j]["events"][:3]} for j in (n_corpus, len(cases) - 1)]

    # ---- parser stream: logs only
    pterms, plogs = [], []
    for i in range(ctx.pick(500, 6000)):
        items = gen_log(rng, edge=(i % 2 == 1), all_zero=(i % 40 == 3))
        core = rng.choice(CORES)
        c = {"items": items, "core": core, "soc": 1024.0, "stats": False, "events": []}
        obs = run_impl(c, work)
        pobs = obs if isinstance(obs, enc.Err) else [obs[0]]
        if isinstance(obs, enc.Err) and obs.tag == "not_single_table":
            pobs = None
        plogs.append(c)
        if pobs is None:
            continue
        pterms.append((enc.P(enc.P(enc.Q(core), enc.L([coq_item(it) for it in items])), enc.V(pobs)), "(VB true)"))
        dist["parser"]["logs"] += 1
    pbad, _, psecs = coqrun.run_cases("C11_parser", COQ_IMPORTS, "((Q * list item) * val)", "parse_check", pterms,
                                      shard=100)
    ties.append({"name": "Util.parse_val = RCUUtilizationContext.extract_tables (table, category map, phase, "
                         "fingerprint total) on generated log text", "cases": len(pterms),
                 "mismatching": len(pbad), "coq_seconds": round(psecs, 1)})
    for j in pbad[:3]:
        mism.append({"name": "correspondence Util.parse_val vs extract_tables", "log_text": log_text(plogs[j]["items"]),
                     "case": {"items": plogs[j]["items"], "core": plogs[j]["core"]}})

    # ---- off-grid stream (supporting; oracle only, no Coq comparison)
    dist["offgrid"] = {"cases": 0, "core": {}}
    for i in range(ctx.pick(120, 2000)):
        c = gen_offgrid(rng)
        obs = run_impl(c, work)
        dist["offgrid"]["cases"] += 1
        _bump(dist["offgrid"]["core"], c["core"])
        for f in oracle_direct(c, obs)[:1]:
            add_fail("direct", c, f)

    # ---- end to end: corpus, the shared scenario generator, kernel chains (exact back-to-back ties)
    eterms, ecases = [], []
    ework = os.path.join(ctx.work, "e2e")
    dist["e2e"].update({"corpus": 0, "chain_scenarios": 0, "slices_opening_where_another_closes": 0})
    n_gen, n_chain = ctx.pick(60, 700), ctx.pick(70, 800)
    for i in range(-1, n_gen + n_chain):
        if i < 0:
            batch = load_corpus(e2e=True)
            for ec in batch:
                ec.setdefault("summary", {"ranks": len(ec["files"]), "chain": True})
            dist["e2e"]["corpus"] = len(batch)
        else:
            batch = [gen_e2e(rng, ework) if i < n_gen else gen_chain(rng, heavy=((i - n_gen) % 5 == 2))]
        for ec in batch:
            obs, mcase, ks, rest = run_e2e(ec, ework)
            d = dist["e2e"]
            d["scenarios"] += 1
            d["chain_scenarios"] += int(bool(ec["summary"].get("chain")))
            d["heavy_chain_scenarios"] = d.get("heavy_chain_scenarios", 0) + int(bool(ec["summary"].get("heavy")))
            _bump(d["options"], " ".join(ec["opts"]) or "(default)")
            _bump(d["ranks"], ec["summary"]["ranks"])
            tr = listed(ec["items"])
            d["all_zero_or_empty_table"] += int(tr is not None and tr[2] == 0)
            if isinstance(obs, enc.Err):
                d["aborted"] += 1
                add_fail("e2e", ec, {"expected": "run completes (exit 0, output written)", "observed": repr(obs),
                                     "signature": {"kind": "run_aborts", "exc": obs.tag}})
                continue
            d["kernel_slices"] += len(ks)
            d["slices_opening_where_another_closes"] += count_ties(ks, tr, ec["core"]) if tr else 0
            ecases.append(ec)
            eterms.append((enc.P(coq_input(mcase), enc.V(obs)), "(VB true)"))
            key = canon(mcase)
            if key not in seen:
                seen.add(key)
                nontriv += int(nontrivial_case(mcase))
            for f in oracle_e2e(ec, ks, rest[0], rest[1])[:3]:
                add_fail("e2e", ec, f)
    ebad, _, esecs = coqrun.run_cases("C11_e2e", COQ_IMPORTS, RUN_TY, "e2e_check", eterms, shard=10)
    ties.append({"name": "Util.e2e_val on the exported kernel slices = pt_active per slice, 'PT Active' counter "
                         "multiset and <out>_categories.csv of the same Acelyzer run (-c log --freq soc:core)",
                 "cases": len(eterms), "mismatching": len(ebad), "coq_seconds": round(esecs, 1)})
    for j in ebad[:3]:
        mism.append({"name": "correspondence Util.e2e_val vs Acelyzer end to end",
                     "case": {k: ecases[j][k] for k in ("freq", "core", "opts", "summary")},
                     "log_text": ecases[j]["text"]})
    shutil.rmtree(ework, ignore_errors=True)

    # ---- failing inputs: shrink the direct ones
    out_fail = []
    for n_f, (mode, c, f) in enumerate(oracle_failures):
        if mode == "direct" and n_f >= 4:
            small = {k: c[k] for k in ("items", "core", "soc", "stats", "events", "offgrid") if k in c}
            out_fail.append(failure_record("direct", small, f))
        elif mode == "direct":
            small = shrink_direct(c, work, f["signature"]["kind"], budget=ctx.pick(25.0, 90.0))
            fs = [g for g in oracle_direct(small, run_impl(small, work))
                  if g["signature"]["kind"] == f["signature"]["kind"]]
            g = fs[0] if fs else f
            small = {k: small[k] for k in ("items", "core", "soc", "stats", "events", "offgrid") if k in small}
            out_fail.append(failure_record("direct", small, g))
        else:
            c, f = shrink_e2e(c, f, work + "e", budget=ctx.pick(8.0, 40.0))
            out_fail.append(failure_record("e2e", {k: c[k] for k in ("files", "freq", "core", "opts", "items",
                                                                      "text")}, f))
    shutil.rmtree(work, ignore_errors=True)
    shutil.rmtree(work + "e", ignore_errors=True)
    n_eval = len(cases) + len(pterms) + len(eterms) + dist["offgrid"]["cases"]
    return {
        "evaluations": n_eval, "distinct_nontrivial": nontriv,
        "rule": "non-trivial = distinct (log classification, core, stats, event list) of the direct and end-to-end "
                "streams in which the kernel slices fall into >= 2 categories of the table and >= 1 slice has a "
                "kernel listed with non-zero cycles (counted in Python from the generator's ground truth; the same "
                f"rule on the model's result, evaluated inside Coq over the direct stream incl. duplicates: "
                f"{extras.get('nt')}); parser-only logs are not counted",
        "samples": samples, "mismatches": mism, "oracle_failures": out_fail, "ties": ties, "distribution": dist,
        "traces_validated_against_impl": n_eval,
    }


def search(ctx, res, broken):
    """something broke but the run's oracle was silent: oracle on a fresh, larger direct stream + some end to end"""
    r = random.Random(ctx.seed + 101)
    work = os.path.join(ctx.work, "s")
    t0 = time.time()
    lim = ctx.pick(90, 600)
    try:
        for i in range(ctx.pick(4000, 50000)):
            if time.time() - t0 > lim:
                break
            c = gen_case(r, edge=(i % 3 == 2), all_zero=(i % 20 == 5), heavy=(i % 4 == 1))
            fs = oracle_direct(c, run_impl(c, work))
            if fs:
                small = shrink_direct(c, work, fs[0]["signature"]["kind"], budget=30.0)
                gs = [g for g in oracle_direct(small, run_impl(small, work))
                      if g["signature"]["kind"] == fs[0]["signature"]["kind"]]
                small = {k: small[k] for k in ("items", "core", "soc", "stats", "events")}
                return [failure_record("direct", small, gs[0] if gs else fs[0])]
            if i % 40 == 0:
                ec = gen_e2e(r, work + "e") if i % 80 == 0 else gen_chain(r, heavy=(i % 160 == 40))
                obs, mcase, ks, rest = run_e2e(ec, work + "e")
                if isinstance(obs, enc.Err):
                    fs = [{"expected": "run completes", "observed": repr(obs),
                           "signature": {"kind": "run_aborts", "exc": obs.tag}}]
                else:
                    fs = oracle_e2e(ec, ks, rest[0], rest[1])
                if fs:
                    return [failure_record("e2e", {k: ec[k] for k in ("files", "freq", "core", "opts", "items",
                                                                      "text")}, fs[0])]
    finally:
        shutil.rmtree(work, ignore_errors=True)
        shutil.rmtree(work + "e", ignore_errors=True)
    return []


def replay(ctx, payload):
    f = payload.get("failing")
    if not f:
        return True, "replay file names only broken obligations: " + str(payload.get("broken"))[:500]
    inp = f["input"]
    work = os.path.join(ctx.work, "r")
    try:
        c = inp["case"]
        c["items"] = [tuple(i) for i in c["items"]]
        if inp["mode"] == "direct":
            obs = run_impl(c, work)
            fs = oracle_direct(c, obs)
        else:
            obs, mcase, ks, rest = run_e2e(c, work)
            if isinstance(obs, enc.Err):
                fs = [{"expected": "run completes", "observed": repr(obs),
                       "signature": {"kind": "run_aborts", "exc": obs.tag}}]
            else:
                fs = oracle_e2e(c, ks, rest[0], rest[1])
        return (not fs), {"failures": [{"expected": g["expected"], "observed": g["observed"],
                                        "signature": g["signature"]} for g in fs[:3]],
                          "observed": str(obs)[:1500]}
    finally:
        shutil.rmtree(work, ignore_errors=True)
