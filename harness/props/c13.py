"""C13 — ConcurrentPreps counter equals the number of in-flight Prep slices.

Ties (model evaluated by vm_compute inside coqc, implementation = the real code of $AIU_REPO):
  stage   PrepQueue.run_val  vs  the real queueing_counter + QueueingCounterContext (fresh context, every
          event through the callback, then drain()), in BOTH modes of the context: sorted_input=True (default
          constructor; what the default pipeline registers) and sorted_input=False ("hold" mode; what acelyzer
          registers under -M): exhaustive start-sorted families of Prep intervals on a small integer grid x
          keep_prep (default mode), exhaustive ANY-order families (hold mode), random mixed multi-pid streams
          in both modes, unsorted streams (in the property's domain in hold mode, tie-only in the default mode),
          streams that make the stage raise (missing dur, unknown job), corpus.
  uq      PrepQueue.uq_val   vs  QueueingCounterContext.update_queues on arbitrary stored lists, both modes.
  names   PrepQueue.name_val vs  PipelineContextTool.is_category(ev, "acc_compute_prep") on adversarial names,
          and the dialect entries themselves.
  e2e     PrepQueue.run_val  vs  the stream that enters / leaves the queueing_counter stage inside a real
          Acelyzer run (recorded by a wrapper with the same __name__), with and without --keep_prep, with and
          without -M (rank files are shuffled; the model is evaluated in the mode the options call for:
          -M -> hold, otherwise default - not in the mode the run happened to construct).
Oracle (independent, brute force): per pid, on what the stage emits and on the final <output>.json:
  sample times strictly increasing, every sample value = #{Prep slices with start <= t < end}, a sample at every
  instant where that number changes, series ends at 0, no samples without Prep slices; Prep slices absent from
  the output iff not keep_prep, every other event passed through unchanged, once, in order.
Empty Prep intervals (dur <= 0: never in flight) are an ordinary part of every stream: since the fix of the
zero-duration defect found by this check, create_counter ignores them (C13_empty_interval_ignored).
-M / --no_mp_sync runs are an ordinary part of the domain since the fix of the second defect found by this check
(58e7814: without the sort in front of it the stage must not hand samples out early): C13_counter_correct_any_order.
"""
import contextlib
import copy
import io
import itertools
import json
import os
import random
import re
import shutil
import subprocess
import sys
import time
from fractions import Fraction

from common import coqrun, enc

ID = "C13"
PROP_FILE = "props/C13.v"
THEOREMS = ["C13_counter_correct", "C13_counter_correct_any_order", "C13_hold_callbacks_silent",
            "C13_prep_removed_iff_not_keep", "C13_queue_step_denotation",
            "C13_sorted_by_ts_suffices", "C13_empty_interval_ignored"]
ALLOWED_AXIOMS = []
TRUSTED = [
    "modelled, not verified: Python dict insertion order / popitem (LIFO), list.sort stability in "
    "MpSyncTightContext.drain, re.search for the one pattern 'Cmpt Prep$', float arithmetic (the tie uses "
    "timestamps on the exact grid: multiples of 2^-10 us, SoC frequency 1024 MHz)",
    "the recording wrapper around queueing_counter / QueueingCounterContext.drain used by the end-to-end tie "
    "(same __name__, calls the real function looked up at call time)",
]
ASSUMPTIONS = [
    "default pipeline (no -M): per pid, Prep slices reach queueing_counter in non-decreasing order of ts (delivered "
    "by MpSyncTightContext.drain's sort; checked on every end-to-end run without -M by the oracle). Under "
    "-M/--no_mp_sync that stage is absent, acelyzer builds the context with sorted_input=False (hold mode: nothing is "
    "emitted before drain) and C13_counter_correct_any_order applies: no hypothesis on the arrival order. A custom -P "
    "profile that switches mp_sync_tight_v1 off WITHOUT -M stays outside the property's domain (the stage would run "
    "in the default mode on unsorted input)",
    "the prep_queue counter is enabled (default -C list) and the event's job is known to GlobalIngestData",
]
MANIFEST = {
    "text": "Proof. Coq theorems over an executable model of QueueingCounterContext.update_queues/create_counter/"
            "drain and queueing_counter (per-pid breakpoint lists, keep_prep), for arbitrary event streams of any "
            "length over any number of pids (no bound), in both modes of the context (sorted_input): default mode - if "
            "per pid the Prep slices arrive start-sorted (no "
            "hypothesis on durations: a slice with end <= start counts nowhere and, by create_counter's guard, "
            "leaves no trace), then per pid the emitted samples have strictly increasing times, each value equals "
            "#{start <= t < end}, the denoted step function equals that number at EVERY time, every start and end "
            "is a sample time, the series ends at 0, pids without Prep get no sample (C13_counter_correct); hold mode "
            "(sorted_input=False, what acelyzer registers under -M) - the same conclusions for ANY arrival order, no "
            "sortedness hypothesis (C13_counter_correct_any_order), and the callbacks emit no sample "
            "(C13_hold_callbacks_silent); in both modes the "
            "events passed through are exactly the input minus Prep slices unless keep_prep "
            "(C13_prep_removed_iff_not_keep). The model is tied to the code on every run by correspondence: the "
            "real stage in default mode on all start-sorted families of <= 4 intervals on the integer grid 0..6 "
            "(thorough: <= 5 on 0..6 and <= 4 on 0..7, plus two-rank merges) x keep_prep, in hold mode on ALL "
            "sequences in any order of <= 3 intervals on 0..5 and <= 4 on 0..3 (thorough: <= 4 on 0..5, <= 5 on 0..3), "
            "random multi-pid streams sorted and unsorted in both modes, streams that raise, update_queues on "
            "arbitrary lists in both modes, the Prep name test, and the stage as it runs inside real "
            "Acelyzer runs with/without --keep_prep and with/without -M on shuffled rank files (stage input/output "
            "recorded in the run; the model runs in the mode the options call for); an independent "
            "brute-force oracle checks the property on the stage output (also on an off-grid decimal stream; unsorted "
            "streams are in-domain in hold mode) and on the exported JSON of in-process and command-line runs, -M "
            "runs included.",
    "note": "Trusted: Coq kernel + vm_compute; hand-written model PrepQueue.v tied by differential testing only; "
            "floats on the exact grid. The check found that a Prep slice with dur = 0 broke the property (two samples "
            "at one time, exported series ending at 1); fixed in /repo (create_counter ignores end <= start), the "
            "model follows the fixed code and seeded/revert_fix_C13c re-introduces the defect. It then found that under -M "
            "(no sort in front of the stage) a later-listed Prep that starts earlier was miscounted; fixed in /repo "
            "(58e7814: sorted_input=False holds all samples until drain), the model has the mode, the any-order theorem "
            "covers it and seeded/revert_fix_C13m re-introduces the defect. Print Assumptions: "
            "closed under the global context.",
    "technique": "Coq proof (invariant over the streaming breakpoint list, induction over the event stream) + "
                 "vm_compute correspondence against the real stage and real end-to-end runs + brute-force oracle",
    "design_ref": "DESIGN.md section 4/C13, design-spikes/prepqueue_den.v (absorbed)",
}

REPO = coqrun.REPO
PY = "/venv/bin/python"
IMPORTS = "From AiuModel Require Import PrepQueue."
CORPUS = os.path.join(coqrun.VERIF, "corpus", "C13")
CNT_NAME, CNT_CAT = "ConcurrentPreps", "Pending Prep Events"
J_FLEX, J_TORCH, J_NOARGS, J_NOHASH, J_UNKNOWN, J_NODIALECT = range(6)
UNKNOWN_HASH = -7
FREQ = 1024.0


@contextlib.contextmanager
def quiet():
    so, se = io.StringIO(), io.StringIO()
    with contextlib.redirect_stdout(so), contextlib.redirect_stderr(se):
        yield


# ================================================================ implementation drivers
_jobs = {}


def setup_jobs():
    """fresh job map with one FLEX, one TORCH and one dialect-less job (what ingestion would register)"""
    from aiu_trace_analyzer.types import GlobalIngestData, InputDialectFLEX, InputDialectTORCH
    GlobalIngestData()
    GlobalIngestData._jobmap.clear()
    want = [(J_FLEX, InputDialectFLEX()), (J_TORCH, InputDialectTORCH()), (J_NODIALECT, None)]
    for code, dia in want:
        k = 0
        while True:
            h = GlobalIngestData.add_job_info(f"/c13/job_{code}_{k}.json", dia)
            if GlobalIngestData._jobmap[h][1] is dia and h not in [v for c, v in _jobs.items() if c != code]:
                break
            k += 1
        _jobs[code] = h
    assert UNKNOWN_HASH not in GlobalIngestData._jobmap
    return dict(_jobs)


def ensure_jobs():
    """end-to-end runs start from an empty job map (like a fresh process); re-register the stage-level jobs"""
    from aiu_trace_analyzer.types import GlobalIngestData
    GlobalIngestData()
    jm = GlobalIngestData._jobmap
    if len(_jobs) != 3 or any(h not in jm for h in _jobs.values()):
        setup_jobs()


def mk_event(spec, uid):
    e = {"ph": spec["ph"], "name": spec["name"], "pid": spec["pid"], "ts": spec["ts"], "tid": spec.get("tid", 1)}
    if spec.get("dur") is not None:
        e["dur"] = spec["dur"]
    j = spec.get("job", J_FLEX)
    if j == J_NOARGS:
        pass
    elif j == J_NOHASH:
        e["args"] = {"uid": uid}
    elif j == J_UNKNOWN:
        e["args"] = {"uid": uid, "jobhash": UNKNOWN_HASH}
    else:
        e["args"] = {"uid": uid, "jobhash": _jobs[j]}
    return e


def canon_out(o, ids, snaps):
    """one emitted event -> list encodable as Base.val, mirroring PrepQueue.out_val"""
    i = ids.get(id(o))
    if i is not None:
        return ["P", i] if o == snaps[i] else ["P-modified", i]
    if isinstance(o, dict) and o.get("ph") == "C":
        r = ["C", o.get("name"), o.get("cat"), o.get("pid"), o.get("ts"),
             (o.get("args") or {}).get("Concurrency") if isinstance(o.get("args"), dict) else None]
        extra = sorted(set(o) - {"ph", "name", "cat", "pid", "ts", "args"})
        if isinstance(o.get("args"), dict):
            extra += sorted("args." + k for k in set(o["args"]) - {"Concurrency"})
        if extra:
            r.append(extra)
        return r
    return ["?", repr(o)[:80]]


def new_ctx(si):
    """si=True: the default constructor (must mean sorted input); si=False: hold mode, as acelyzer asks for under -M"""
    import aiu_trace_analyzer.pipeline.cmpt_collection as cc
    return cc.QueueingCounterContext() if si else cc.QueueingCounterContext(sorted_input=False)


def spec_loglevel(spec):
    """the log level (-D 0..4) in force while a stream is driven: a fixed function of the stream, so that a replay uses
    the same one.  The level changes what is printed (swallowed here), never what the stage returns."""
    return (len(spec) + sum(int(x["ts"]) for x in spec if isinstance(x.get("ts"), (int, float))
                            and abs(x["ts"]) < 1e15)) % 5


@contextlib.contextmanager
def at_loglevel(ll):
    import aiu_trace_analyzer.logger as aiulog
    old = aiulog.loglevel
    aiulog.loglevel = ll
    try:
        yield
    finally:
        aiulog.loglevel = old


def run_stage_impl(si, keep, spec):
    """the real queueing_counter on a fresh QueueingCounterContext: [[outputs per event], drain outputs]"""
    import aiu_trace_analyzer.pipeline.cmpt_collection as cc
    ensure_jobs()
    evs = [mk_event(s, i) for i, s in enumerate(spec)]
    snaps = [copy.deepcopy(e) for e in evs]
    ids = {id(e): i for i, e in enumerate(evs)}
    try:
        with quiet(), at_loglevel(spec_loglevel(spec)):
            ctx = new_ctx(si)
            per = []
            for e in evs:
                outs = cc.queueing_counter(e, ctx, {"keep_prep": keep})
                per.append([canon_out(o, ids, snaps) for o in outs])
            dr = [canon_out(o, ids, snaps) for o in ctx.drain()]
    except Exception as ex:  # noqa: BLE001
        return enc.Err(type(ex).__name__)
    return [per, dr]


def run_uq_impl(si, s, e, q):
    try:
        with quiet(), at_loglevel((len(q) + int(s)) % 5):
            ctx = new_ctx(si)
            ctx.queues[0] = [tuple(x) for x in q]
            rd, nq = ctx.update_queues(s, e, 0)
        return [[list(x) for x in rd], [list(x) for x in nq]]
    except Exception as ex:  # noqa: BLE001
        return enc.Err(type(ex).__name__)


def run_name_impl(name, job):
    from aiu_trace_analyzer.pipeline.tools import PipelineContextTool
    ensure_jobs()
    try:
        with quiet():
            return bool(PipelineContextTool.is_category({"ph": "X", "name": name, "args": {"jobhash": _jobs[job]}},
                                                        "acc_compute_prep"))
    except Exception as ex:  # noqa: BLE001
        return enc.Err(type(ex).__name__)


# ---------------------------------------------------------------- end to end
def dev_event(name, pid, s, e, tid, phase, k=0):
    """a FLEX device slice whose final interval (after cycle conversion + tightening) is exactly [s, e):
    host end = e and the phase's cycle delta = (e - s) * FREQ.  The host start is free; it is made distinct
    per file (index k) because normalize's frequency statistics divide by the host-start gap of consecutive
    device events (not C13's business)"""
    cyc = int(round((e - s) * FREQ))
    base = int(round(s * FREQ)) % (1 << 31) + 4096
    if phase == "prep":          # TS2 -> TS3
        ts1, ts2 = base - 64, base
        ts3 = ts2 + cyc
        ts4, ts5 = ts3 + 32, ts3 + 48
        nm = name + " Cmpt Prep"
    elif phase == "exec":        # TS3 -> TS4
        ts1, ts2, ts3 = base - 64, base - 32, base
        ts4 = ts3 + cyc
        ts5 = ts4 + 16
        nm = name + " Cmpt Exec"
    else:
        raise ValueError(phase)
    lead = 8.0 + k / 64.0
    return {"ph": "X", "name": nm, "pid": pid, "tid": tid, "ts": s - lead, "dur": (e - s) + lead,
            "args": {"TS1": str(ts1), "TS2": str(ts2), "TS3": str(ts3), "TS4": str(ts4), "TS5": str(ts5),
                     "Power": "0x100"}}


def scenario_files(sc, d):
    files = []
    for r, evs in enumerate(sc["ranks"]):
        out = []
        for i, x in enumerate(evs):
            if x["kind"] == "host":
                out.append({"ph": "X", "name": x["name"], "pid": r, "tid": x.get("tid", 7),
                            "ts": float(x["s"]), "dur": float(x["e"]) - float(x["s"])})
            else:
                out.append(dev_event(x["name"], r, float(x["s"]), float(x["e"]), x.get("tid", 1), x["kind"], i))
        fn = os.path.join(d, f"c13rank{r}.json")
        with open(fn, "w") as f:
            json.dump(out, f)
        files.append(fn)
    return files


def run_e2e_impl(sc, keep, work):
    """real Acelyzer run, in process.  Returns dict(err, stage_in(spec list), stage_out(canonical), export)"""
    import aiu_trace_analyzer.pipeline as event_pipe
    import aiu_trace_analyzer.pipeline.cmpt_collection as cc
    from aiu_trace_analyzer.core.acelyzer import Acelyzer
    from aiu_trace_analyzer.types import GlobalIngestData
    d = os.path.join(work, "e2e")
    shutil.rmtree(d, ignore_errors=True)
    os.makedirs(d)
    files = scenario_files(sc, d)
    outp = os.path.join(d, "out.json")
    rec = {"in": [], "objs": [], "per": [], "drain": None, "keyval": None}
    real_cls = cc.QueueingCounterContext

    def queueing_counter(event, ctx, keyval):
        rec["in"].append(copy.deepcopy(event))
        rec["objs"].append(event)
        rec["keyval"] = dict(keyval)
        outs = cc.queueing_counter(event, ctx, keyval)
        rec["per"].append(list(outs))
        return outs

    class RecCtx(real_cls):
        def drain(self):
            r = super().drain()
            rec["drain"] = list(r)
            return r
    old = (event_pipe.queueing_counter, event_pipe.QueueingCounterContext)
    err = None
    GlobalIngestData()
    GlobalIngestData._jobmap.clear()
    try:
        event_pipe.queueing_counter = queueing_counter
        event_pipe.QueueingCounterContext = RecCtx
        with quiet():
            argv = (["-i", ",".join(files), "-o", outp, "--freq", str(int(FREQ)), "-D", str(sc.get("dlevel", 1))]
                    + (["--keep_prep"] if keep else [])
                    + list(sc.get("opts", [])))
            rc = Acelyzer(argv).run()
        if rc != 0:
            err = f"rc={rc}"
    except BaseException as ex:  # noqa: BLE001  (sys.exit inside the tool included)
        if isinstance(ex, KeyboardInterrupt):
            raise
        err = type(ex).__name__ + ": " + str(ex)[:200]
    finally:
        event_pipe.queueing_counter, event_pipe.QueueingCounterContext = old
    export = None
    if err is None:
        try:
            export = [e for e in json.load(open(outp))["traceEvents"]]
        except Exception as ex:  # noqa: BLE001
            err = "output unreadable: " + type(ex).__name__
    # canonical view of the stage's life inside the run
    known = set(GlobalIngestData._jobmap)
    spec = []
    for e in rec["in"]:
        a = e.get("args")
        if not isinstance(a, dict):
            j = J_NOARGS
        elif "jobhash" not in a:
            j = J_NOHASH
        elif a["jobhash"] in known:
            j = J_FLEX
        else:
            j = J_UNKNOWN
        spec.append({"ph": e.get("ph"), "name": e.get("name"), "pid": e.get("pid"), "ts": e.get("ts"),
                     "dur": e.get("dur"), "job": j})
    ids = {id(o): i for i, o in enumerate(rec["objs"])}
    # the stage may not modify the event it passes on (later stages may, so compare only identity here)
    per = [[(["P", ids[id(o)]] if id(o) in ids else canon_out(o, {}, [])) for o in outs] for outs in rec["per"]]
    dr = None if rec["drain"] is None else [canon_out(o, {}, []) for o in rec["drain"]]
    return {"err": err, "stage_in": spec, "stage_out": None if dr is None else [per, dr], "export": export,
            "keyval": rec["keyval"], "stage_called": len(rec["in"])}


def run_cli(sc, keep, work):
    """the real command line (subprocess): returns (rc, export or None)"""
    d = os.path.join(work, "cli")
    shutil.rmtree(d, ignore_errors=True)
    os.makedirs(d)
    files = scenario_files(sc, d)
    outp = os.path.join(d, "out.json")
    env = dict(os.environ, PYTHONPATH=os.path.join(REPO, "src"), PYTHONHASHSEED="0")
    r = subprocess.run([PY, "-m", "acelyzer.acelyzer", "-i", ",".join(files), "-o", outp, "--freq", str(int(FREQ)),
                        "-D", str(sc.get("dlevel", 1))]
                       + (["--keep_prep"] if keep else []) + list(sc.get("opts", [])), cwd=d, env=env,
                       stdout=subprocess.PIPE,
                       stderr=subprocess.STDOUT, text=True, timeout=120)
    try:
        return r.returncode, json.load(open(outp))["traceEvents"]
    except Exception:  # noqa: BLE001
        return r.returncode, None


# ================================================================ oracle (independent statement of C13)
def fr(x):
    return Fraction(x)


def spec_is_prep(s):
    """what the README / dialect call a Prep slice: a complete slice of a known job whose name ends in
    'Cmpt Prep'"""
    return s["ph"] == "X" and s.get("job", J_FLEX) in (J_FLEX, J_TORCH) and isinstance(s["name"], str) \
        and re.search(r"Cmpt Prep$", s["name"]) is not None


def count_at(ivs, t):
    return sum(1 for s, e in ivs if s <= t < e)


def check_series(ivs, samples):
    """ivs: [(s, e)] of one pid; samples: [(t, c)] in emission/file order.  Returns list of (kind, facts)."""
    ivs = [(fr(s), fr(e)) for s, e in ivs]
    bad = []
    try:
        sm = [(fr(t), c) for t, c in samples]
    except (TypeError, ValueError):
        return [("malformed_sample", {"samples": repr(samples)[:200]})]
    for (t0, _), (t1, _) in zip(sm, sm[1:]):
        if not t0 < t1:
            bad.append(("sample_times_not_strictly_increasing", {"t_prev": float(t0), "t": float(t1)}))
            break
    for t, c in sm:
        n = count_at(ivs, t)
        if c != n or isinstance(c, bool) or not isinstance(c, int):
            bad.append(("wrong_count", {"t": float(t), "observed": c, "expected": n}))
            break
    pts = sorted({p for iv in ivs for p in iv})
    times = {t for t, _ in sm}
    prev_pt = None
    for p in pts:
        before = 0 if prev_pt is None else count_at(ivs, (prev_pt + p) / 2)
        if count_at(ivs, p) != before and p not in times:
            bad.append(("missing_sample_at_change", {"t": float(p), "before": before, "after": count_at(ivs, p)}))
            break
        prev_pt = p
    if any(s < e for s, e in ivs) and (not sm or sm[-1][1] != 0):
        bad.append(("series_does_not_end_at_0", {"last": None if not sm else [float(sm[-1][0]), sm[-1][1]]}))
    if not any(s < e for s, e in ivs) and sm:
        bad.append(("samples_without_prep", {"n": len(sm)}))
    return bad


def in_domain(si, spec):
    """hypotheses of the property: no event that makes the stage raise and, in the default mode only (si), per pid
    Prep starts non-decreasing; in hold mode any arrival order is in the domain
    (durations are free: a slice with end <= start is simply never in flight)"""
    last = {}
    for s in spec:
        if s["ph"] in ("", "X") and s.get("job", J_FLEX) == J_UNKNOWN:
            return False
        if s["ph"] == "":
            return False
        if spec_is_prep(s):
            if s.get("dur") is None:
                return False
            if si and s["pid"] in last and s["ts"] < last[s["pid"]]:
                return False
            last[s["pid"]] = s["ts"]
    return True


def oracle_stage(keep, spec, out):
    """property on what the stage emitted (callbacks then drain).  -> list of (kind, facts)"""
    if isinstance(out, enc.Err):
        return [("stage_raises", {"exception": out.tag})]
    flat = [o for per in out[0] for o in per] + list(out[1])
    bad = []
    passed = [o[1] for o in flat if o[0] == "P"]
    expect = [i for i, s in enumerate(spec) if keep or not spec_is_prep(s)]
    if any(o[0] not in ("P", "C") for o in flat):
        bad.append(("unexpected_output_event", {"events": [o for o in flat if o[0] not in ("P", "C")][:3]}))
    if passed != expect:
        lost = [i for i in expect if i not in passed]
        extra = [i for i in passed if i not in expect]
        kind = "prep_slice_not_removed" if (extra and not keep) else \
               "prep_slice_missing_with_keep_prep" if (keep and any(spec_is_prep(spec[i]) for i in lost)) else \
               "event_lost_duplicated_or_reordered"
        bad.append((kind, {"lost": lost[:5], "extra": extra[:5]}))
    for o in flat:
        if o[0] == "C" and (o[1] != CNT_NAME or len(o) != 6):
            bad.append(("counter_event_malformed", {"event": o}))
            break
    pids = sorted({s["pid"] for s in spec} | {o[3] for o in flat if o[0] == "C"}, key=repr)
    for p in pids:
        ivs = [(s["ts"], s["ts"] + s["dur"]) for s in spec if spec_is_prep(s) and s["pid"] == p]
        sm = [(o[4], o[5]) for o in flat if o[0] == "C" and o[3] == p]
        for kind, facts in check_series(ivs, sm):
            bad.append((kind, dict(facts, pid=p)))
    return bad


def export_views(export):
    """per pid: Prep slices and ConcurrentPreps samples of an exported traceEvents list, in file order"""
    preps, samples = {}, {}
    for e in export:
        if e.get("ph") == "X" and isinstance(e.get("name"), str) and re.search(r"Cmpt Prep$", e["name"]):
            preps.setdefault(e.get("pid"), []).append((e.get("ts"), e.get("ts") + e.get("dur")))
        if e.get("ph") == "C" and e.get("name") == CNT_NAME:
            samples.setdefault(e.get("pid"), []).append((e.get("ts"), (e.get("args") or {}).get("Concurrency")))
    return preps, samples


def oracle_export(sc, keep, export):
    bad = []
    preps, samples = export_views(export)
    for r, evs in enumerate(sc["ranks"]):
        want = sorted((float(x["s"]), float(x["e"])) for x in evs if x["kind"] == "prep")
        got = sorted(preps.get(r, []))
        if keep and got != want:
            bad.append(("prep_slice_missing_with_keep_prep" if len(got) < len(want) else "prep_slices_differ",
                        {"pid": r, "expected": want[:6], "observed": got[:6]}))
        if not keep and got:
            bad.append(("prep_slice_not_removed", {"pid": r, "observed": got[:6]}))
        for kind, facts in check_series(want, samples.get(r, [])):
            bad.append((kind, dict(facts, pid=r)))
    for p in samples:
        if not (isinstance(p, int) and 0 <= p < len(sc["ranks"])):
            bad.append(("samples_without_prep", {"pid": p, "n": len(samples[p])}))
    return bad


def oracle_e2e(sc, keep, res):
    """-> list of (kind, facts) for one end-to-end run"""
    if res["err"]:
        return [("e2e_run_fails", {"error": res["err"]})]
    # the property on the exported file first, then diagnoses / hypotheses of the theorems
    bad = oracle_export(sc, keep, res["export"])
    if res["keyval"] is not None and bool(res["keyval"].get("keep_prep", False)) != keep:
        bad.append(("keep_prep_not_forwarded", {"keyval": res["keyval"]}))
    n_prep = sum(1 for evs in sc["ranks"] for x in evs if x["kind"] == "prep")
    if n_prep and not res["stage_called"]:
        bad.append(("queueing_counter_stage_not_run", {}))
    # hypothesis of the theorems for the default pipeline: per pid, Prep slices reach the stage start-sorted (with
    # -M no stage sorts before this one and the theorems for that mode have no such hypothesis)
    last = {}
    for s in ([] if "-M" in sc.get("opts", []) else res["stage_in"]):
        if spec_is_prep(s):
            if s["pid"] in last and s["ts"] < last[s["pid"]]:
                bad.append(("stage_input_not_start_sorted", {"pid": s["pid"], "ts": s["ts"], "prev": last[s["pid"]]}))
                break
            last[s["pid"]] = s["ts"]
    return bad


def fail_rec(level, inp, bad, expected, observed):
    kind, facts = bad[0]
    sig = {"kind": kind, "level": level}
    sig.update({k: v for k, v in facts.items() if k in ("exception", "pid")})
    return {"input": dict(inp, level=level), "expected": expected, "observed": observed,
            "signature": sig, "all_symptoms": [k for k, _ in bad]}


# ================================================================ generators
def P(pid, s, e, name="k Cmpt Prep", job=J_FLEX):
    return {"ph": "X", "name": name, "pid": pid, "ts": float(s), "dur": float(e) - float(s), "job": job}


def families(G, N, empties=False):
    """all start-sorted sequences (every order among equal starts) of <= N intervals [a, b) on 0..G;
    empties=True adds the empty intervals [a, a)"""
    ivs = [(a, b) for a in range(G + 1) for b in range(a if empties else a + 1, G + 1)]
    out = [[]]

    def rec(prefix, n):
        for iv in ivs:
            if prefix and iv[0] < prefix[-1][0]:
                continue
            cur = prefix + [iv]
            out.append(cur)
            if n > 1:
                rec(cur, n - 1)
    rec([], N)
    return out


def any_order(G, N, empties=False):
    """ALL sequences (no order constraint) of 1..N intervals [a, b) on 0..G; empties=True adds [a, a)"""
    ivs = [(a, b) for a in range(G + 1) for b in range(a if empties else a + 1, G + 1)]
    out = []
    for n in range(1, N + 1):
        out.extend(list(x) for x in itertools.product(ivs, repeat=n))
    return out


NAMES_PREP = ["k Cmpt Prep", "Cmpt Prep", "conv_2-1 Cmpt Prep", "a b Cmpt Prep", "xCmpt Prep"]
NAMES_OTHER = ["k Cmpt Exec", "k DmaI", "k DmaO", "hostfn", "k Cmpt Prep ", "k Cmpt Prepx", "k cmpt prep",
               "Cmpt Prep k", "k Cmpt  Prep", "Prep", "", "k Cmpt Prep$", "k Cmpt Pre"]
NAMES_TIE = NAMES_PREP + NAMES_OTHER + ["k Cmpt Prep\n", "k Cmpt Prep\n\n", "k Cmpt Prep\nx", "\nCmpt Prep",
                                        "Cmpt Prep Cmpt Prep", "Cmpt PrepCmpt Prep", "CmptPrep", "k Cmpt Prep.",
                                        "k Cmpt_Prep", "Cmpt Pre", "mpt Prep", "k Cmpt prep", "K CMPT PREP"]
PHASES = ["C", "M", "i", "b", "e", "s", "f", "B", "E", "x", "XX"]


def gen_stream(r, domain=True, zero=False, malformed=False):
    """random multi-pid stream.  domain=True: globally ts-sorted, dur > 0 for Prep slices"""
    npid = r.choice([1, 1, 2, 2, 3])
    pids = r.sample([0, 1, 2, 5, 17, 1000], npid)
    grid = r.choice([1, 1, 4, 1024])
    tmax = r.choice([6, 8, 12, 30])
    n = r.randint(1, 14)
    evs = []
    for _ in range(n):
        pid = r.choice(pids)
        s = Fraction(r.randint(0, tmax * grid), grid)
        k = r.random()
        if k < 0.62:
            d = Fraction(r.randint(1, max(1, tmax * grid // 2)), grid)
            if zero and r.random() < 0.35:
                d = Fraction(0)
            evs.append(P(pid, s, s + d, name=r.choice(NAMES_PREP), job=r.choice([J_FLEX] * 4 + [J_TORCH])))
        elif k < 0.82:
            d = Fraction(r.randint(0, tmax * grid // 2), grid)
            evs.append(P(pid, s, s + d, name=r.choice(NAMES_OTHER), job=r.choice([J_FLEX] * 3 + [J_NOARGS, J_NOHASH,
                                                                                                 J_NODIALECT])))
        elif k < 0.90:
            # a Prep-named slice the classifier cannot see as Prep (no args / no jobhash / no dialect)
            d = Fraction(r.randint(1, tmax * grid // 2), grid)
            evs.append(P(pid, s, s + d, job=r.choice([J_NOARGS, J_NOHASH, J_NODIALECT])))
        else:
            e = {"ph": r.choice(PHASES), "name": r.choice(NAMES_PREP + NAMES_OTHER), "pid": pid, "ts": float(s),
                 "dur": None, "job": r.choice([J_FLEX, J_NOARGS])}
            if r.random() < 0.3:
                e["dur"] = 1.0
            evs.append(e)
    if domain:
        evs.sort(key=lambda x: x["ts"])
        if r.random() < 0.5:           # MpSync hands equal-ts events over in reverse arrival order: any tie order
            evs.sort(key=lambda x: (x["ts"], r.random()))
    if malformed:
        k = r.randrange(len(evs))
        m = r.choice(["nodur", "unknown", "emptyph", "negdur"])
        if m == "nodur":
            evs[k] = dict(P(evs[k]["pid"], evs[k]["ts"], evs[k]["ts"] + 1), dur=None)
        elif m == "unknown":
            evs[k] = dict(evs[k], ph="X", job=J_UNKNOWN)
        elif m == "emptyph":
            evs[k] = dict(evs[k], ph="")
        else:
            evs[k] = dict(P(evs[k]["pid"], evs[k]["ts"], evs[k]["ts"] + 1), dur=-1.0)
    return evs


def gen_uq(r):
    grid = r.choice([1, 1, 2])
    tmax = 8
    s = Fraction(r.randint(0, tmax * grid), grid)
    e = s + Fraction(r.randint(0, 4 * grid), grid) if r.random() < 0.9 else s - Fraction(r.randint(0, 2), grid)
    n = r.randint(0, 6)
    if r.random() < 0.7:      # a reachable shape: strictly increasing times, counts >= 0 ending at 0
        ts = sorted(r.sample(range(0, tmax * grid + 1), min(n, tmax * grid + 1)))
        q = [(float(Fraction(t, grid)), r.randint(0, 3)) for t in ts]
        if q:
            q[-1] = (q[-1][0], 0)
    else:                     # anything
        q = [(float(Fraction(r.randint(0, tmax * grid), grid)), r.randint(-1, 3)) for _ in range(n)]
    return float(s), float(e), q


def gen_scenario(r, small=False):
    """end-to-end scenario: per rank a set of device/host slices with exact final intervals"""
    nr = r.choice([1, 1, 2, 3]) if not small else r.choice([1, 2])
    grid = r.choice([1, 1, 4])
    base = 1000
    ranks = []
    for _ in range(nr):
        evs = []
        n = r.randint(0, 7) if not small else r.randint(1, 4)
        tmax = r.choice([6, 10, 20])
        for i in range(n):
            for _try in range(20):
                s = Fraction(r.randint(0, tmax * grid), grid)
                d = Fraction(r.randint(1, max(1, tmax * grid // 2)), grid)
                if r.random() < 0.12:
                    d = Fraction(0)           # TS2 == TS3: an empty Prep slice
                cand = (base + s, base + s + d)
                ivs = [(x["s"], x["e"]) for x in evs if x["kind"] == "prep"] + [cand]
                # the overlap stage (not under test) gives up beyond 6 partially overlapping lanes per tid
                if max(count_at(ivs, p) for iv in ivs for p in iv) <= 4:
                    break
            else:
                continue
            evs.append({"kind": "prep", "name": f"k{i}", "s": float(cand[0]), "e": float(cand[1]),
                        "tid": r.choice([1, 1, 2])})
        live = [x for x in evs if x["kind"] == "prep" and x["e"] > x["s"]]
        if live and r.random() < 0.25:
            # a Prep that starts a few device cycles (1..6 ns) before another one on the same stream ends: a partial
            # overlap far below anything a viewer shows, still two slices in flight for that long
            x = r.choice(live)
            s2 = Fraction(x["e"]) - Fraction(r.choice([1, 2, 3, 4, 5, 6]), 1024)
            cand = (s2, s2 + Fraction(r.randint(1, 4)))
            ivs = [(y["s"], y["e"]) for y in evs if y["kind"] == "prep"] + [cand]
            if max(count_at(ivs, q) for iv in ivs for q in iv) <= 4:
                evs.append({"kind": "prep", "name": "knear", "s": float(cand[0]), "e": float(cand[1]), "tid": x["tid"]})
        for i in range(r.randint(0, 3)):
            s = Fraction(r.randint(0, tmax * grid), grid)
            d = Fraction(r.randint(1, 3 * grid), grid)
            evs.append({"kind": "exec", "name": f"x{i}", "s": float(base + 40 + s), "e": float(base + 40 + s + d),
                        "tid": 3})
        for i in range(r.randint(0, 2)):
            s = Fraction(r.randint(0, tmax * grid), grid)
            evs.append({"kind": "host", "name": r.choice(["hostfn", "launch", "memcpy h2d"]),
                        "s": float(base - 50 + s), "e": float(base - 50 + s + 2), "tid": 7 + i})
        r.shuffle(evs)
        if not evs:
            evs.append({"kind": "host", "name": "hostfn", "s": float(base - 50), "e": float(base - 48), "tid": 7})
        ranks.append(evs)
    sc = {"ranks": ranks}
    if r.random() < 0.3:
        # -M / --no_mp_sync: the clock-alignment stage (and its sort by ts) is not registered; the records of a file
        # reach the prep-queue counter in file order, which is shuffled above
        sc["opts"] = ["-M"]
    # -D: what is printed may depend on the level, the exported counter may not
    sc["dlevel"] = r.choice([0, 1, 1, 2, 3, 4])
    return sc


# ================================================================ Coq encoding
def coq_str(s):
    parts = s.split("\n")
    t = enc.S(parts[-1])
    for p in reversed(parts[:-1]):
        t = f"(String.append {enc.S(p)} (String.append nl {t}))"
    return t


def encodable(spec):
    for s in spec:
        if not (isinstance(s.get("ph"), str) and isinstance(s.get("name"), str) and isinstance(s.get("pid"), int)
                and not isinstance(s.get("pid"), bool) and isinstance(s.get("ts"), (int, float))
                and (s.get("dur") is None or isinstance(s.get("dur"), (int, float)))):
            return False
        if not all(31 < ord(c) < 127 or c == "\n" for c in s["ph"] + s["name"]):
            return False
    return True


class Terms:
    """compact cases files: elaborating long string literals dominates coqc's time, so every distinct string
    and the two fixed output shapes get a (transparent) definition in the prelude of the cases file"""

    def __init__(self):
        self.tab = {}

    def s(self, x):
        if x not in self.tab:
            self.tab[x] = f"s{len(self.tab)}"
        return self.tab[x]

    def prelude(self):
        lines = [f"Definition {v} : string := {coq_str(k)}." for k, v in self.tab.items()]
        lines.append(f"Definition cC (p : Z) (t : Q) (c : Z) : val := "
                     f"VL [VS {enc.S('C')}; VS {enc.S(CNT_NAME)}; VS {enc.S(CNT_CAT)}; VZ p; VQ t; VZ c].")
        lines.append(f"Definition cP (i : Z) : val := VL [VS {enc.S('P')}; VZ i].")
        return "\n".join(lines)

    def ev(self, s, uid):
        dur = "None" if s.get("dur") is None else f"(Some {enc.Q(s['dur'])})"
        return f"(E {self.s(s['ph'])} {self.s(s['name'])} {enc.Z(s['pid'])} {enc.Q(s['ts'])} {dur} " \
               f"{enc.Z(uid)} {enc.Z(s.get('job', J_FLEX))})"

    def stage_case(self, si, keep, spec):
        return enc.P(enc.P(enc.B(si), enc.B(keep)), enc.L([self.ev(s, i) for i, s in enumerate(spec)]))

    def out(self, o):
        if len(o) == 2 and o[0] == "P" and isinstance(o[1], int):
            return f"(cP {enc.Z(o[1])})"
        if len(o) == 6 and o[0] == "C" and o[1] == CNT_NAME and o[2] == CNT_CAT \
                and all(isinstance(x, int) and not isinstance(x, bool) for x in (o[3], o[5])) \
                and isinstance(o[4], (int, float)) and not isinstance(o[4], bool):
            return f"(cC {enc.Z(o[3])} {enc.Q(o[4])} {enc.Z(o[5])})"
        return enc.V(o)

    def stage_out(self, out):
        if isinstance(out, enc.Err):
            return enc.V(out)
        per = enc.L(["(VL " + enc.L([self.out(o) for o in outs]) + ")" for outs in out[0]])
        return f"(VL [(VL {per}); (VL {enc.L([self.out(o) for o in out[1]])})])"


def coq_uq_case(si, s, e, q):
    return enc.P(enc.P(enc.B(si), enc.P(enc.Q(s), enc.Q(e))), enc.L([enc.P(enc.Q(t), enc.Z(c)) for t, c in q]))


def touching(spec):
    """Appendix C rule: some pid has >= 2 Prep intervals that touch, nest or overlap"""
    by = {}
    for s in spec:
        if spec_is_prep(s) and s.get("dur") is not None:
            by.setdefault(s["pid"], []).append((s["ts"], s["ts"] + s["dur"]))
    for ivs in by.values():
        for (a, b), (c, d) in itertools.combinations(ivs, 2):
            if max(a, c) <= min(b, d):
                return True
    return False


# ================================================================ corpus
def load_corpus():
    out = []
    if os.path.isdir(CORPUS):
        for fn in sorted(os.listdir(CORPUS)):
            if fn.endswith(".json"):
                c = json.load(open(os.path.join(CORPUS, fn)))
                c["_file"] = fn
                out.append(c)
    return out


# ================================================================ the check
def stage_fail(si, keep, spec, out):
    bad = oracle_stage(keep, spec, out)
    if not bad:
        return None
    f = fail_rec("stage", {"sorted_input": si, "keep_prep": keep, "events": spec, "loglevel": spec_loglevel(spec)}, bad,
                 "per pid: samples strictly increasing in time, value = #{Prep: start <= t < end}, sample at every "
                 "change, last sample 0; Prep slices passed on iff keep_prep; everything else passed on unchanged",
                 {"symptoms": [[k, fa] for k, fa in bad][:4],
                  "stage_output": out.tag if isinstance(out, enc.Err) else out})
    return f


def shrink_stage(f):
    keep, spec = f["input"]["keep_prep"], list(f["input"]["events"])
    si = f["input"].get("sorted_input", True)
    want = f["signature"]["kind"]

    def still(sp):
        if not in_domain(si, sp):
            return None
        g = stage_fail(si, keep, sp, run_stage_impl(si, keep, sp))
        if g and g["signature"]["kind"] == want:
            return g
        return None
    best = f
    changed = True
    while changed and len(spec) > 1:
        changed = False
        for k in range(len(spec)):
            sp = spec[:k] + spec[k + 1:]
            g = still(sp)
            if g:
                spec, best, changed = sp, g, True
                break
    return best


def e2e_fail(sc, keep, res):
    bad = oracle_e2e(sc, keep, res)
    if not bad:
        return None
    preps, samples = export_views(res["export"] or [])
    return fail_rec("e2e", {"keep_prep": keep, "scenario": sc,
                            "argv": ["-i", "<rank files>", "-o", "out.json", "--freq", "1024", "-D", str(sc.get("dlevel", 1))]
                            + (["--keep_prep"] if keep else []) + list(sc.get("opts", []))}, bad,
                    "exported ConcurrentPreps series per rank equals the number of in-flight Prep slices; Prep slices "
                    "exported iff --keep_prep",
                    {"symptoms": [[k, fa] for k, fa in bad][:4],
                     "exported_samples": {str(k): v for k, v in samples.items()},
                     "exported_prep_slices": {str(k): v for k, v in preps.items()}, "error": res["err"]})


def shrink_e2e(f, work, budget=40):
    keep, sc = f["input"]["keep_prep"], copy.deepcopy(f["input"]["scenario"])
    want = f["signature"]["kind"]
    best = f
    changed = True
    while changed and budget > 0:
        changed = False
        for r in range(len(sc["ranks"])):
            for k in range(len(sc["ranks"][r])):
                if sum(len(x) for x in sc["ranks"]) <= 1 or len(sc["ranks"][r]) <= 1:
                    continue
                sc2 = copy.deepcopy(sc)
                del sc2["ranks"][r][k]
                budget -= 1
                g = e2e_fail(sc2, keep, run_e2e_impl(sc2, keep, work))
                if g and g["signature"]["kind"] == want:
                    sc, best, changed = sc2, g, True
                    break
                if budget <= 0:
                    break
            if changed or budget <= 0:
                break
    return best


def zero_scenarios():
    """an empty Prep interval (TS2 == TS3) end to end: the input of the defect fixed by a275d70"""
    return [{"ranks": [[{"kind": "prep", "name": "k0", "s": 1000.0, "e": 1004.0, "tid": 1},
                        {"kind": "prep", "name": "k1", "s": 1010.0, "e": 1010.0, "tid": 1}]]},
            {"ranks": [[{"kind": "prep", "name": "k0", "s": 1002.0, "e": 1002.0, "tid": 1}]]}]


def run(ctx):
    r = ctx.rng
    t_start = time.time()
    setup_jobs()
    notes = []
    mismatches, oracle_failures = [], []
    ties, dist = [], {}
    seen_nt = set()

    # ---------------------------------------------------------------- stage cases
    stage_cases = []     # (sorted_input, keep, spec, origin)
    for c in load_corpus():
        if c.get("level") == "stage":
            for si in ([c["sorted_input"]] if "sorted_input" in c else [True, False]):
                for keep in ([c["keep_prep"]] if "keep_prep" in c else [False, True]):
                    stage_cases.append((si, keep, c["events"], "corpus:" + c["_file"]))
    grids = ctx.pick([(6, 4)], [(6, 5), (7, 4)])        # (G, N): all families of <= N intervals on 0..G
    keep_max = ctx.pick(3, 4)
    fams, seen_f = [], set()
    for G, N in grids:
        for fam in families(G, N):
            k = tuple(fam)
            if k not in seen_f:
                seen_f.add(k)
                fams.append(fam)
    # the same with empty intervals [a, a) allowed (only the families that contain one are new)
    G0, N0 = ctx.pick((5, 3), (5, 4))
    for fam in families(G0, N0, empties=True):
        if any(a == b for a, b in fam):
            fams.append(fam)
    del seen_f
    n_fam = len(fams)
    for fam in fams:
        spec = [P(0, a, b) for a, b in fam]
        stage_cases.append((True, False, spec, "grid"))
        if len(fam) <= keep_max:
            stage_cases.append((True, True, spec, "grid"))
    # hold mode (sorted_input=False, the -M registration): ALL sequences in any order
    hold_grids = ctx.pick([(5, 3), (3, 4)], [(5, 4), (3, 5)])
    hold_keep_max = ctx.pick(2, 3)
    hfams, seen_h = [], set()
    for G, N in hold_grids:
        for fam in any_order(G, N):
            k = tuple(fam)
            if k not in seen_h:
                seen_h.add(k)
                hfams.append(fam)
    GH0, NH0 = ctx.pick((3, 3), (3, 4))
    for fam in any_order(GH0, NH0, empties=True):
        if any(a == b for a, b in fam):
            hfams.append(fam)
    del seen_h
    n_hfam = len(hfams)
    for fam in hfams:
        spec = [P(0, a, b) for a, b in fam]
        stage_cases.append((False, False, spec, "grid-hold"))
        if len(fam) <= hold_keep_max:
            stage_cases.append((False, True, spec, "grid-hold"))
    n_grid = len(stage_cases)
    if not ctx.quick():      # two ranks: pairs of families merged by start, pids interleaved
        small = [f for f in fams if 1 <= len(f) <= 3]
        for _ in range(30000):
            fa, fb = r.choice(small), r.choice(small)
            spec = sorted([P(0, a, b) for a, b in fa] + [P(1, a, b) for a, b in fb],
                          key=lambda x: (x["ts"], r.random()))
            stage_cases.append((True, r.random() < 0.3, spec, "grid2"))
        for _ in range(10000):   # the same merged in any order, hold mode
            fa, fb = r.choice(small), r.choice(small)
            spec = [P(0, a, b) for a, b in fa] + [P(1, a, b) for a, b in fb]
            r.shuffle(spec)
            stage_cases.append((False, r.random() < 0.3, spec, "grid2-hold"))
    for _ in range(ctx.pick(3000, 40000)):
        stage_cases.append((r.random() < 0.7, r.random() < 0.4, gen_stream(r, domain=True), "random"))
    # unsorted arrival: in the property's domain in hold mode (two thirds of these), tie-only in the default mode
    for _ in range(ctx.pick(1500, 15000)):
        stage_cases.append((r.random() < 0.33, r.random() < 0.4, gen_stream(r, domain=False), "unsorted"))
    for _ in range(ctx.pick(300, 3000)):
        stage_cases.append((r.random() < 0.6, r.random() < 0.4, gen_stream(r, domain=True, malformed=True),
                            "malformed"))
    for _ in range(ctx.pick(300, 3000)):
        stage_cases.append((r.random() < 0.6, r.random() < 0.4,
                            gen_stream(r, domain=r.random() < 0.6, zero=True), "zero"))

    terms, kept = [], []
    T = Terms()
    dist["stage_origin"] = {}
    dist["stage_len"] = {}
    dist["stage_in_domain"] = 0
    dist["stage_in_domain_hold_unsorted"] = 0
    dist["stage_mode"] = {"sorted_input": 0, "hold": 0}
    dist["stage_errors"] = {}
    for si, keep, spec, origin in stage_cases:
        out = run_stage_impl(si, keep, spec)
        terms.append((T.stage_case(si, keep, spec), T.stage_out(out)))
        kept.append((si, keep, spec, origin))
        dist["stage_mode"]["sorted_input" if si else "hold"] += 1
        dist["stage_origin"][origin] = dist["stage_origin"].get(origin, 0) + 1
        ln = min(len(spec), 15)
        dist["stage_len"][ln] = dist["stage_len"].get(ln, 0) + 1
        if isinstance(out, enc.Err):
            dist["stage_errors"][out.tag] = dist["stage_errors"].get(out.tag, 0) + 1
        if in_domain(si, spec):
            dist["stage_in_domain"] += 1
            if not si and not in_domain(True, spec):
                dist["stage_in_domain_hold_unsorted"] += 1
            f = stage_fail(si, keep, spec, out)
            if f:
                oracle_failures.append(f)
            key = json.dumps([si, spec], sort_keys=True)
            if key not in seen_nt and touching(spec):
                seen_nt.add(key)
    # off-grid stream (supporting, oracle only): realistic decimal timestamps.  The oracle uses the same float
    # sums ts+dur as the code, so it stays exact; the Q model is not compared here (DESIGN 2.2)
    n_off = 0
    for _ in range(ctx.pick(1500, 20000)):
        keep = r.random() < 0.4
        si = r.random() < 0.6
        spec = gen_stream(r, domain=True)
        base = r.choice([0.0, 1.5e6, 1.7e15 / 1e3])
        sc = r.choice([0.001, 0.37, 1.0 / 560.0])
        for s in spec:
            s["ts"] = base + round(s["ts"] * sc, 4)
            if s.get("dur") is not None:
                s["dur"] = round(s["dur"] * sc, 4)
        if si:
            spec.sort(key=lambda x: x["ts"])
        else:
            r.shuffle(spec)
        if not in_domain(si, spec):
            continue
        n_off += 1
        f = stage_fail(si, keep, spec, run_stage_impl(si, keep, spec))
        if f:
            f["input"]["origin"] = "off-grid"
            oracle_failures.append(f)
    dist["offgrid_oracle_only"] = n_off

    bad, extras, secs = coqrun.run_cases(
        "C13_stage", IMPORTS, "((bool * bool) * list ev)", "run_val", terms, shard=1000, prelude=T.prelude(),
        extra="Definition nt := Eval vm_compute in (count_if nontrivial cases).\nLocal Open Scope nat_scope.\nPrint nt.")
    for j in bad[:5]:
        mismatches.append({"name": "correspondence PrepQueue.run_val vs queueing_counter/QueueingCounterContext",
                           "case": {"sorted_input": kept[j][0], "keep_prep": kept[j][1], "events": kept[j][2],
                                    "origin": kept[j][3]},
                           "impl": terms[j][1][:600]})
    ties.append({"name": "PrepQueue.run_val = real queueing_counter stage (callbacks + drain), context in default "
                         "(sorted_input) and hold mode", "cases": len(terms),
                 "mismatching": len(bad), "coq_seconds": round(secs, 1), "nontrivial_in_coq": extras.get("nt")})
    stage_bad_specs = [kept[j] for j in bad[:50]]

    # ---------------------------------------------------------------- update_queues alone
    uq_cases = [(r.random() < 0.5,) + gen_uq(r) for _ in range(ctx.pick(2500, 30000))]
    for si in (True, False):
        uq_cases += [(si, 2.0, 5.0, [(0.0, 1), (10.0, 0)]), (si, 0.0, 1.0, []), (si, 3.0, 3.0, [(0.0, 1), (3.0, 0)]),
                     (si, 4.0, 6.0, [(0.0, 1), (2.0, 2), (5.0, 1), (10.0, 0)]),
                     (si, 1014.0, 1023.0, [(1013.0, 1), (1015.0, 1), (1024.0, 0)])]
    uterms = [(coq_uq_case(si, s, e, q), enc.V(run_uq_impl(si, s, e, q))) for si, s, e, q in uq_cases]
    bad_u, _, secs = coqrun.run_cases("C13_uq", IMPORTS, "((bool * (Q * Q)) * list bp)", "uq_val", uterms, shard=1000)
    for j in bad_u[:3]:
        mismatches.append({"name": "correspondence PrepQueue.uq_val vs QueueingCounterContext.update_queues",
                           "case": {"sorted_input": uq_cases[j][0], "s": uq_cases[j][1], "e": uq_cases[j][2],
                                    "queue": uq_cases[j][3]},
                           "impl": uterms[j][1][:400]})
    ties.append({"name": "PrepQueue.uq_val = real update_queues on arbitrary stored lists, both modes",
                 "cases": len(uterms),
                 "mismatching": len(bad_u), "coq_seconds": round(secs, 1)})

    # ---------------------------------------------------------------- Prep name test + dialect entries
    names = list(NAMES_TIE)
    toks = ["Cmpt", "Prep", " ", "Cmpt Prep", "\n", "k", "Exec", "$", "p", "Cmpt Pre", "t Prep"]
    for _ in range(ctx.pick(300, 3000)):
        names.append("".join(r.choice(toks) for _ in range(r.randint(0, 5))))
    nterms, ncases = [], []
    from aiu_trace_analyzer.types import InputDialectFLEX, InputDialectTORCH
    for dia in (InputDialectFLEX(), InputDialectTORCH()):
        try:
            v = dia.get("acc_compute_prep")
        except Exception as ex:  # noqa: BLE001
            v = enc.Err(type(ex).__name__)
        nterms.append((enc.P("false", enc.S("")), enc.V(v)))
        ncases.append(("dialect-entry", dia.get("NAME")))
    for nm in names:
        for job in (J_FLEX, J_TORCH):
            got = run_name_impl(nm, job)
            nterms.append((enc.P("true", coq_str(nm)), enc.V(got)))
            ncases.append((nm, job))
            want = re.search(r"Cmpt Prep$", nm) is not None
            if got != want:
                oracle_failures.append(fail_rec(
                    "name", {"name": nm, "job": job}, [("prep_name_test_differs", {})],
                    want, repr(got)))
    bad_n, _, secs = coqrun.run_cases("C13_names", IMPORTS, "(bool * string)", "name_val", nterms, shard=2000)
    for j in bad_n[:3]:
        mismatches.append({"name": "correspondence PrepQueue.name_val vs is_category(.., 'acc_compute_prep') / "
                                   "dialect entry", "case": {"name": ncases[j][0], "job": ncases[j][1]},
                           "impl": nterms[j][1][:200]})
    ties.append({"name": "PrepQueue.is_prep_name = real is_category(acc_compute_prep); prep_entry = dialect entries",
                 "cases": len(nterms), "mismatching": len(bad_n), "coq_seconds": round(secs, 1)})

    # ---------------------------------------------------------------- end to end
    scs = [c["scenario"] for c in load_corpus() if c.get("level") == "e2e"]
    n_corpus_e2e = len(scs)
    scs += zero_scenarios()
    n_corpus_e2e = len(scs)
    scs += [gen_scenario(r) for _ in range(ctx.pick(110, 1500))]
    eterms, ecases = [], []
    TE = Terms()
    dist["e2e_ranks"] = {}
    dist["e2e_preps_per_run"] = {}
    dist["e2e_stage_events"] = 0
    dist["e2e_mode"] = {"default": 0, "-M (hold)": 0, "-M with unsorted stage input": 0}
    e2e_runs = 0
    for sc in scs:
        nr = len(sc["ranks"])
        # the mode the options call for (NOT read off the context the run built): -M -> hold
        si = "-M" not in sc.get("opts", [])
        dist["e2e_ranks"][nr] = dist["e2e_ranks"].get(nr, 0) + 1
        npz = sum(1 for evs in sc["ranks"] for x in evs if x["kind"] == "prep")
        dist["e2e_preps_per_run"][npz] = dist["e2e_preps_per_run"].get(npz, 0) + 1
        series = {}
        for keep in (False, True):
            res = run_e2e_impl(sc, keep, ctx.work)
            e2e_runs += 1
            f = e2e_fail(sc, keep, res)
            if f:
                oracle_failures.append(f)
            if res["err"] is None:
                series[keep] = export_views(res["export"])[1]
            if res["stage_out"] is not None and encodable(res["stage_in"]):
                eterms.append((TE.stage_case(si, keep, res["stage_in"]), TE.stage_out(res["stage_out"])))
                ecases.append((sc, keep))
                dist["e2e_stage_events"] += len(res["stage_in"])
                dist["e2e_mode"]["default" if si else "-M (hold)"] += 1
                if not si and not in_domain(True, res["stage_in"]):
                    dist["e2e_mode"]["-M with unsorted stage input"] += 1
                key = json.dumps([si, res["stage_in"]], sort_keys=True)
                if key not in seen_nt and touching(res["stage_in"]):
                    seen_nt.add(key)
            elif res["err"] is None and res["stage_called"]:
                notes.append("e2e stage input not encodable for the model (non-ASCII name or non-numeric field)")
        if len(series) == 2 and series[False] != series[True]:
            oracle_failures.append(fail_rec(
                "e2e", {"keep_prep": "both", "scenario": sc}, [("counter_series_depends_on_keep_prep", {})],
                "same ConcurrentPreps series with and without --keep_prep",
                {"without": {str(k): v for k, v in series[False].items()},
                 "with": {str(k): v for k, v in series[True].items()}}))
    bad_e, _, secs = coqrun.run_cases("C13_e2e", IMPORTS, "((bool * bool) * list ev)", "run_val", eterms, shard=100,
                                       prelude=TE.prelude())
    for j in bad_e[:3]:
        mismatches.append({"name": "correspondence PrepQueue.run_val vs the queueing_counter stage inside a real "
                                   "Acelyzer run", "case": {"scenario": ecases[j][0], "keep_prep": ecases[j][1]},
                           "impl": eterms[j][1][:600]})
    ties.append({"name": "PrepQueue.run_val = queueing_counter stage as it runs inside Acelyzer (recorded input and "
                         "output of the stage), +/- --keep_prep, +/- -M (model in hold mode under -M)",
                 "cases": len(eterms), "mismatching": len(bad_e),
                 "coq_seconds": round(secs, 1), "acelyzer_runs": e2e_runs})

    # the real command line (subprocess) on the first generated scenarios and on the first two -M scenarios
    cli_runs = 0
    cli_scs = scs[n_corpus_e2e:n_corpus_e2e + ctx.pick(2, 10)]
    cli_scs += [sc for sc in scs if "-M" in sc.get("opts", []) and sc not in cli_scs][:ctx.pick(2, 6)]
    for sc in cli_scs:
        for keep in (False, True):
            rc, export = run_cli(sc, keep, ctx.work)
            cli_runs += 1
            res = {"err": None if (rc == 0 and export is not None) else f"cli rc={rc}", "export": export,
                   "keyval": None, "stage_called": 1, "stage_in": []}
            f = e2e_fail(sc, keep, res)
            if f:
                f["input"]["via"] = "subprocess CLI"
                oracle_failures.append(f)
    ties.append({"name": "oracle on the export of the real command line (python -m acelyzer.acelyzer)",
                 "cases": cli_runs, "mismatching": 0})

    # ---------------------------------------------------------------- shrink, order, report
    shrunk = []
    seen_sig = set()
    for f in oracle_failures:
        key = json.dumps(f["signature"], sort_keys=True, default=str)
        if key in seen_sig or len(shrunk) >= 6:
            continue
        seen_sig.add(key)
        if f["input"]["level"] == "stage":
            f = shrink_stage(f)
        elif f["input"]["level"] == "e2e" and isinstance(f["input"].get("keep_prep"), bool) \
                and f["input"].get("via") is None:
            f = shrink_e2e(f, ctx.work)
        shrunk.append(f)
    # stage-level replays first (fast, minimal), then end-to-end ones
    # ... and a violated conclusion of the property before a violated hypothesis / diagnosis
    diag = ("stage_input_not_start_sorted", "keep_prep_not_forwarded", "queueing_counter_stage_not_run")
    # ... and a wrong series before "the stage raises" (the theorems are conditional on the stage not raising; a
    # context that cannot even be built in hold mode shows up as TypeError here and as a wrong count end to end)
    shrunk.sort(key=lambda f: (f["signature"]["kind"] in diag, f["signature"]["kind"] == "stage_raises",
                               {"stage": 0, "name": 1, "e2e": 2}.get(f["input"]["level"], 3)))
    dist["oracle_failures_total"] = len(oracle_failures)
    ctx._c13_bad_stage = stage_bad_specs
    shutil.rmtree(os.path.join(ctx.work, "e2e"), ignore_errors=True)
    shutil.rmtree(os.path.join(ctx.work, "cli"), ignore_errors=True)
    n_eval = len(terms) + len(uterms) + len(nterms) + len(eterms) + cli_runs
    dist["seconds"] = round(time.time() - t_start, 1)
    return {
        "evaluations": n_eval, "distinct_nontrivial": len(seen_nt),
        "rule": "stage tie, default mode: ALL start-sorted sequences (every order among equal starts) of <= N Prep "
                f"intervals [a,b) with integer a < b on the grid 0..G for (G, N) in {grids} ({n_fam} families; keep_prep off "
                f"for all, on for those of <= {keep_max} intervals; included: all families of <= {N0} intervals on 0..{G0} "
                f"that contain an empty interval [a,a)); hold mode (sorted_input=False): ALL sequences in ANY order of "
                f"<= N intervals on 0..G for (G, N) in {hold_grids} plus those of <= {NH0} on 0..{GH0} that contain an "
                f"empty interval ({n_hfam} sequences; keep_prep on for those of <= {hold_keep_max}): {n_grid} cases incl. "
                "corpus (every corpus stream in both modes) + "
                + ("30000 two-rank merges of such families + 10000 shuffled ones in hold mode + " if not ctx.quick() else "") +
                "random multi-pid streams in both modes (sorted / "
                "unsorted / malformed / with empty intervals) + update_queues on arbitrary lists in both modes + name test + "
                "the stage inside real Acelyzer runs (+/- --keep_prep, +/- -M). non-trivial = distinct (mode, stage input stream) "
                "(direct or recorded end to end) in which some pid has >= 2 Prep intervals that touch, nest or "
                f"overlap (max(s1,s2) <= min(e1,e2)); the Coq-side rule over the direct stage cases gives "
                f"{extras.get('nt')}",
        "samples": [{"sorted_input": kept[j][0], "keep_prep": kept[j][1], "events": kept[j][2]}
                    for j in (n_grid - 1, n_grid + 1)] +
                   [{"e2e_scenario": scs[-1]}],
        "mismatches": mismatches, "oracle_failures": shrunk,
        "ties": ties, "distribution": dist, "exhaustive": True,
        "traces_validated_against_impl": n_eval, "notes": notes,
    }


# ================================================================ search / replay
def search(ctx, res, broken):
    """something broke but this run's oracle was silent: oracle on the mismatching cases, then on a fresh,
    larger random stream (stage level, then end to end), bounded by time"""
    setup_jobs()
    r = random.Random(ctx.seed + 1013)
    t0 = time.time()
    for si, keep, spec, _ in getattr(ctx, "_c13_bad_stage", []):
        if in_domain(si, spec):
            f = stage_fail(si, keep, spec, run_stage_impl(si, keep, spec))
            if f:
                return [shrink_stage(f)]
    limit = ctx.pick(60, 600)
    n = 0
    while time.time() - t0 < limit and n < ctx.pick(40000, 400000):
        n += 1
        keep = r.random() < 0.4
        si = r.random() < 0.6
        spec = gen_stream(r, domain=si or r.random() < 0.3, zero=r.random() < 0.3)
        f = stage_fail(si, keep, spec, run_stage_impl(si, keep, spec))
        if f:
            return [shrink_stage(f)]
        if n % 50 == 0:
            sc = gen_scenario(r)
            for kp in (False, True):
                f = e2e_fail(sc, kp, run_e2e_impl(sc, kp, ctx.work))
                if f:
                    return [shrink_e2e(f, ctx.work)]
    return []


def replay(ctx, payload):
    f = payload.get("failing")
    if not f:
        return True, "replay file names only broken obligations: " + str(payload.get("broken"))[:500]
    setup_jobs()
    inp = f["input"]
    lvl = inp.get("level")
    if lvl == "stage":
        out = run_stage_impl(inp.get("sorted_input", True), inp["keep_prep"], inp["events"])
        bad = oracle_stage(inp["keep_prep"], inp["events"], out)
        return not bad, {"symptoms": bad[:4], "stage_output": out.tag if isinstance(out, enc.Err) else out}
    if lvl == "e2e":
        keeps = [False, True] if inp.get("keep_prep") == "both" else [inp["keep_prep"]]
        allbad, series = [], {}
        for kp in keeps:
            if inp.get("via"):
                rc, export = run_cli(inp["scenario"], kp, ctx.work)
                res = {"err": None if (rc == 0 and export is not None) else f"cli rc={rc}", "export": export,
                       "keyval": None, "stage_called": 1, "stage_in": []}
            else:
                res = run_e2e_impl(inp["scenario"], kp, ctx.work)
            allbad += oracle_e2e(inp["scenario"], kp, res)
            if res["err"] is None:
                series[kp] = export_views(res["export"])[1]
        if len(series) == 2 and series[False] != series[True]:
            allbad.append(("counter_series_depends_on_keep_prep", {}))
        return not allbad, {"symptoms": allbad[:4], "exported_samples": {str(k): v for k, v in series.items()}}
    if lvl == "name":
        got = run_name_impl(inp["name"], inp["job"])
        want = re.search(r"Cmpt Prep$", inp["name"]) is not None
        return got == want, {"is_category": repr(got), "expected": want}
    return True, "unknown replay level " + str(lvl)
