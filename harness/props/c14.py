"""C14 — same inputs and options give identical results across runs and environments.

Theorems (coq/props/C14.v): history independence of a run that resets the shared barrier cell (and necessity of
the reset), transparency of the inert stages -I inserts, independence of insertion-ordered grouping from the hash
function.  What lives in the runtime is exercised here, not proved:
  * seeds: the CLI is run as a subprocess under several PYTHONHASHSEEDs; traceEvents and all CSV / TXT tables must be
    byte-identical (output-name / command-line metadata excluded).  Scenario kinds: device kernels + host slices (half
    of the multi-rank ones with chain all-reduces), torch profiles, C20's communication sequences (imported generator:
    parts that name peers in args.Peer / list them in args.Peers) and device multicasts over 3..6 ranks (Set BcList +
    one Xseg part per peer + Data under one request number) - the last two mostly with --comm_summarize_seq, so that
    summarized slices listing two and more peers are exported; one compiler log for all ranks or one per rank
    (-c a.log,b.log,...);
  * -I on/off: same comparison;
  * histories: a worker process runs a sequence of scenarios through the documented Acelyzer API in ONE Python
    process - other scenarios first (any of the kinds above, also the target itself), scenarios that abort
    mid-pipeline, scenarios whose input files collide in the job id with the target's - then the target; the runs of
    one process write to the same -o (the previous results removed before each run) or each to its own.  The output
    directory is copied AT THE MOMENT the target's run() returns: every file next to the output must be there by then
    and must equal the one the same run leaves in a fresh process, and no file of an earlier run may show up.  The
    worker also reports what the module-level barrier held when each run started / when its processor was built.
Coq-evaluated tie: the real EventProcessor WITH intermediate= (duplicate_and_hold after every stage) against the
model WITHOUT those stages (C14Model.run_plain_val) on random stage graphs.
"""
import json
import os
import shutil
import subprocess
import sys
import tempfile
import zlib
from concurrent.futures import ThreadPoolExecutor

from common import collectives, coqrun, enc, scenario

ID = "C14"
MANIFEST = {
    "text": "Proof, partial by nature. Proved (Coq, unbounded, arbitrary stages and context sharing): a run that first resets "
            "the shared barrier cell exports the same events whatever earlier - completed or aborted - runs of the process "
            "left there (C14_history_independent), and the reset is necessary (C14_history_needs_reset, concrete witness of the "
            "repaired defect); inserting after every stage the inert duplicate_and_hold stage of -I with private contexts does "
            "not change the export (C14_intermediate_transparent); insertion-ordered grouping by a hashed key does not depend on "
            "the hash function when it is injective on the keys in use (C14_hash_independent). NOT provable in a model and "
            "therefore exercised by paired executions of the real tool: CPython's hash randomisation (runs under several "
            "PYTHONHASHSEEDs), -I on/off, and in-process run histories through the Acelyzer API including aborted runs and "
            "job-id collisions between runs, runs sharing one output name, one compiler log per rank, summarized multicast "
            "sequences - compared byte for byte on traceEvents and the CSV/TXT tables as they are when run() returns.",
    "note": "Trusted: Coq kernel + vm_compute; the pipeline model of Pipeline.v (tied by C03 and, with intermediate=, by this "
            "check); the canonicalisation (only otherData/command line/output names are dropped). Runtime behaviour the model "
            "cannot exhibit: real hash randomisation, set iteration order, GC timing of __del__ output, module-level "
            "singletons other than the barrier (GlobalIngestData job map, dialect singletons) - covered by the history tie only.",
    "technique": "Coq proof (simulation by induction over the operational pipeline model) + differential paired executions of the "
                 "real analyzer (hash seeds, -I, in-process histories) + vm_compute correspondence for -I on stage graphs",
    "design_ref": "DESIGN.md sections 3.1, 3.2 and 4/C14",
}
PROP_FILE = "props/C14.v"
MODEL_TARGETS = ["theories/C14Model.vo"]
THEOREMS = ["C14_history_independent", "C14_history_needs_reset", "C14_intermediate_transparent", "C14_hash_independent"]
ALLOWED_AXIOMS = []
TRUSTED = [
    "paired-run comparison: json traceEvents (sorted keys, list order kept) and every CSV/TXT written next to the output; "
    "otherData is dropped; in histories the output directory is read at the moment run() returns (copy made by the worker)",
    "modelled, not verified: CPython hash randomisation, dict/set iteration, GC timing, pandas/CSV formatting",
]
ASSUMPTIONS = [
    "well-formed FLEX scenarios from harness/common/scenario.py + collectives.py (integer pids/tids, one rank per file), "
    "C20's host-level communication sequences (props/c20.py gen_e2e), small torch profiles",
    "with one compiler log per rank the list has exactly one entry per rank (pids 0..R-1)",
    "between two runs of one process that use the same -o the user removes the previous results",
    "the documented Acelyzer API: Acelyzer(argv).run() per run",
]

WORKER = r'''
import sys, os, json, io, contextlib, traceback, shutil
sys.path.insert(0, os.path.join(os.environ["AIU_REPO"], "src"))
from aiu_trace_analyzer.core.acelyzer import Acelyzer
import aiu_trace_analyzer.core.acelyzer as acel
import aiu_trace_analyzer.core.processing as processing
import aiu_trace_analyzer.pipeline.barrier as barrier
plan = json.load(open(sys.argv[1]))
report = []
class Probe(processing.EventProcessor):
    def __init__(self, *a, **k):
        report[-1]["hold_at_processor"] = len(barrier._main_barrier_context.hold)
        super().__init__(*a, **k)
acel.processor.EventProcessor = Probe
for step in plan:
    os.chdir(step["cwd"])
    report.append({"hold_before_run": len(barrier._main_barrier_context.hold)})
    if step.get("out") and step.get("clean", True):
        # the user removes the results of the previous analysis before starting the next one with the same -o
        # (clean = False: the user does not - files the new run writes must not depend on what lies there already)
        os.makedirs(step["out"], exist_ok=True)
        for fn in os.listdir(step["out"]):
            if os.path.isfile(os.path.join(step["out"], fn)):
                os.remove(os.path.join(step["out"], fn))
    sink = io.StringIO()
    try:
        with contextlib.redirect_stdout(sink), contextlib.redirect_stderr(sink):
            rc = Acelyzer(step["argv"]).run()
        report[-1]["rc"] = rc
    except BaseException as e:
        report[-1]["exc"] = type(e).__name__
    report[-1]["hold_after_run"] = len(barrier._main_barrier_context.hold)
    if step.get("snap"):
        # what is next to the output at the moment run() has returned (nothing else happens in between)
        shutil.copytree(step["out"], step["snap"])
json.dump(report, open(sys.argv[2], "w"))
'''


def canon(outdir):
    """canonical result of one run: traceEvents + the text of every CSV / TXT table written next to the output"""
    res = {}
    if not os.path.isdir(outdir):
        return {"missing": True}
    for fn in sorted(os.listdir(outdir)):
        p = os.path.join(outdir, fn)
        if fn.endswith(".json"):
            try:
                d = json.load(open(p))
            except Exception as e:  # noqa: BLE001
                res[fn] = "unreadable: " + str(e)[:100]
                continue
            ev = d["traceEvents"] if isinstance(d, dict) else d
            res[fn] = json.dumps(ev, sort_keys=True)
        elif fn.endswith(".csv") or fn.endswith(".txt"):
            res[fn] = open(p).read()
    return res


def cli(cwd, argv, seed, timeout=180):
    env = dict(os.environ, PYTHONPATH=os.path.join(coqrun.REPO, "src"), PYTHONHASHSEED=str(seed))
    r = subprocess.run(["/venv/bin/python", "-c",
                        "import sys; from aiu_trace_analyzer.core.acelyzer import Acelyzer; "
                        "sys.exit(Acelyzer(sys.argv[1:]).run())"] + argv, cwd=cwd, env=env,
                       stdout=subprocess.PIPE, stderr=subprocess.PIPE, text=True, timeout=timeout)
    return r.returncode, r.stderr[-400:]


def gen_opts(r):
    o = []
    for sw, p in (("--keep_prep", 0.3), ("-M", 0.2), ("--disable_tb", 0.2), ("--drop_globals", 0.2), ("--flow", 0.25),
                  ("--power-stats", 0.3), ("-t", 0.1), ("--comm_summarize_seq", 0.2)):
        if r.random() < p:
            o.append(sw)
    if r.random() < 0.3:
        o += ["-C"] + [c for c in ["power_ts4", "coll_bw", "prep_queue", "rcu_util"] if r.random() < 0.6]
    # options whose parsed values live in objects that could outlast a run (limits, filters, profiles)
    if r.random() < 0.3:
        lim = {}
        for key, val in (("skip", r.randrange(0, 6)), ("count", r.randrange(1, 30)),
                         ("ts_start", float(r.randrange(0, 400))), ("ts_end", float(r.randrange(300, 4000)))):
            if r.random() < 0.4:
                lim[key] = val
        o += ["--event_limit", json.dumps(lim)]
        if "-M" not in o:
            o.append("-M")        # a limit may cut a rank out of a collective: mp-sync would refuse the trace
    if r.random() < 0.15:
        o += ["--event_filter", r.choice(["name:Exec$", "name:^HostFn_[01]", "args.uid:[37]$", "name:DmaO$"])]
        if "-M" not in o:
            o.append("-M")
    if r.random() < 0.12:
        o += ["-F", r.choice(["X", "XC", "C"])]
    if r.random() < 0.12:
        o += ["-O", r.choice(["drop", "tid", "async", "warn", "shift"])]
    if r.random() < 0.1:
        o.append("--keep_names")
    if r.random() < 0.1 and "--disable_tb" not in o:
        o.append("--tb")
    return o


def torch_scn(r):
    """a small torch-profiler style input (top-level object with deviceProperties: the TORCH dialect): host ops that
    launch kernels and copies, linked by External id / correlation"""
    s = scenario.Scenario()
    s.freq, s.ranks = 1024.0, 1
    evs, t = [], float(r.randrange(1000, 5000))
    for k in range(r.randrange(2, 7)):
        d = float(r.randrange(20, 200))
        evs.append({"ph": "X", "cat": "cpu_op", "name": r.choice(["aten::mm", "aten::add", "aten::relu"]), "pid": 0,
                    "tid": 7, "ts": t, "dur": d, "args": {"External id": k + 1}})
        evs.append({"ph": "X", "cat": "kernel", "name": r.choice(["mm_kernel", "add_kernel", "relu_kernel"]), "pid": 0,
                    "tid": 9, "ts": t + 5.0, "dur": d / 4, "args": {"External id": k + 1, "correlation": 10 + k}})
        if r.random() < 0.4:
            evs.append({"ph": "X", "cat": "gpu_memcpy", "name": "Memcpy (DtoH)", "pid": 0, "tid": 9,
                        "ts": t + 5.0 + d / 2, "dur": d / 8, "args": {"External id": k + 1, "correlation": 100 + k}})
        t += d + float(r.randrange(1, 50))
    s.files = {"torch_rank0.json": {"deviceProperties": [{"id": 0, "name": "AIU", "type": "aiu"}], "traceEvents": evs}}
    s.meta["torch"] = True
    return s


def comm_scn(r):
    """host-level communication slices from C20's end-to-end generator (used by import): several jobs per rank,
    sequences ("SenRdma_<n> ..." parts sharing a number) interleaved in time, the parts naming peers in args.Peer and
    listing them in args.Peers (lists, comma separated strings): a multicast sequence names two or more peers"""
    from props import c20
    case = c20.gen_e2e(r)
    s = scenario.Scenario()
    s.freq, s.ranks = 1024.0, 1 + max(f["pid"] for f in case["files"])
    tmp = tempfile.mkdtemp(prefix="c14c_")
    try:
        for p in c20.write_files(case, tmp):
            s.files[os.path.relpath(p, tmp)] = json.load(open(p))
    finally:
        shutil.rmtree(tmp, ignore_errors=True)
    s.meta["comm"] = True
    s.meta["comm_opts"] = [o for o in case["opts"] if o in ("--flow", "--keep_names")]
    return s


def write_scn(r, d, names=None, torch=False, kind=None, **kw):
    """kind: None (device kernels + host slices, half of the multi-rank ones with chain all-reduces), "torch",
    "comm" (C20's sequences), "mcast" (3..6 ranks with chain all-reduces: the last rank of a group multicasts to all
    the others - Set BcList + one Xseg part per peer + Data, one request number), "mlog" (2..4 ranks, analysed with one
    compiler log per rank)"""
    if torch:
        kind = "torch"
    if kind in ("torch", "comm"):
        s = torch_scn(r) if kind == "torch" else comm_scn(r)
        _materialise(d, s.files)
        return s, ",".join("in/" + fn for fn in s.files)
    n_groups = kw.pop("n_groups", None)
    if kind == "mcast":
        kw.setdefault("ranks", r.choice([3, 4, 4, 5, 6]))
    elif kind == "mlog":
        kw.setdefault("ranks", r.choice([2, 2, 3, 4]))
    s = scenario.gen_scenario(r, **kw)
    if kind == "mcast":
        collectives.add_chain_allreduce(r, s, n_groups=n_groups or r.choice([1, 2, 3]))
        s.meta["mcast"] = True
    elif s.ranks >= 2 and r.random() < 0.5:
        collectives.add_chain_allreduce(r, s, n_groups=r.choice([1, 2]))
    if kind == "mlog":
        s.meta["mlog"] = True
    if names:   # rename the files (job ids derive from the path string)
        s.files = {names[i]: v for i, (k, v) in enumerate(s.files.items())}
    _materialise(d, s.files)
    if len(s.files) >= 2 and all(fn.startswith("rank") for fn in s.files) and r.random() < 0.3:
        return s, "in/rank*.json"          # a wildcard instead of the explicit list (documented -i syntax)
    return s, ",".join("in/" + fn for fn in s.files)


def scn_opts(r, s):
    """the options of one scenario (the same in all paired executions)"""
    if s.meta.get("comm"):
        o = ["--disable_tb"] + list(s.meta["comm_opts"])
        if r.random() < 0.85:
            o.append("--comm_summarize_seq")
        if r.random() < 0.2:
            o.append("-M")
        return o
    o = gen_opts(r)
    if s.meta.get("mcast") and "--comm_summarize_seq" not in o and r.random() < 0.9:
        o.append("--comm_summarize_seq")
    if s.meta.get("mlog") and "-C" in o and "rcu_util" not in o:
        o.insert(o.index("-C") + 1, "rcu_util")     # (without -C the default counters include rcu_util)
    return o


def comp_logs(s, d, r):
    """the -c argument of a scenario: ONE compiler log for all ranks or, for multi-rank scenarios, a comma separated
    list with one log per rank (documented: "Comma-separated list of per-rank" logs, sorted by rank).  Decided and
    generated once per scenario (texts kept in s.meta["logs"]), written into every directory the scenario is run from"""
    if "clog" not in s.meta:
        multi = s.ranks >= 2 and (s.meta.get("mlog") or r.random() < 0.35)
        tmp = tempfile.mkdtemp(prefix="c14l_")
        try:
            if not multi:
                scenario.compiler_log(s, os.path.join(tmp, "l"), r)
                logs = {"in/comp.log": open(os.path.join(tmp, "l")).read()}
            else:
                logs = {}
                same = r.random() < 0.75       # the same model compiled for every rank / per-rank tables that differ
                for k in range(s.ranks):
                    if k == 0 or not same:
                        scenario.compiler_log(s, os.path.join(tmp, "l"), r)
                    logs[f"in/comp{k}.log"] = open(os.path.join(tmp, "l")).read()
        finally:
            shutil.rmtree(tmp, ignore_errors=True)
        s.meta["logs"], s.meta["clog"] = logs, ",".join(logs)
    _write_logs(d, s.meta["logs"])
    return s.meta["clog"]


def _write_logs(d, logs):
    for rel, text in logs.items():
        p = os.path.join(d, rel)
        if not os.path.exists(p):
            os.makedirs(os.path.dirname(p), exist_ok=True)
            open(p, "w").write(text)


def argv_for(s, inp, out, opts, d, r):
    if s.meta.get("torch"):         # no FLEX-only extras on a torch profile
        opts = [o for o in opts if o not in ("rcu_util", "--comm_summarize_seq", "--flow", "--power-stats")]
    argv = ["-i", inp, "-o", out + "/o.json", "--freq", f"{s.freq}:1100.0", "-D", "0"] + opts
    if not s.meta.get("torch") and not s.meta.get("comm") and ("rcu_util" in opts or s.meta.get("mlog")):
        argv += ["-c", comp_logs(s, d, r)]
    return argv


def _set_out(argv, out):
    a = list(argv)
    a[a.index("-o") + 1] = out + "/o.json"
    return a


def malformed(r, d, kind):
    """a scenario that aborts mid-pipeline while earlier events are parked at a barrier"""
    s, inp = write_scn(r, d, ranks=1, kernels=4, host=2, zero_dur=False)
    fn = os.path.join(d, "in", list(s.files)[0])
    evs = json.load(open(fn))
    if kind == "bad_counter":          # int() fails in normalize_phase1 on a late event
        for e in reversed(evs):
            if "attr" in e and e["ph"] in ("X", "B"):
                e["attr"]["TS3"] = "zz"
                break
    elif kind == "be_mismatch":        # ingestion assertion after several events were processed
        for i in range(len(evs) - 1, 0, -1):
            if evs[i]["ph"] == "E":
                evs[i]["name"] += "_other"
                break
        else:
            evs.append({"ph": "E", "name": "x", "pid": 0, "tid": 1, "ts": 1.0})
    elif kind == "freq_contradiction":  # counters contradict host time: assertion in cycle_count_to_wallclock
        for e in evs:
            if "attr" in e and e["ph"] == "X":
                e["dur"] = e["dur"] / 4
    json.dump(evs, open(fn, "w"))
    return s, inp


def colliding_name(target_rel, r):
    """a different relative path with the same job id (crc32 % 10000) as target_rel"""
    want = zlib.crc32(target_rel.encode()) % 10000
    i = r.randrange(1 << 20)
    while True:
        n = f"in/other{i}.json"
        if n != target_rel and zlib.crc32(n.encode()) % 10000 == want:
            return n
        i += 1


_DECOY_SEARCH = r"""
import sys
first, stem = sys.argv[1], sys.argv[2]
v = str(hash(first + " Cmpt Exec") % 65535)
for i in range(3000000):
    n = f"{stem}_{i}"
    if str(hash(n + " Cmpt Exec") % 65535).endswith(v):
        print(n); break
"""


def _perf_table(rows):
    lines = ["[DeepRT] ===== Perf BEGIN =====", "====== Perf Summary ======", "~~~~ Ideal/Total Cycles ~~~~", "-" * 91,
             "Name" + " " * 76 + "Ideal Cy.", "-" * 91]
    lines += [f"{n}-opCatConv_fp16".ljust(80) + f"{c}".ljust(15) for n, c in rows]
    lines += ["-" * 91, f"Total\t\t\t\t\t\t\t\t\t\t{sum(c for _, c in rows)}", "-" * 91,
              "====== Perf Summary End ======", "[DeepRT] ===== Perf END ====="]
    return lines


def multi_table_case(work):
    """a compiler log with TWO ideal-cycle tables (two graphs of one model): the job's own, and one whose first kernel is a
    different name chosen so that - IF kernel names enter the table fingerprint through Python's seeded str hash - its
    fingerprint text matches the job's under hash seed 1 only.  Returns a failure record or None."""
    import random
    d = os.path.join(work, "mt")
    rr = random.Random(11)
    s = scenario.gen_scenario(rr, ranks=1, kernels=6, host=2, wraps=False)
    os.makedirs(os.path.join(d, "in"))
    fn = list(s.files)[0]
    json.dump(s.files[fn], open(os.path.join(d, "in", fn), "w"))
    ex = sorted((t for t in s.truth.values() if t["kind"] == "Cmpt Exec"), key=lambda t: t["start"])
    seq = [t["name"].rsplit(" Cmpt Exec", 1)[0] for t in ex]
    t_obs = float(sum(t["end"] - t["start"] for t in ex))
    core = 1100.0
    decoy = subprocess.run(["/venv/bin/python", "-c", _DECOY_SEARCH, seq[0], seq[0] + "_v"],
                           env=dict(os.environ, PYTHONHASHSEED="1"), capture_output=True, text=True,
                           timeout=300).stdout.strip()
    if not decoy:
        return None
    c_own = max(1, int(t_obs * core * 0.5 / len(seq)))
    c_other = max(1, int(t_obs * core * 0.9 / len(seq)))
    rows_own = [(n, c_own) for n in seq]
    rows_other = [(decoy, c_other)] + [(n, c_other) for n in seq[1:]]
    log_text = "\n".join(_perf_table(rows_other) + _perf_table(rows_own)) + "\n"
    open(os.path.join(d, "in", "comp.log"), "w").write(log_text)
    res = {}
    for sd in ("0", "1"):
        os.makedirs(os.path.join(d, "out_" + sd))
        rc, err = cli(d, ["-i", "in/" + fn, "-o", f"out_{sd}/o.json", "-c", "in/comp.log", "-D", "0", "--freq",
                          f"{s.freq}:{core}"], sd)
        res[sd] = (rc, canon(os.path.join(d, "out_" + sd)))
    if res["0"] != res["1"]:
        diff = [k for k in res["0"][1] if res["1"][1].get(k) != res["0"][1][k]]
        return {"input": {"files": s.files, "freq": s.freq, "opts": ["-c", "@LOG"], "log_text": log_text,
                          "variant": "seed1", "seeds": ["0", "1"], "core": core},
                "expected": "identical traceEvents and CSVs for hash seeds 0 and 1",
                "observed": {"rc": [res["0"][0], res["1"][0]], "differing_files": diff[:4]},
                "signature": {"kind": "differs_between_hash_seeds", "multi_table_compiler_log": True}}
    return None


def judge_history(d, desc, rc_fresh):
    """ORACLE of the histories.  d holds report.json (worker), snap_hist (copy of the output directory taken at the moment
    the target's run() returned in the process with the history) and out_fresh (the same run alone in a fresh process).
    Every file next to the output - exported events, CSV and TXT tables - must be there when run() returns and must be
    the one of the fresh process.  Returns "skipped" (target fails both ways) or a list of failure records."""
    fails = []
    hdesc = desc["history"]
    try:
        rep = json.load(open(os.path.join(d, "report.json")))
    except Exception:  # noqa: BLE001
        return [{"input": desc, "expected": "worker report", "observed": "history worker crashed",
                 "signature": {"kind": "history_worker_crashed"}}]
    if any(x.get("hold_at_processor", 0) != 0 for x in rep):
        fails.append({"input": desc, "expected": "empty barrier hold when the processor of a run is built",
                      "observed": rep, "signature": {"kind": "stale_barrier_hold_at_run_start"}})
    a, b = canon(os.path.join(d, "snap_hist")), canon(os.path.join(d, "out_fresh"))
    if desc.get("old_results_left"):
        # files of earlier runs that this run does not write are still there, as the user left them: not this run's
        a = {k: v for k, v in a.items() if k in b}
    if rc_fresh != 0 and rep[-1].get("rc") != 0:
        return fails or "skipped"
    if a != b or rep[-1].get("rc") != rc_fresh:
        missing = sorted(k for k in b if k not in a)
        unexpected = sorted(k for k in a if k not in b)
        diff = [k for k in b if k in a and a[k] != b[k]]
        kinds = [h["kind"] for h in hdesc]
        what = "file_missing_when_run_returns" if missing else "file_of_another_run_present" if unexpected else \
            "content_differs" if diff else "exit_code_differs"
        fails.append({"input": desc, "expected": "when run() returns, the files next to the output are those of the "
                                                 "same run in a fresh process",
                      "observed": {"missing_files": missing[:4], "unexpected_files": unexpected[:4],
                                   "differing_files": diff[:4], "report": rep, "history_kinds": kinds,
                                   "first_difference": _first_diff(a, b, diff)},
                      "signature": {"kind": "differs_after_in_process_history", "what": what,
                                    "tables": sorted({k.rsplit("_", 1)[-1] for k in missing + unexpected + diff})[:4],
                                    "after": "jobid_collision" if "jobid_collision" in kinds else
                                             ("aborted_run" if any(k in ("bad_counter", "be_mismatch", "freq_contradiction")
                                                                   for k in kinds) else "other_scenario")}})
    return fails


def run(ctx):
    r = ctx.rng
    work = tempfile.mkdtemp(prefix="c14_", dir=ctx.work)
    fails, dist = [], {"seed_pairs": 0, "intermediate_pairs": 0, "histories": 0, "aborted_runs_in_histories": 0,
                       "stale_hold_observed_before_run": 0, "jobid_collision_histories": 0, "options": {},
                       "scenario_kinds": {}, "multi_log_scenarios": 0, "summarized_multi_peer_slices": 0,
                       "histories_same_output": 0, "histories_target_multi_log": 0}
    samples = []
    nscn = ctx.pick(36, 400)
    seeds = ["0", "1", str(r.randrange(2, 1 << 30))]
    shm_dirs = []
    try:
        # ---------------- seeds and -I: CLI subprocesses
        jobs, cases = [], []
        for k in range(nscn):
            d = os.path.join(work, f"s{k}")
            # one scenario in six each: C20's communication sequences / device multicasts of 3..6 ranks (both mostly with
            # --comm_summarize_seq) ; one in nine: one compiler log per rank ; one in twelve: a torch profile
            kind = "torch" if k % 12 == 5 else "comm" if k % 6 == 1 else "mcast" if k % 6 == 3 else \
                "mlog" if k % 9 == 4 else None
            # (the flow scenarios below get 3-4 interleaved groups: several of them are still open when the input ends)
            flow_scn = kind == "mcast" and k % 12 == 3
            for _try in range(12 if flow_scn else 1):
                if _try:
                    shutil.rmtree(d, ignore_errors=True)
                s, inp = write_scn(r, d, kind=kind, **({"n_groups": r.choice([3, 4])} if flow_scn else {}))
                g = s.coll["groups"] if flow_scn else []
                # ... and the last two of them overlap in time: both are still open when the input ends
                if not flow_scn or (len(g) >= 2 and g[-1]["start_cyc"] < g[-2]["end_cyc"]):
                    break
            dist["flow_scenarios_with_open_groups_at_end"] = dist.get("flow_scenarios_with_open_groups_at_end", 0) + int(
                flow_scn and len(g) >= 2 and g[-1]["start_cyc"] < g[-2]["end_cyc"])
            opts = scn_opts(r, s)
            if kind == "mcast" and k % 12 == 3:
                # every second multicast scenario draws flow arrows, whatever the random stream says (arrows between
                # groups that are in flight together get their ids when the stages are drained: the order of that may
                # not depend on the hash seed, and -I may not lose them); nothing may filter them out again
                # (--comm_summarize_seq merges the tagged parts the arrows are drawn between: not together with it)
                opts = [o for o in opts if o not in ("--flow", "--comm_summarize_seq")]
                if "-F" in opts:
                    i = opts.index("-F")
                    del opts[i:i + 2]
                opts.append("--flow")
            dist["scenario_kinds"][str(kind)] = dist["scenario_kinds"].get(str(kind), 0) + 1
            for o in opts:
                dist["options"][o] = dist["options"].get(o, 0) + 1
            variants = [("seed" + sd, opts, sd) for sd in seeds] + [("interm", opts + ["-I"], "0")]
            for tag, oo, sd in variants:
                out = "out_" + tag
                os.makedirs(os.path.join(d, out), exist_ok=True)
                jobs.append((d, argv_for(s, inp, out, oo, d, r), sd))
            alt = None
            if "*" in inp and os.path.isdir("/dev/shm"):
                # "across environments": the same files, names and command line in a directory whose LISTING order is
                # different (a tmpfs lists in reverse creation order; the files are created in reverse name order)
                alt = tempfile.mkdtemp(prefix="c14_listing_", dir="/dev/shm")
                shm_dirs.append(alt)
                os.makedirs(os.path.join(alt, "in"))
                for fn in sorted(os.listdir(os.path.join(d, "in")), reverse=(k % 2 == 0)):
                    shutil.copy(os.path.join(d, "in", fn), os.path.join(alt, "in", fn))
                os.makedirs(os.path.join(alt, "out_listing"))
                jobs.append((alt, argv_for(s, inp, "out_listing", opts, alt, r), "0"))
                dist["listing_order_pairs"] = dist.get("listing_order_pairs", 0) + 1
            cases.append((d, s, inp, opts, alt))
        with ThreadPoolExecutor(max_workers=coqrun.JOBS) as ex:
            rcs = list(ex.map(lambda j: cli(*j), jobs))
        it = iter(rcs)
        for d, s, inp, opts, alt in cases:
            res = {}
            for tag in ["seed" + sd for sd in seeds] + ["interm"]:
                rc, err = next(it)
                res[tag] = (rc, err, canon(os.path.join(d, "out_" + tag)))
            if alt is not None:
                rc, err = next(it)
                res["listing"] = (rc, err, canon(os.path.join(alt, "out_listing")))
            base_tag = "seed" + seeds[0]
            base = res[base_tag]
            desc = {"files": s.files, "freq": s.freq, "opts": opts, "logs": s.meta.get("logs", {}),
                    "argv": argv_for(s, inp, "@OUT", opts, d, r)}
            if "," in s.meta.get("clog", ""):
                dist["multi_log_scenarios"] += 1
            dist["summarized_multi_peer_slices"] += _multi_peer(base[2]) if "--comm_summarize_seq" in opts else 0
            dist["exported_flow_arrows"] = dist.get("exported_flow_arrows", 0) + _arrows(base[2])
            if all(v[0] != 0 for v in res.values()):
                # the run fails the same way in every variant: not a C14 matter (C02 owns exit codes)
                dist["skipped_failing_scenarios"] = dist.get("skipped_failing_scenarios", 0) + 1
                continue
            for tag, (rc, err, cn) in res.items():
                if tag == base_tag:
                    continue
                kind = "differs_with_intermediate_dumps" if tag == "interm" else \
                    "differs_with_directory_listing_order" if tag == "listing" else "differs_between_hash_seeds"
                dist["intermediate_pairs" if tag == "interm" else "seed_pairs"] += (tag != "listing")
                cn_cmp = {k: v for k, v in cn.items() if "_0" not in k[:0]}   # -I writes extra o_NN_stage files: ignore
                cn_cmp = {k: v for k, v in cn.items() if k in base[2]}
                if rc != base[0] or cn_cmp != base[2]:
                    diff = [k for k in base[2] if cn_cmp.get(k) != base[2][k]]
                    fails.append({"input": dict(desc, variant=tag, seeds=seeds), "expected": "identical traceEvents and CSVs",
                                  "observed": {"rc": rc, "differing_files": diff[:4], "stderr": err[-200:]},
                                  "signature": {"kind": kind}})
            if len(samples) < 2:
                samples.append({"opts": opts, "summary": s.summary()})

        # ---------------- hash used as data (table fingerprints): one fixed two-table compiler log
        try:
            f_mt = multi_table_case(work)
            dist["multi_table_log_cases"] = 1
            if f_mt:
                fails.append(f_mt)
        except Exception as e:  # noqa: BLE001
            ctx.notes.append("multi_table_case failed to run: " + repr(e)[:200])

        # ---------------- histories: one Python process, documented API
        nh = ctx.pick(24, 300)
        plans = []
        for k in range(nh):
            d = os.path.join(work, f"h{k}")
            tname = [f"rank{i}_t{r.randrange(1000)}.json" for i in range(6)]
            # every sixth history: the target is a torch profile (another dialect than the runs before it); every fourth:
            # one compiler log per rank; every eighth each: C20's communication sequences / device multicasts
            tkind = "torch" if k % 6 == 3 else "mlog" if k % 4 == 1 else "comm" if k % 8 == 2 else \
                "mcast" if k % 8 == 6 else None
            s, inp = write_scn(r, d, names=tname, kind=tkind)
            opts = scn_opts(r, s)
            targ = argv_for(s, inp, "out_hist", opts, d, r)
            fresh = argv_for(s, inp, "out_fresh", opts, d, r)
            os.makedirs(os.path.join(d, "out_hist"), exist_ok=True)
            os.makedirs(os.path.join(d, "out_fresh"), exist_ok=True)
            # the runs of one process write to the SAME output name (what the default -o does) or each to its own
            shared = r.random() < 0.6
            # ... and with the same output name the old results are either removed first or simply left where they are
            clean = (not shared) or r.random() < 0.5
            dist["histories_same_output"] += shared
            dist["histories_old_results_left"] = dist.get("histories_old_results_left", 0) + (not clean)
            dist["histories_target_multi_log"] += "," in s.meta.get("clog", "")
            plan, hdesc = [], []
            for j in range(r.randrange(1, 4)):
                dd = os.path.join(d, f"pre{j}")
                u = r.random()
                if s.meta.get("torch") and j == 0:
                    u = 0.5                 # make sure a FLEX run with the torch target's job id comes first
                if u < 0.35:
                    kind = r.choice(["bad_counter", "be_mismatch", "freq_contradiction"])
                    s2, inp2 = malformed(r, dd, kind)
                    dist["aborted_runs_in_histories"] += 1
                elif u < 0.6:
                    # a well-formed run whose input path collides with the target's job id (different file name)
                    kind = "jobid_collision"
                    first = "in/" + list(s.files)[0]
                    s2, inp2 = write_scn(r, dd, names=[os.path.basename(colliding_name(first, r))] +
                                         [f"x{i}.json" for i in range(3)], ranks=1)
                    dist["jobid_collision_histories"] += 1
                else:
                    kind = "other_scenario"
                    s2, inp2 = write_scn(r, dd, kind=r.choice([None, None, None, "mlog", "mlog", "comm", "mcast"]))
                out2 = "../out_hist" if shared else "o"
                os.makedirs(os.path.join(dd, "o"), exist_ok=True)
                plan.append({"cwd": dd, "argv": argv_for(s2, inp2, out2, scn_opts(r, s2), dd, r),
                             "out": os.path.normpath(os.path.join(dd, out2)), "clean": clean})
                hdesc.append({"kind": kind, "files": s2.files, "freq": s2.freq, "argv": plan[-1]["argv"],
                              "logs": s2.meta.get("logs", {})})
            if r.random() < 0.15:
                # the target itself once before ("run repeatedly"), same output name
                plan.append({"cwd": d, "argv": targ, "out": os.path.join(d, "out_hist"), "clean": clean})
                hdesc.append({"kind": "same_scenario", "files": {}, "freq": s.freq, "argv": targ, "logs": {},
                              "in_target_dir": True})
            plan.append({"cwd": d, "argv": targ, "out": os.path.join(d, "out_hist"), "snap": os.path.join(d, "snap_hist"),
                         "clean": clean})
            pf = os.path.join(d, "plan.json")
            json.dump(plan, open(pf, "w"))
            plans.append((d, pf, s, opts, fresh, hdesc, (shared, clean)))
        wf = os.path.join(work, "worker.py")
        open(wf, "w").write(WORKER)

        def hist(p):
            d, pf, s, opts, fresh = p[:5]
            env = dict(os.environ, AIU_REPO=coqrun.REPO, PYTHONHASHSEED="0")
            subprocess.run(["/venv/bin/python", wf, pf, os.path.join(d, "report.json")], env=env, cwd=d,
                           stdout=subprocess.DEVNULL, stderr=subprocess.DEVNULL, timeout=600)
            rc, err = cli(d, fresh, "0")
            return rc, err
        with ThreadPoolExecutor(max_workers=coqrun.JOBS) as ex:
            hres = list(ex.map(hist, plans))
        for (d, pf, s, opts, fresh, hdesc, shared), (rc, err) in zip(plans, hres):
            dist["histories"] += 1
            desc = {"target": {"files": s.files, "freq": s.freq, "opts": opts, "logs": s.meta.get("logs", {}),
                               "argv": _set_out(fresh, "@OUT")},
                    "history": hdesc, "shared_output": shared[0], "old_results_left": not shared[1]}
            f = judge_history(d, desc, rc)
            if f == "skipped":
                dist["skipped_failing_scenarios"] = dist.get("skipped_failing_scenarios", 0) + 1
                continue
            try:
                rep = json.load(open(os.path.join(d, "report.json")))
                dist["stale_hold_observed_before_run"] += any(x["hold_before_run"] > 0 for x in rep)
            except Exception:  # noqa: BLE001
                pass
            fails += f
    finally:
        shutil.rmtree(work, ignore_errors=True)
        for sd in shm_dirs:
            shutil.rmtree(sd, ignore_errors=True)

    # ---------------- Coq-evaluated tie: real EventProcessor WITH intermediate= vs model WITHOUT the -I stages
    from props import c03
    tmp = tempfile.mkdtemp(prefix="c14i_")
    terms, gcases = [], []
    try:
        for _ in range(ctx.pick(600, 20000)):
            ln = r.randint(1, 8)
            behs = [r.choice(c03.BEHS) for _ in range(ln)]
            while behs.count("Barrier") > 3:
                behs[behs.index("Barrier")] = "Pass"
            while sum(b in ("Dup", "Expand") for b in behs) > 3:
                behs[[k for k, b in enumerate(behs) if b in ("Dup", "Expand")][0]] = "Pass"
            g = c03.assign_cells(behs, r)
            i = [r.randint(0, 9) for _ in range(r.randint(0, 10))]
            out, _log = c03.run_impl(g, i, intermediate=os.path.join(tmp, "x"))
            terms.append((c03.coq_case(g, i), enc.V(out)))
            gcases.append((g, i))
    finally:
        shutil.rmtree(tmp, ignore_errors=True)
    bad, _, secs = coqrun.run_cases("C14", "From AiuModel Require Import Pipeline C03Model C14Model.",
                                    "(list (beh * nat) * list Z)", "run_plain_val", terms)
    mism = [{"name": "correspondence: real EventProcessor with intermediate= vs model without -I stages (C14Model.run_plain_val)",
             "case": {"graph": gcases[j][0], "events": gcases[j][1]}, "impl": terms[j][1][:300]} for j in bad[:5]]
    nontriv = dist["seed_pairs"] + dist["intermediate_pairs"] + dist["histories"]
    # report one failure per distinct signature (the first of each), at most four
    shown, seen = [], set()
    for f in fails:
        key = json.dumps(f["signature"], sort_keys=True)
        dist.setdefault("failures_by_kind", {})
        dist["failures_by_kind"][f["signature"]["kind"]] = dist["failures_by_kind"].get(f["signature"]["kind"], 0) + 1
        if key not in seen and len(shown) < 4:
            seen.add(key)
            shown.append(f)
    return {
        "evaluations": dist["seed_pairs"] + dist["intermediate_pairs"] + dist["histories"] + len(terms),
        "distinct_nontrivial": nontriv,
        "rule": f"{nscn} scenarios x seeds {seeds} + -I (CLI subprocesses; kinds {dist['scenario_kinds']}) ; {dist['histories']} "
                "in-process histories of 1-3 earlier runs (other scenario / aborting scenario / job-id-colliding input / the "
                "target itself; same or own output name) followed by the target, output directory copied when run() returns "
                "and compared with a fresh process; random stage graphs with intermediate= against the model without -I "
                "stages. non-trivial = run pairs that differ in seed, -I or history (each pair is a distinct generated scenario)",
        "samples": samples + [{"history_kinds": [h["kind"] for h in plans[0][5]]}] if plans else samples,
        "mismatches": mism, "oracle_failures": shown,
        "ties": [{"name": "intermediate= on the real EventProcessor = model without -I stages", "cases": len(terms),
                  "mismatching": len(bad), "coq_seconds": round(secs, 1)}],
        "distribution": dist, "traces_validated_against_impl": len(terms),
    }


def _arrows(cn):
    """how many flow arrows (ph s) a run exported (coverage figure only)"""
    n = 0
    for fn, text in cn.items():
        if fn.endswith(".json") and text.startswith("["):
            n += sum(1 for e in json.loads(text) if isinstance(e, dict) and e.get("ph") == "s")
    return n


def _multi_peer(cn):
    """how many exported slices list two or more peers (coverage figure only)"""
    n = 0
    for fn, text in cn.items():
        if fn.endswith(".json") and text.startswith("["):
            for e in json.loads(text):
                p = (e.get("args") or {}).get("Peers") if isinstance(e, dict) else None
                n += isinstance(p, list) and len(p) >= 2
    return n


def _first_diff(a, b, diff):
    for k in diff:
        if k.endswith(".json") and k in a and k in b:
            try:
                ea, eb = json.loads(a[k]), json.loads(b[k])
                for x, y in zip(ea, eb):
                    if x != y:
                        return {"file": k, "history_run": x, "fresh_run": y}
                return {"file": k, "lengths": [len(ea), len(eb)]}
            except Exception:  # noqa: BLE001
                pass
    return None


def _materialise(d, files):
    os.makedirs(os.path.join(d, "in"), exist_ok=True)
    for fn, evs in files.items():
        os.makedirs(os.path.dirname(os.path.join(d, "in", fn)), exist_ok=True)
        json.dump(evs, open(os.path.join(d, "in", fn), "w"))
    return ",".join("in/" + fn for fn in files)


def replay(ctx, payload):
    f = payload.get("failing")
    if not f:
        return True, "replay file names only broken obligations: " + str(payload.get("broken"))[:500]
    kind = f["signature"]["kind"]
    work = tempfile.mkdtemp(prefix="c14r_")
    try:
        if kind in ("differs_after_in_process_history", "stale_barrier_hold_at_run_start"):
            t = f["input"]["target"]
            d = os.path.join(work, "t")
            _materialise(d, t["files"])
            _write_logs(d, t.get("logs", {}))
            plan = []
            for j, h in enumerate(f["input"]["history"]):
                dd = d if h.get("in_target_dir") else os.path.join(d, f"pre{j}")
                _materialise(dd, h["files"])
                _write_logs(dd, h.get("logs", {}))
                os.makedirs(os.path.join(dd, "o"), exist_ok=True)
                out = h["argv"][h["argv"].index("-o") + 1]
                plan.append({"cwd": dd, "argv": h["argv"], "out": os.path.normpath(os.path.join(dd, os.path.dirname(out))),
                             "clean": not f["input"].get("old_results_left")})
            for o in ("out_hist", "out_fresh"):
                os.makedirs(os.path.join(d, o), exist_ok=True)
            plan.append({"cwd": d, "argv": _set_out(t["argv"], "out_hist"), "out": os.path.join(d, "out_hist"),
                         "snap": os.path.join(d, "snap_hist"), "clean": not f["input"].get("old_results_left")})
            json.dump(plan, open(os.path.join(d, "plan.json"), "w"))
            open(os.path.join(work, "worker.py"), "w").write(WORKER)
            env = dict(os.environ, AIU_REPO=coqrun.REPO, PYTHONHASHSEED="0")
            subprocess.run(["/venv/bin/python", os.path.join(work, "worker.py"), os.path.join(d, "plan.json"),
                            os.path.join(d, "report.json")], env=env, cwd=d, stdout=subprocess.DEVNULL,
                           stderr=subprocess.DEVNULL, timeout=600)
            rc, _err = cli(d, _set_out(t["argv"], "out_fresh"), "0")
            res = judge_history(d, f["input"], rc)
            if res == "skipped":
                return True, "the target fails in the fresh process and after the history alike"
            return not res, [x["observed"] if isinstance(x["observed"], str) else
                             {k: v for k, v in x["observed"].items() if k != "report"} if isinstance(x["observed"], dict)
                             else "stale barrier hold" for x in res]
        else:
            t = f["input"]
            d = os.path.join(work, "t")
            inp = _materialise(d, t["files"])
            _write_logs(d, t.get("logs", {}))
            if "argv" in t:
                base = list(t["argv"])
            else:           # the fixed two-table compiler log case
                base = ["-i", inp, "--freq", f"{t['freq']}:{t.get('core', 1100.0)}", "-D", "0", "-o", "@OUT/o.json"] + \
                    list(t["opts"])
                if "@LOG" in base:
                    open(os.path.join(d, "in", "comp.log"), "w").write(t["log_text"])
                    base[base.index("@LOG")] = "in/comp.log"
            outs = {}
            variants = [("a", [], t.get("seeds", ["0", "1"])[0])]
            if kind == "differs_with_intermediate_dumps":
                variants.append(("b", ["-I"], variants[0][2]))
            else:
                variants += [("b" + sd, [], sd) for sd in t.get("seeds", ["0", "1"])[1:]]
            for tag, extra, sd in variants:
                os.makedirs(os.path.join(d, "out_" + tag), exist_ok=True)
                cli(d, _set_out(base, "out_" + tag) + extra, sd)
                outs[tag] = canon(os.path.join(d, "out_" + tag))
            a = outs["a"]
            ok = all({k: v for k, v in o.items() if k in a} == a for o in outs.values())
            return ok, {"variants": list(outs)}
    finally:
        shutil.rmtree(work, ignore_errors=True)


def search(ctx, res, broken):
    return []
