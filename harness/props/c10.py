"""C10 — the 'Power' counter is the energy-conserving derivative of the charge counter (default power_ts4 path).

Tie (two correspondences, both compared inside Coq with Power.model_val):
  * mini-pipeline: the stages registered by the REAL Acelyzer.register_processing_functions between
    extract_power_event and compute_power (callbacks + contexts exactly as registered) are put on a real
    EventProcessor/Engine and fed generated device slices; everything that leaves compute_power is recorded;
  * compute_power alone on hand-made helper counters (all sequences over a small alphabet + random ones):
    zero readings, equal times, Prep categories, wraps, unsorted times (OverflowError).
Oracle: the property stated directly in Python with Fractions (valid samples of a rank -> 12 V * dQ mod 2^32 / 512 / dt,
clamp > 100 -> 0, never negative, time order, energy against the generator's un-wrapped charge), evaluated on the
implementation's output; on an exact grid it demands equality, on the off-grid stream a relative tolerance of 1e-9.
A third, oracle-only stream runs the whole tool (Acelyzer API) on generated FLEX files; part of it mixes the four
phases of a device job (DmaI / Cmpt Prep / Cmpt Exec / DmaO slices, each reported by the host over its own phase, 1-2
ranks in separate files) with names as data (text after a DMA keyword), arbitrary TS1..TS5 layouts, phases below the
0.1 us cut-off inside long TS1..TS5 spans and zero readings; there the counter must sit at the absolute host time of
TS4. The same ranks also carry "other" device slices (TS1..TS5 + Power, a name with none of the four phase keywords:
FLEX activities that are neither DMA nor compute, collectives, plain names), reported by the host over their whole
TS1..TS5 span, on the lane of the phases or on their own; every phase scenario is additionally driven at stage
level (the registered tighten_hts_by_instr_type + power block on the real EventProcessor, same oracle).
Options the result may not depend on: the log level (-D 0..4) is drawn per case in all three streams (the model has
no such input, so a dependence shows in the tie as well as in the oracle). Size: long series (2500..6000 samples of a
rank, most on its first lane, a few on further lanes that are early / anywhere / late in time) go through the
registered stages and through the whole tool; the shortest also through the model.
"""
import contextlib
import copy
import glob
import io
import itertools
import json
import os
import random
import shutil
import tempfile
import time
from fractions import Fraction

from common import coqrun, enc

ID = "C10"
PROP_FILE = "props/C10.v"
MODEL_TARGETS = ["theories/Power.vo", "theories/Tables_C10.vo"]      # the tie needs only the model, also when a proof breaks
THEOREMS = ["C10_pipeline", "C10_values", "C10_bounds", "C10_time_order", "C10_energy", "C10_energy_wrap",
            "C10_equal_readings_zero"]
ALLOWED_AXIOMS = []
MANIFEST = {
    "text": "Proof. Coq theorems over an executable model of extract_power_event -> sort_events(TS_cycles) -> "
            "compute_power run by the Pipeline.run model of EventProcessor/Engine, for every list of device slices "
            "(any number of ranks, any stream order, any readings in [0,2^32), zero readings, equal TS4 times, "
            "sub-cut-off slices, Prep slices; no size bound): the exported stream is the input slices followed, rank "
            "by rank, by exactly one Power event per consecutive pair of valid samples with value "
            "clamp(12*((Q'-Q) mod 2^32)/512/(t'-t)) at time t (C10_pipeline, C10_values); values lie in [0,100] and "
            "OverflowError is never raised (C10_bounds); a rank's events are strictly time-ordered (C10_time_order); "
            "when no clamp fires sum P_i*dt_i = 12/512 * sum dQ_i mod 2^32 (C10_energy) = 12/512 * (U_last-U_first) "
            "for any un-wrapped monotone charge with steps < 2^32 (C10_energy_wrap). The model is tied to the code "
            "on every run by a correspondence over generated slice streams (real registered stages on the real "
            "EventProcessor) and over all short helper-counter sequences fed to compute_power.",
    "note": "Trusted: Coq kernel + vm_compute; the hand-written model Power.v is tied by differential testing only; "
            "constants 12, 1/512, 100 and the double 0.1 are written in Power.v (a change is caught by the tie, not by "
            "a translator); hash(pid)/hash((pid,0)) assumed injective on the non-negative pids in use; float "
            "arithmetic is compared exactly on a dyadic grid and within 1e-9 off-grid (oracle only). power_ts3, "
            "skip_events=True (modelled and tied, no theorem), and the position of the power block inside the full "
            "pipeline (C16) are outside the theorems. Print Assumptions: closed under the global context.",
    "technique": "Coq proof (induction over the sample list; Pipeline.stream_compose for the stage composition) + "
                 "vm_compute correspondence against the real registered stages + independent Python oracle",
    "design_ref": "DESIGN.md section 4/C10, section 6/F6 (fixed by b68e6f2)",
}
TRUSTED = [
    "modelled, not verified: IEEE double arithmetic of compute_delta (exact on the generated dyadic grid; off-grid "
    "compared by the oracle within 1e-9), Python dict insertion order, list.sort stability, re.search of the literal "
    "' Prep' and the `in` substring tests (re-implemented by Power.contains)",
    "hash(pid) and hash((pid, 0)) are injective on the pids of the tie (small non-negative integers)",
    "the power constants (12 V, 1/512, 100 W, cut-off 0.1 us) are hand-copied into Power.v; the tie detects a change",
]
ASSUMPTIONS = [
    "default counter selection (power_ts4), skip_events off for the theorems and the oracle",
    "the log level (-D 0..4) is not an input of the model: the Power counter must be the same at every level",
    "charge readings are integers in [0, 2^32); a reading of exactly 0 is 'no reading' (the code skips it)",
    "device slices reach extract_power_event as X (or b) events carrying args.Power, args.ts_all and dur",
    "events of one rank share a pid; helper counters carry no tid",
    "incoming events are not themselves counters named 'Power' or events carrying TS_cycles (the tool's input has none)",
    "end to end: the phase of a device slice is the keyword its name contains (' DmaI', ' Cmpt Prep', ' Cmpt Exec', "
    "' DmaO'); text may follow a DMA keyword, a name with ' Cmpt Exec' / ' Cmpt Prep' in the middle is outside the "
    "tool's name domain (DESIGN 8.7); the host reports a slice over its own phase, consistently with the counter",
    "end to end: a device slice whose name has none of the four keywords is reported by the host over TS1..TS5 (its "
    "start at TS1); names on which event_categorizer aborts for a device slice ('Flex RoundTrip', 'PrepareAndSyncRdma', "
    "'DmaIn ...', 'Cmpt Execute ...': 'Flex and generic classificaton diff') are outside the tool's name domain",
]

W32 = 2 ** 32
NAMES_OK = ["k Cmpt Exec", "mm Cmpt Exec", "k DmaI", "k DmaO", "AllReduce_all_reduce", "Prepare x", "conv",
            "w DmaI [chunk 2]", "t DmaO (copy)", "s DmaO_1"]        # (names are data: the keyword need not end the name)
NAMES_PREP = ["k Cmpt Prep", "a Prepare"]
PIDS = [0, 1, 2, 3, 7, 12]
GRID = Fraction(1, 1024)


# ---------------------------------------------------------------- implementation drivers
class _Rec:
    def __init__(self):
        self.stages = []

    def register_stage(self, callback, context=None, **kw):
        self.stages.append((callback, context, kw))


_QUIET = io.StringIO()


@contextlib.contextmanager
def quiet():
    _QUIET.seek(0)
    _QUIET.truncate()
    with contextlib.redirect_stdout(_QUIET), contextlib.redirect_stderr(_QUIET):
        yield


LOGLEVELS = [0, 1, 2, 3, 4]             # -D: ERROR, WARNING, INFO (the CLI default), DEBUG, TRACE


def registered_power_stages(skip, loglevel=0, freq=None):
    """(callback, context, kwargs) of everything the real registration puts from extract_power_event up to and
    including compute_power, with fresh contexts. The log level is the one of the run (-D): it is an option the
    Power counter may not depend on, so the model has no such input. With `freq` (--freq) the registered stage that
    writes the wall-clock times of TS1..TS5 (args.ts_all, tighten_hts_by_instr_type) is put in front."""
    from aiu_trace_analyzer.core.acelyzer import Acelyzer
    import aiu_trace_analyzer.logger as aiulog
    argv = ["-i", "/nonexistent/c10.json", "-o", "/nonexistent/c10_out.json", "-D", str(loglevel)]
    if skip:
        argv.append("--skip_events")
    if freq is not None:
        argv += ["--freq", str(freq)]
    a = Acelyzer(argv)
    aiulog.loglevel = loglevel          # (what Acelyzer.__init__ does with -D; stated here for the stage-level drive)
    r = _Rec()
    a.register_processing_functions(r, a.args, None)
    names = [s[0].__name__ for s in r.stages]
    i0, i1 = names.index("extract_power_event"), names.index("compute_power")
    if i1 < i0:
        raise RuntimeError("compute_power registered before extract_power_event")
    if freq is not None:
        it = names.index("tighten_hts_by_instr_type")
        if it > i0:
            raise RuntimeError("tighten_hts_by_instr_type registered after extract_power_event")
        return [r.stages[it]] + r.stages[i0:i1 + 1]
    return r.stages[i0:i1 + 1]


def slice_event(s):
    """generator description -> the dict the power block receives"""
    if s["ph"] == "C":
        return {"ph": "C", "name": s["name"], "pid": s["pid"], "ts": s["ts4"], "args": {"uid": s["id"], "n": 1}}
    e = {"ph": s["ph"], "ts": s["ts3"], "pid": s["pid"], "tid": s.get("tid", 3), "name": s["name"]}
    if s["ph"] in ("X", "b"):
        e["dur"] = s["dur"]
    if s["has"] != "noargs":
        a = {"uid": s["id"]}
        if s["has"] != "nopower":
            a["Power"] = str(s["charge"]) if s.get("as_str") else s["charge"]
        if s["has"] != "notsall":
            a["ts_all"] = [s["ts3"], s["ts3"], s["ts3"], s["ts4"], s["ts4"]]
        e["args"] = a
    else:
        e["uid"] = s["id"]
    return e


def counter_event(c):
    return {"ph": "C", "name": "Power", "pid": c["pid"], "cat": c["cat"], "ts": c["ts"], "TS_cycles": c["key"],
            "args": {"Watts": float(c["q"])}}


def obs(e):
    """canonical observation of one event that left compute_power"""
    if not isinstance(e, dict):
        return ["?", repr(e)[:80]]
    a = e.get("args") if isinstance(e.get("args"), dict) else {}
    if e.get("ph") == "C" and "Watts" in a:
        w = a.get("Watts")
        if isinstance(w, bool) or not isinstance(w, (int, float)):
            w = repr(w)
        if "TS_cycles" in e:
            return [1, e.get("pid"), e.get("cat"), e.get("ts"), e.get("TS_cycles"), w]
        return [2, e.get("pid"), e.get("ts"), w, e.get("name"), e.get("cat")]
    uid = a.get("uid", e.get("uid"))
    return [0, uid]


def run_pipeline(skip, slices, loglevel=0):
    """Real EventProcessor + Engine over the really registered power stages; returns the recorded stream or Err."""
    with quiet():           # (the try is inside: what an exception keeps alive is released, and may log, in here)
        try:
            return _run_pipeline(skip, slices, loglevel)
        except Exception as e:  # noqa: BLE001
            return enc.Err(type(e).__name__)
        finally:
            _reset_loglevel()


def _reset_loglevel():
    try:
        import aiu_trace_analyzer.logger as aiulog
        aiulog.loglevel = 0
    except Exception:  # noqa: BLE001
        pass


def _run_pipeline(skip, slices, loglevel=0):
    return _drive(registered_power_stages(skip, loglevel), [slice_event(s) for s in slices])


def _drive(stages, events):
    import aiu_trace_analyzer.core.processing as processing
    import aiu_trace_analyzer.core.engine as engine
    from aiu_trace_analyzer.core.stage_profile import StageProfile
    out = []

    def c10_tap(event, _ctx):
        out.append(obs(copy.deepcopy(event)))
        return []
    names = [{cb.__name__: True} for cb, _, _ in stages] + [{"c10_tap": True}, {"zz_never_registered": True}]
    prof = StageProfile({"stages": [dict(d) for d in names]}, {"stages": [dict(d) for d in names]})
    proc = processing.EventProcessor(profile=prof)
    for cb, cx, kw in stages:
        proc.register_stage(callback=cb, context=cx, **kw)
    proc.register_stage(callback=c10_tap, context=None)

    class Exp:
        def export(self, evs):
            assert not evs

        def flush(self):
            pass
    rc = engine.Engine(events, proc, Exp()).run()
    assert rc == 0
    return out


def stage_slices(sc):
    """the device slices of a phase scenario as the X events that reach the time-conversion stage: host start and
    duration of the B/E pair, TS1..TS5 and Power as numbers in args; rank by rank"""
    evs = []
    for j, f in enumerate(sc["files"]):
        for k, (b, e) in enumerate(zip(f[0::2], f[1::2])):
            assert b["ph"] == "B" and e["ph"] == "E" and b["name"] == e["name"]
            args = {key: int(v, 16) for key, v in b["attr"].items()}
            args["uid"] = j * 100000 + k
            evs.append({"ph": "X", "ts": b["ts"], "dur": e["ts"] - b["ts"], "pid": b["pid"], "tid": b["tid"],
                        "name": b["name"], "args": args})
    return evs


def run_stage_phase(sc):
    """stage-level drive of a phase scenario: the registered tighten_hts_by_instr_type + power block on the real
    EventProcessor; returns ({pid: [(ts, watts)]}, error)"""
    with quiet():
        try:
            out = _drive(registered_power_stages(False, sc.get("loglevel", 0), freq=sc["freq"]), stage_slices(sc))
        except Exception as e:  # noqa: BLE001
            return None, type(e).__name__ + ": " + str(e)[:200]
        finally:
            _reset_loglevel()
    got = {}
    for o in out:
        if o[0] == 2:
            got.setdefault(str(o[1]), []).append((o[2], o[3]))
    return got, None


def run_compute(skip, counters, loglevel=0):
    """compute_power (registered callback + its registered context) fed directly"""
    with quiet():
        try:
            cb, cx, kw = registered_power_stages(skip, loglevel)[-1]
            out = []
            for c in counters:
                r = cb(counter_event(c), cx, **kw) if kw else cb(counter_event(c), cx)
                out += [obs(copy.deepcopy(x)) for x in r]
            out += [obs(x) for x in cx.drain()]
            return out
        except Exception as e:  # noqa: BLE001
            return enc.Err(type(e).__name__)
        finally:
            _reset_loglevel()


# ---------------------------------------------------------------- oracle (the property, stated independently)
def sampled(s):
    return (s["ph"] in ("X", "b") and " Prep" not in s["name"] and s["has"] == "full" and not s["dur"] <= 0.1)


def valid_samples(samples):
    """samples: (t, q) in stream order -> time-ordered, zero readings dropped, first of each time"""
    srt = sorted(samples, key=lambda x: x[0])           # stable
    nz = [x for x in srt if x[1] != 0]
    out = []
    for x in nz:
        if out and out[-1][0] == x[0]:
            continue
        out.append(x)
    return out


def expected_power(valid):
    res = []
    for (ta, qa), (tb, qb) in zip(valid, valid[1:]):
        w = Fraction(12) * ((qb - qa) % W32) / 512 / (Fraction(tb) - Fraction(ta))
        res.append((ta, Fraction(0) if w > 100 else w, w))
    return res


def close(a, b, exact):
    a, b = Fraction(a), Fraction(b)
    if exact and Fraction(float(a)) == a:      # the expected value is a double: demand it bit for bit
        return a == b
    return abs(a - b) <= Fraction(1, 10 ** 9) * max(abs(a), abs(b), Fraction(1, 10 ** 6))


def oracle_series(per_pid_samples, observed, exact, truth=None):
    """per_pid_samples: {pid: [(t, q) in stream order]}; observed: {pid: [(ts, watts)] in emission order}.
    Returns a list of failures (dicts with kind + discriminating facts)."""
    fails = []
    for pid in sorted(set(per_pid_samples) | set(observed)):
        valid = valid_samples(per_pid_samples.get(pid, []))
        exp = expected_power(valid)
        got = observed.get(pid, [])
        for (_, w) in got:
            if not isinstance(w, (int, float)) or w < 0:
                fails.append({"kind": "negative_or_non_numeric_power", "pid": pid, "value": repr(w)})
            elif w > 100:
                fails.append({"kind": "power_above_100_not_zeroed", "pid": pid, "value": repr(w)})
        ts = [t for t, _ in got]
        if any(not a < b for a, b in zip(ts, ts[1:])):
            fails.append({"kind": "rank_samples_not_in_time_order", "pid": pid})
        if len(got) != len(exp):
            fails.append({"kind": "sample_count", "pid": pid, "expected_n": len(exp), "observed_n": len(got),
                          "valid_samples": len(valid)})
            continue
        for i, ((te, we, raw), (tg, wg)) in enumerate(zip(exp, got)):
            if Fraction(te) != Fraction(tg):
                fails.append({"kind": "sample_time", "pid": pid, "index": i})
                break
            ambiguous = (not exact) and close(raw, 100, False)
            if isinstance(wg, (int, float)) and not close(we, wg, exact) and not ambiguous:
                (ta, qa), (tb, qb) = valid[i], valid[i + 1]
                fails.append({"kind": "power_value", "pid": pid, "index": i, "wrap": qb < qa,
                              "equal_readings": qa == qb, "expected_clamped": raw > 100,
                              "observed_zero": wg == 0, "expected": str(we), "observed": repr(wg)})
                break
        else:
            # energy: sum P*dt against the generator's un-wrapped charge, when nothing was clamped
            if truth and pid in truth and len(valid) >= 2 and all(raw <= 100 for _, _, raw in exp):
                e_obs = sum(Fraction(wg) * (Fraction(valid[i + 1][0]) - Fraction(valid[i][0]))
                            for i, (_, wg) in enumerate(got) if isinstance(wg, (int, float)))
                e_true = Fraction(12, 512) * (truth[pid][1] - truth[pid][0])
                if not close(e_obs, e_true, exact):
                    fails.append({"kind": "energy", "pid": pid, "expected": str(e_true), "observed": str(e_obs)})
    return fails


def oracle_pipeline(case, out):
    """case: mode-0 case description; out: recorded stream or Err"""
    if isinstance(out, enc.Err):
        return [{"kind": "exception", "type": out.tag}]
    fails = []
    ids_in = [s["id"] for s in case["slices"]]
    ids_out = [o[1] for o in out if o[0] == 0]
    if sorted(ids_in) != sorted(ids_out):      # (their relative order is not part of C10; the tie compares it)
        fails.append({"kind": "incoming_event_lost_or_duplicated"})
    if any(o[0] == 1 for o in out):
        fails.append({"kind": "helper_counter_leaked"})
    if any(o[0] == 2 and (o[4] != "Power" or o[5] != "Power4") for o in out):
        fails.append({"kind": "power_event_name_or_cat"})
    if any(o[0] not in (0, 1, 2) for o in out):
        fails.append({"kind": "unknown_event"})
    samples, observed = {}, {}
    for s in case["slices"]:
        if sampled(s):
            samples.setdefault(s["pid"], []).append((s["ts4"], s["charge"]))
    for o in out:
        if o[0] == 2:
            observed.setdefault(o[1], []).append((o[2], o[3]))
    truth = {int(k): v for k, v in (case.get("truth") or {}).items()}
    return fails + oracle_series(samples, observed, case.get("exact", True), truth)


def in_domain_counters(case):
    """mode-1 case inside the property's domain: per pid non-decreasing times, no Prep category"""
    last = {}
    for c in case["counters"]:
        if " Prep" in c["cat"] or c["key"] != c["ts"]:
            return False
        if c["pid"] in last and c["key"] < last[c["pid"]]:
            return False
        last[c["pid"]] = c["key"]
    return True


def oracle_compute(case, out):
    if not in_domain_counters(case):
        return []
    if isinstance(out, enc.Err):
        return [{"kind": "exception", "type": out.tag}]
    samples, observed = {}, {}
    for c in case["counters"]:
        samples.setdefault(c["pid"], []).append((c["key"], c["q"]))
    for o in out:
        if o[0] == 2:
            observed.setdefault(o[1], []).append((o[2], o[3]))
    return oracle_series(samples, observed, True)


def run_case(case):
    if case["mode"] == 0:
        return run_pipeline(case["skip"], case["slices"], case.get("loglevel", 0))
    return run_compute(case["skip"], case["counters"], case.get("loglevel", 0))


def oracle(case, out):
    if case["skip"]:
        return []
    return oracle_pipeline(case, out) if case["mode"] == 0 else oracle_compute(case, out)


# ---------------------------------------------------------------- generators
def fl(x):
    """Fraction on the grid -> float (exact)"""
    f = float(x)
    assert Fraction(f) == x, x
    return f


KINDS = ["normal"] * 6 + ["equal", "equal_long", "exact100", "above100", "over", "wrap", "tiny_dt"]
KINDS_PLAUSIBLE = ["normal"] * 8 + ["equal", "equal_long", "exact100", "wrap"]      # never above 100 W: energy is checked


def gen_chain(r, offgrid=False, n=None, kinds=KINDS):
    """time-ordered valid samples of one rank: [(t, U)] with U the un-wrapped charge; on the grid every quotient
    12*dQ/512/dt of consecutive samples is a dyadic rational (exact in double arithmetic)."""
    if n is None:
        n = r.choice([0, 1, 2, 2, 3, 3, 4, 5, 6, 8])
    t = Fraction(r.randint(0, 2 ** 24), 1024) if not offgrid else Fraction(round(r.uniform(0, 1e7), 3)).limit_denominator(1000)
    if not offgrid and r.random() < 0.25:
        # epoch-scale host time as recorded in the field (~2^40..2^41 us): still exact on the 2^-10 us grid, and
        # neighbouring samples a few us apart differ by ~1e-12 relative
        t += 2 ** 40 + r.randint(0, 2 ** 40 - 2 ** 26)
    start = r.choice(["any", "any", "near_wrap", "small"])
    if start == "near_wrap":
        u = r.randint(1, 4) * W32 - r.randint(1, 50000)
    elif start == "small":
        u = r.randint(1, 1000)
    else:
        u = r.randint(1, W32 - 1) + r.randint(0, 3) * W32
    if u % W32 == 0:
        u += 1
    chain = [(t, u)] if n else []
    for _ in range(max(0, n - 1)):
        kind = r.choice(kinds)
        if offgrid:
            dt = Fraction(round(r.uniform(0.2, 5000.0), 3)).limit_denominator(1000)
            if kind == "equal_long":
                dt = Fraction(round(r.uniform(1.1e6, 4e6), 3)).limit_denominator(1000)
            dq = 0 if kind in ("equal", "equal_long") else int(r.uniform(0, 1.3) * 4266 * float(dt))
            if kind == "wrap":
                dq = max(dq, W32 - (u % W32) + r.randint(0, 1000))
        else:
            m = r.choice([1, 1, 1, 3, 5, 7, 9, 15, 25])
            a = r.randint(-6, 12)
            if kind == "tiny_dt":
                a = r.randint(-10, -7)
            dt = Fraction(m) * Fraction(2) ** a
            rmax = max(1, int(Fraction(100 * 512, 12) * Fraction(2) ** a))
            if kind in ("equal", "equal_long"):
                dq = 0
                if kind == "equal_long":
                    dt = Fraction(2) ** r.randint(20, 22)
            elif kind == "exact100":
                a = r.randint(0, 8)
                dt, dq = Fraction(3 * 2 ** a), 12800 * 2 ** a
            elif kind == "above100":
                a = r.randint(0, 8)
                dt, dq = Fraction(3 * 2 ** a), 12800 * 2 ** a + 3
            elif kind == "over":
                dq = m * r.randint(rmax + 1, 3 * rmax + 5)
            elif kind == "wrap":
                need = W32 - (u % W32)
                rr = -(-need // m) + r.randint(0, 20)
                dq = m * rr
                if rr > rmax:       # keep the wrap visible (<= 100 W): stretch dt by a power of two
                    k = 0
                    while (rmax << k) < rr and k < 30:
                        k += 1
                    dt = dt * 2 ** k
            else:
                dq = m * r.randint(0, rmax)
        if dq >= W32:               # a step is < 2^32; stay a multiple of the odd part of dt
            dq = (W32 - 1) if offgrid else ((W32 - 1) // m) * m
        if (u + dq) % W32 == 0:     # a reading of exactly 0 would not be a valid sample: stay on the previous value
            dq = 0
        t, u = t + dt, u + dq
        chain.append((t, u))
    return chain


def gen_pipeline_case(r, skip=False, offgrid=False):
    conv = (lambda x: float(x)) if offgrid else fl
    npid = r.choice([1, 1, 2, 2, 3])
    pids = r.sample(PIDS, npid)
    per, truth, nid = [], {}, [0]

    def new_id():
        nid[0] += 1
        return nid[0]
    for pid in pids:
        if skip:
            # uniform regime (skip_events merges pairs): times on a lattice t0 + i*2^a with i <= 10, readings in one
            # residue class mod 315 and below 2^31, so that every quotient the code may form is exact or > 100 W
            a = r.randint(-4, 8)
            t0, c0 = Fraction(r.randint(0, 2 ** 16)), r.randint(1, 314)
            idx = sorted(r.sample(range(11), r.randint(0, 8)))
            ks = sorted(r.randint(0, 3000) for _ in idx)
            chain = [(t0 + i * Fraction(2) ** a, c0 + 315 * k) for i, k in zip(idx, ks)]
        else:
            chain = gen_chain(r, offgrid)
        items = []
        for (t, u) in chain:
            d = Fraction(r.randint(0, 4096), 1024)
            dur = r.choice([Fraction(1, 2), Fraction(3), Fraction(103, 1024), Fraction(r.randint(110, 90000), 1024)])
            items.append({"id": new_id(), "pid": pid, "ph": "X" if r.random() < 0.93 else "b",
                          "name": r.choice(NAMES_OK), "has": "full", "dur": conv(dur), "ts3": conv(max(t - d, 0)),
                          "ts4": conv(t), "charge": u % W32, "as_str": r.random() < 0.2, "_valid": True})
        if len(chain) >= 2:
            truth[pid] = [chain[0][1], chain[-1][1]]
        # invalid neighbours
        lo = chain[0][0] if chain else Fraction(1000)
        hi = chain[-1][0] if chain else Fraction(2000)
        for _ in range(r.choice([0, 0, 1, 2, 3])):
            kind = r.choice(["zero", "dup", "short", "short_eq", "prep", "nopower", "notsall", "noargs", "other"])
            t = lo + Fraction(r.randint(-2048, int((hi - lo) * 1024) + 2048), 1024)
            if r.random() < 0.4 and chain:
                t = r.choice(chain)[0]
            t = max(t, Fraction(0))
            base = {"id": new_id(), "pid": pid, "ph": "X", "name": r.choice(NAMES_OK), "has": "full",
                    "dur": conv(Fraction(2)), "ts3": conv(max(t - 1, 0)), "ts4": conv(t),
                    "charge": r.randint(1, W32 - 1), "as_str": False}
            if kind == "zero":
                base["charge"] = 0
            elif kind == "dup":
                if not chain:
                    continue
                base["ts4"] = conv(r.choice(chain)[0])
                base["ts3"] = base["ts4"]
                base["_dup"] = True
            elif kind == "short":
                base["dur"] = r.choice([0.0625, 0.099609375, 0.0, 0.09])
            elif kind == "short_eq":
                base["dur"] = 0.1
            elif kind == "prep":
                base["name"] = r.choice(NAMES_PREP)
            elif kind in ("nopower", "notsall", "noargs"):
                base["has"] = kind
            else:
                base["ph"] = r.choice(["i", "M", "C"])
                base["name"] = "ConcurrentPreps" if base["ph"] == "C" else r.choice(NAMES_OK)
                base["has"] = "noargs" if base["ph"] != "C" else "full"
            if skip:
                base["ts4"] = conv(t0 + r.randint(0, 10) * Fraction(2) ** a) if not base.get("_dup") else base["ts4"]
                base["ts3"] = base["ts4"]
                if base["charge"]:
                    base["charge"] = c0 + 315 * r.randint(0, 3000)
            items.append(base)
        # stream order of this rank: mostly time order, sometimes perturbed
        valid = [x for x in items if x.get("_valid")]
        rest = [x for x in items if not x.get("_valid")]
        mode = r.choice(["time", "time", "swap", "shuffle", "reverse"])
        if mode == "swap" and len(valid) >= 2:
            i = r.randrange(len(valid) - 1)
            valid[i], valid[i + 1] = valid[i + 1], valid[i]
        elif mode == "shuffle":
            r.shuffle(valid)
        elif mode == "reverse":
            valid.reverse()
        seq = list(valid)
        for x in rest:
            if x.get("_dup"):
                # an equal-time duplicate must come after the sample it duplicates (the first one in stream order
                # is the valid one, and only valid pairs are guaranteed to divide exactly)
                k = max(i for i, y in enumerate(seq) if y.get("_valid") and y["ts4"] == x["ts4"])
                seq.insert(r.randint(k + 1, len(seq)), x)
            else:
                seq.insert(r.randint(0, len(seq)), x)
        per.append(seq)
    # interleave the ranks
    slices = []
    while any(per):
        q = r.choice([p for p in per if p])
        slices.append(q.pop(0))
    for s in slices:
        s.pop("_valid", None)
        s.pop("_dup", None)
    return {"mode": 0, "skip": skip, "exact": not offgrid, "slices": slices, "truth": truth,
            "loglevel": r.choice(LOGLEVELS)}


def gen_long_case(r, n, loglevel=0):
    """size: one rank with a long power series (n valid samples) spread over several lanes (tids). The stream is lane
    by lane (what the per-lane sorter in front of the power block delivers): the first lane carries most of the
    samples, the further lanes carry few samples that lie early / anywhere / late in the time range of the first
    one. A second, short rank may be interleaved. Half of the cases never exceed 100 W, so that the energy of the
    whole series is compared with the charge delivered."""
    plausible = r.random() < 0.5
    pids = r.sample(PIDS, r.choice([1, 1, 2]))
    nid = [0]

    def item(pid, tid, t, u):
        nid[0] += 1
        d = Fraction(r.randint(0, 4096), 1024)
        dur = r.choice([Fraction(1, 2), Fraction(3), Fraction(r.randint(110, 90000), 1024)])
        return {"id": nid[0], "pid": pid, "tid": tid, "ph": "X", "name": r.choice(NAMES_OK), "has": "full",
                "dur": fl(dur), "ts3": fl(max(t - d, 0)), "ts4": fl(t), "charge": u % W32, "as_str": False}
    chain = gen_chain(r, n=n, kinds=KINDS_PLAUSIBLE if plausible else KINDS)
    truth = {pids[0]: [chain[0][1], chain[-1][1]]}
    nlanes = r.choice([1, 2, 2, 3, 4])
    lane_of = [0] * len(chain)
    for ln in range(1, nlanes):
        where = r.choice(["early", "early", "anywhere", "late"])
        lo, hi = {"early": (1, min(len(chain), 1000)), "anywhere": (1, len(chain)),
                  "late": (len(chain) - min(len(chain), 1000), len(chain))}[where]
        for i in r.sample(range(lo, hi), min(hi - lo, r.randint(1, 12))):
            lane_of[i] = ln                  # (index 0 stays on the first lane: it is the earliest slice of the rank)
    per = []
    main = []
    for ln in range(nlanes):
        main += [item(pids[0], 10 + ln, t, u) for (t, u), l in zip(chain, lane_of) if l == ln]
    per.append(main)
    if len(pids) > 1:
        ch2 = gen_chain(r, n=r.randint(2, 8))
        truth[pids[1]] = [ch2[0][1], ch2[-1][1]]
        per.append([item(pids[1], 10, t, u) for t, u in ch2])
    slices = []
    if len(per) == 2:                          # the short rank somewhere inside the long one, in one piece or spread
        pos = sorted(r.randint(0, len(main)) for _ in per[1])
        k = 0
        for i, x in enumerate(main + [None]):
            while k < len(pos) and pos[k] == i:
                slices.append(per[1][k])
                k += 1
            if x is not None:
                slices.append(x)
    else:
        slices = main
    return {"mode": 0, "skip": False, "exact": True, "slices": slices, "truth": truth, "loglevel": loglevel,
            "long": n}


CATS = ["k Cmpt Exec", "k Cmpt Prep"]


def exhaustive_compute_cases(ctx):
    """all sequences of <= L helper counters of one pid over a small alphabet (compute_power alone)"""
    times = [0.0, 8.0, 16.0]
    charges = [0, 105, W32 - 105]
    alpha = [(t, q, c) for t in times for q in charges for c in CATS]
    L = ctx.pick(3, 4)
    cases = []
    for lvl, lmax in ((0, L), (3, 2), (4, 2)):          # all of them quietly, the short ones also at DEBUG and TRACE
        for ln in range(0 if lvl == 0 else 1, lmax + 1):
            for seq in itertools.product(alpha, repeat=ln):
                cases.append({"mode": 1, "skip": False, "loglevel": lvl,
                              "counters": [{"pid": 5, "cat": c, "ts": t, "key": t, "q": q} for t, q, c in seq]})
    return cases


def gen_compute_case(r):
    """helper counters fed to compute_power directly: times k*2^a with k <= 10, readings 315*y or 2^32 - 315*x, so
    that every quotient is exact or far above 100 W"""
    a = r.randint(-3, 12)
    unit = 2.0 ** a
    n = r.randint(1, 9)
    pids = r.sample(PIDS, r.choice([1, 1, 2]))
    ks = [r.randint(0, 10) for _ in range(n)]
    if r.random() < 0.6:
        ks.sort()
    cnt = []
    for k in ks:
        p = r.choice(pids)
        q = r.choice([0, 315 * r.randint(1, 4000), W32 - 315 * r.randint(1, 4000), 315 * r.randint(1, 40)])
        cat = r.choice(NAMES_OK + NAMES_OK + NAMES_PREP)
        cnt.append({"pid": p, "cat": cat, "ts": k * unit, "key": k * unit, "q": q})
    return {"mode": 1, "skip": r.random() < 0.15, "counters": cnt, "loglevel": r.choice(LOGLEVELS)}


def load_corpus():
    d = os.path.join(coqrun.VERIF, "corpus", "C10")
    out = []
    for fn in sorted(glob.glob(os.path.join(d, "*.json"))):
        c = json.load(open(fn))
        c["_corpus"] = os.path.basename(fn)
        out.append(c)
    return out


# ---------------------------------------------------------------- Coq encoding
def coq_slice(s):
    ph = {"X": 0, "b": 1}.get(s["ph"], 2)
    return ("(ESlice (Build_slice %s %s %s %s %s %s %s %s %s))" % (
        enc.Z(s["id"]), enc.Z(s["pid"]), enc.Z(ph), enc.S(s["name"]), enc.B(s["has"] == "full" and s["ph"] != "C"),
        enc.Q(s["dur"]), enc.Q(s["ts3"]), enc.Q(s["ts4"]), enc.Z(s["charge"])))


def coq_counter(c):
    return "(ECnt (Build_counter %s %s %s %s %s))" % (
        enc.Z(c["pid"]), enc.S(c["cat"]), enc.Q(c["ts"]), enc.Q(c["key"]), enc.Z(c["q"]))


def coq_case(case):
    evs = [coq_slice(s) for s in case["slices"]] if case["mode"] == 0 else [coq_counter(c) for c in case["counters"]]
    return enc.P(enc.P(enc.B(case["skip"]), enc.Z(case["mode"])), enc.L(evs))


def nontrivial(case):
    """>= 2 valid samples for at least one rank (DESIGN Appendix C)"""
    per = {}
    if case["mode"] == 0:
        for s in case["slices"]:
            if sampled(s):
                per.setdefault(s["pid"], []).append((s["ts4"], s["charge"]))
    else:
        for c in case["counters"]:
            per.setdefault(c["pid"], []).append((c["key"], c["q"]))
    return any(len(valid_samples(v)) >= 2 for v in per.values())


def features(case):
    f = set()
    if case["mode"] != 0:
        return f
    per = {}
    for s in case["slices"]:
        if sampled(s):
            per.setdefault(s["pid"], []).append((s["ts4"], s["charge"]))
        elif s["ph"] in ("X", "b") and s["has"] == "full" and " Prep" not in s["name"]:
            f.add("sub_cutoff_slice")
        if s["charge"] == 0 and s["has"] == "full":
            f.add("zero_reading")
    if len(per) >= 2:
        f.add("multi_rank")
    for v in per.values():
        if [x[0] for x in v] != sorted(x[0] for x in v):
            f.add("stream_not_time_ordered")
        if len(set(x[0] for x in v)) < len(v):
            f.add("equal_ts4")
        val = valid_samples(v)
        for (ta, qa), (tb, qb) in zip(val, val[1:]):
            if qb < qa:
                f.add("wrap")
            if qb == qa:
                f.add("equal_readings")
            w = Fraction(12) * ((qb - qa) % W32) / 512 / (Fraction(tb) - Fraction(ta))
            if w > 100:
                f.add("clamped")
            if w == 100:
                f.add("exactly_100W")
    return f


# ---------------------------------------------------------------- end-to-end (oracle only)
def e2e_scenario(r, k):
    """one rank, device kernels with distinct, well separated TS4 and monotone charge; FLEX-like json list"""
    freq = 1024.0
    n = r.randint(3, 7)
    pid = r.choice([0, 1, 2, 3])
    cyc = r.randint(10 ** 6, 2 ** 31)
    host0, cyc0 = 1.0e6 + r.randint(0, 10 ** 6), cyc
    u = r.randint(1, W32 - 1)
    if r.random() < 0.4:
        u = W32 - r.randint(1, 200000)
    evs, readings = [], []
    for i in range(n):
        width = r.randint(2000, 400000)          # cycles between TS1 and TS5
        ts1 = cyc
        ts2 = ts1 + width // 8
        ts3 = ts2 + width // 8
        ts4 = ts3 + width // 2
        ts5 = ts1 + width
        # host clock consistent with the device counter: B at TS1, E at TS4 (the tool aligns TS4 of a
        # "Cmpt Exec" slice with the host end time)
        t_b = host0 + (ts1 - cyc0) / freq
        t_e = host0 + (ts4 - cyc0) / freq
        u += r.randint(0, int(4000 * width / freq))
        if r.random() < 0.2:                     # an implausible burst: far above 100 W since the previous TS4
            u += r.randint(3, 40) * int(4267 * (width + 200000) / freq)
        q = u % W32 or 1
        name = f"kern{i} Cmpt Exec"
        attr = {"Power": hex(q), "TS1": hex(ts1 % W32), "TS2": hex(ts2 % W32), "TS3": hex(ts3 % W32),
                "TS4": hex(ts4 % W32), "TS5": hex(ts5 % W32)}
        evs.append({"attr": dict(attr), "name": name, "ph": "B", "pid": pid, "tid": 77, "ts": t_b})
        evs.append({"attr": dict(attr), "name": name, "ph": "E", "pid": pid, "tid": 77, "ts": t_e})
        readings.append((ts4, q))
        gap = r.randint(5000, 200000)
        cyc = ts5 + gap
    return {"pid": pid, "freq": freq, "events": evs, "readings": readings, "name": f"c10_e2e_{k}",
            "loglevel": r.choice(LOGLEVELS)}


def e2e_long_scenario(r, k, n, loglevel=0):
    """size: one rank, a first lane with n back-to-back device kernels and 1-3 further lanes with a few kernels that
    run concurrently with the early part (or any part) of the first lane. All TS4 distinct, the accumulated charge
    is monotone in TS4 time over all lanes (one charge counter per rank), with or without a wrap; sometimes an
    implausible burst. `readings` is in TS4 order over all lanes."""
    freq = 1024.0
    pid = r.choice([0, 1, 2, 3])
    cyc0 = r.randint(10 ** 6, 2 ** 30)
    host0 = 1.0e6 + r.randint(0, 10 ** 6)
    kern = []                                    # (tid, ts1, width)

    def t4(ts1, width):
        return ts1 + 2 * (width // 8) + width // 2
    cyc = cyc0
    for i in range(n):
        width = r.randint(1024, 16384)
        kern.append((77, cyc, width))
        cyc += width + r.randint(64, 4096)
    end = cyc
    used = {t4(ts1, w) for _, ts1, w in kern}      # TS4 values taken
    for ln in range(r.choice([1, 1, 2, 3])):
        where = r.choice(["early", "early", "anywhere"])
        span = (kern[min(n, 1000) - 1][1] if where == "early" else end) - cyc0
        c = cyc0 + 2000 + r.randint(0, span // 40)
        for _ in range(r.randint(1, 10)):
            width = r.randint(1024, 16384)
            while t4(c, width) in used:
                c += 1
            used.add(t4(c, width))
            kern.append((78 + ln, c, width))
            c += width + r.randint(64, max(65, span // 12))
            if c > cyc0 + span:
                break
    order = sorted(range(len(kern)), key=lambda j: t4(kern[j][1], kern[j][2]))
    u = r.randint(1, W32 - 1)
    if r.random() < 0.5:
        u = W32 - r.randint(1, 4000 * n)         # the charge counter wraps somewhere inside the series
    burst = r.random() < 0.5
    charge, readings, prev4 = {}, [], None
    for j in order:
        tid, ts1, width = kern[j]
        ts4 = t4(ts1, width)
        if prev4 is not None:
            u += r.randint(0, int(4000 * (ts4 - prev4) / freq))
            if burst and r.random() < 0.002:
                u += r.randint(3, 40) * int(4267 * (ts4 - prev4) / freq + 1)
        prev4 = ts4
        charge[j] = u % W32 or 1
        readings.append((ts4, charge[j]))
    evs = []
    by = r.choice(["lane", "lane", "start"])
    idx = sorted(range(len(kern)), key=(lambda j: (kern[j][0], kern[j][1])) if by == "lane" else (lambda j: kern[j][1]))
    for j in idx:
        tid, ts1, width = kern[j]
        ts2 = ts1 + width // 8
        ts3 = ts2 + width // 8
        ts4 = ts3 + width // 2
        ts5 = ts1 + width
        name = f"kern{j % 13} Cmpt Exec"
        attr = {"Power": hex(charge[j]), "TS1": hex(ts1 % W32), "TS2": hex(ts2 % W32), "TS3": hex(ts3 % W32),
                "TS4": hex(ts4 % W32), "TS5": hex(ts5 % W32)}
        evs.append({"attr": dict(attr), "name": name, "ph": "B", "pid": pid, "tid": tid,
                    "ts": host0 + (ts1 - cyc0) / freq})
        evs.append({"attr": dict(attr), "name": name, "ph": "E", "pid": pid, "tid": tid,
                    "ts": host0 + (ts4 - cyc0) / freq})
    return {"pid": pid, "freq": freq, "events": evs, "readings": readings, "name": f"c10_e2e_long_{k}",
            "loglevel": loglevel, "long": n, "lanes": len({t for t, _, _ in kern})}


# the four phases of a device job: (keyword of the name, TS index where the phase starts, where it ends)
PHASES = {"DmaI": (" DmaI", 0, 1), "Prep": (" Cmpt Prep", 1, 2), "Exec": (" Cmpt Exec", 2, 3), "DmaO": (" DmaO", 3, 4),
          "Other": ("", 0, 4)}
# "other" device slices: TS1..TS5 and a Power reading like every device slice, but a name without any of the four phase
# keywords (device-side activities of the FLEX dialect that are neither DMA nor compute, collectives, plain names;
# "Prep" / "Dma" / "Exec" may occur as text, not as the keyword). The host reports such a slice over its whole
# TS1..TS5 span.
# (Names on which the tool's event_categorizer aborts for a device slice - "Flex and generic classificaton diff":
# 'Flex RoundTrip', 'PrepareAndSyncRdma', 'DmaIn weights', 'Cmpt Execute x' - are outside the tool's name domain and
# not drawn; every name below runs through the whole tool.)
OTHER_NAMES = ["LaunchPreloadScratchpad", "LaunchClearScratchpad", "scratchpad_preload", "Barrier1", "PostKeys",
               "Update CBs", "Deadlock Check", "FixupAllocations", "PrepareDmas", "LaunchComputeStream",
               "ScheduleCompute", "AllReduce_all_reduce", "conv", "k7", "tensor DtoF", "x DmaX", "üñî sync", "a  b",
               "aten::add", "Exec"]
NAME_HEADS = ["k3", "tensor_out", "weights", "scratch", "aten::add", "fused_mul-add.7", "layer3/attn", "conv2d(bias)",
              "x", "Prepare q", "req_12_x", "üñî", "a  b"]
DMA_TAILS = [" (copy)", " [chunk 2]", "_1", ".bwd", " x", "-2", " #3", ":0", " 17", "/out", " → hbm"]


def phase_name(r, kind, i):
    """names are data: anything in front of the phase keyword, and for the two DMA phases also behind it (a name with
    ' Cmpt Exec' / ' Cmpt Prep' in the middle is outside the name domain of the tool, DESIGN 8.7)"""
    if kind == "Other":
        name = r.choice(OTHER_NAMES)
        return name if r.random() < 0.5 else f"{name} {i}"
    name = f"{r.choice(NAME_HEADS)}{i}" + PHASES[kind][0]
    if kind in ("DmaI", "DmaO") and r.random() < 0.6:
        name += r.choice(DMA_TAILS)
    return name


def phase_len(r, own):
    x = r.random()
    if own:                                      # the slice's own phase: never empty
        if x < 0.25:
            return r.randint(1, 102)             # below the 0.1 us cut-off at 1024 MHz (102 cycles = 0.0996 us)
        if x < 0.35:
            return r.choice([102, 103])          # the two sides of the cut-off (103 cycles = 0.1006 us)
        return r.randint(104, 40000)
    if x < 0.3:
        return 0
    if x < 0.5:
        return r.randint(1, 102)
    return r.randint(103, 40000)


def e2e_name_kind(name):
    """(phase of a generated name, whether text follows the keyword) - for the distribution only"""
    for kind, (key, _, _) in PHASES.items():
        if key and key in name:
            return kind, not name.endswith(key)
    return "Other", False


def e2e_phase_rank(r, pid, n):
    """one rank (one input file): n device slices one after the other on a lane, each a DmaI / Cmpt Prep / Cmpt Exec /
    DmaO slice reported by the host over its own phase (B at the phase's first TS, E at its last; host clock and
    device counter agree: host = host0 + (cycle - cyc0) / freq). The charge counter is read at TS4 of every slice
    and is monotone over the rank. Returns (events, [(ts4, reading, sampled-by-the-property-text)])"""
    freq = 1024.0
    cyc0 = r.randint(10 ** 6, 2 ** 31)
    host0 = 1.0e6 + r.randint(0, 10 ** 6)
    u = r.randint(1, W32 - 1)
    if r.random() < 0.4:
        u = W32 - r.randint(1, 200000)
    evs, rows, cyc, prev4 = [], [], cyc0 + r.randint(0, 5000), None
    other_lane = r.random() < 0.5                # "other" device slices on the lane of the phases or on their own
    for i in range(n):
        kind = r.choice(["Exec", "Exec", "DmaI", "DmaI", "DmaO", "DmaO", "DmaO", "Prep", "Other", "Other"])
        _, a, b = PHASES[kind]
        d = [phase_len(r, own=(j == a)) for j in range(4)]
        if kind == "Other":                      # the slice is its whole TS1..TS5 span: any layout, also around the cut-off
            d = [phase_len(r, own=False) for j in range(4)]
            if r.random() < 0.2:
                tot, d = r.choice([r.randint(1, 101), 102, 103, 104]), [0, 0, 0, 0]
                for _ in range(tot):
                    d[r.randrange(4)] += 1
            elif sum(d) == 0:
                d[r.randrange(4)] = r.randint(104, 40000)
        ts = [cyc + sum(d[:j]) for j in range(5)]
        if prev4 is not None:
            u += r.randint(0, int(4000 * (ts[3] - prev4) / freq))
            if r.random() < 0.12:                # an implausible burst: far above 100 W since the previous TS4
                u += r.randint(3, 40) * int(4267 * (ts[3] - prev4 + 200000) / freq)
        prev4 = ts[3]
        q = u % W32 or 1
        if r.random() < 0.06:
            q = 0                                # no reading
        name = phase_name(r, kind, i)
        tid = 78 if kind == "Other" and other_lane else 77
        attr = {"Power": hex(q)}
        attr.update({f"TS{j + 1}": hex(ts[j] % W32) for j in range(5)})
        for ph, c in (("B", ts[a]), ("E", ts[b])):
            evs.append({"attr": dict(attr), "name": name, "ph": ph, "pid": pid, "tid": tid,
                        "ts": host0 + (c - cyc0) / freq})
        # the property text: a sample per device slice that is no Prep slice and not below the 0.1 us cut-off
        rows.append((ts[3], q, kind != "Prep" and Fraction(ts[b] - ts[a]) / Fraction(freq) > Fraction(1, 10)))
        cyc = ts[4] + r.randint(64, 30000)
    return evs, rows, host0, cyc0


def e2e_phase_scenario(r, k):
    nr = r.choice([1, 1, 2])
    pids = r.sample([0, 1, 2, 3], nr)
    files, ranks = [], {}
    for pid in pids:
        evs, rows, host0, cyc0 = e2e_phase_rank(r, pid, r.randint(3, 12))
        files.append(evs)
        # valid samples: sampled slices with a reading, in TS4 order (all TS4 of a rank are distinct here)
        ranks[str(pid)] = {"readings": [(c, q) for c, q, smp in rows if smp and q != 0], "host0": host0, "cyc0": cyc0,
                           "slices": len(rows)}
    return {"freq": 1024.0, "files": files, "ranks": ranks, "name": f"c10_e2e_phase_{k}",
            "loglevel": r.choice(LOGLEVELS)}


def run_e2e(ctx, sc, work):
    """whole tool, in process; returns ([(ts, watts)] of the rank - {pid: [(ts, watts)]} for a scenario of several
    files -, error)"""
    from aiu_trace_analyzer.core.acelyzer import Acelyzer
    files = sc["files"] if "files" in sc else [sc["events"]]
    inps = []
    for j, evs in enumerate(files):
        inps.append(os.path.join(work, f"{sc['name']}_{j}.json"))
        with open(inps[-1], "w") as fd:
            json.dump(evs, fd)
    outp = os.path.join(work, sc["name"] + "_out.json")
    with quiet():
        try:
            rc = Acelyzer(["-i", ",".join(inps), "-o", outp, "--freq", str(sc["freq"]),
                           "-D", str(sc.get("loglevel", 0)), "--disable_tb"]).run()
        except SystemExit as e:
            return None, f"SystemExit({e.code})"
        except Exception as e:  # noqa: BLE001
            return None, type(e).__name__ + ": " + str(e)[:200]
        finally:
            _reset_loglevel()
    if rc != 0:
        return None, f"rc={rc}"
    data = json.load(open(outp))
    evs = data["traceEvents"] if isinstance(data, dict) else data
    pw = [e for e in evs
          if e.get("ph") == "C" and e.get("name") == "Power" and isinstance(e.get("args"), dict) and "Watts" in e["args"]]
    if "files" in sc:
        got = {}
        for e in pw:
            got.setdefault(str(e.get("pid")), []).append((e["ts"], e["args"]["Watts"]))
        return got, None
    return [(e["ts"], e["args"]["Watts"]) for e in pw], None


def oracle_e2e(sc, got):
    """a scenario of several ranks: every rank on its own (a rank the scenario does not know may not have samples)"""
    if "ranks" in sc:
        fails = []
        for pid in sorted(set(sc["ranks"]) | set(got)):
            rk = sc["ranks"].get(pid, {"readings": []})
            one = dict(rk, freq=sc["freq"])
            fails += [dict(f, pid=pid) for f in oracle_e2e_rank(one, got.get(pid, []))]
        return fails
    return oracle_e2e_rank(sc, got)


def oracle_e2e_rank(sc, got):
    """`readings` = the valid samples of the rank in TS4 order over all its lanes (distinct TS4, non-zero reading,
    no Prep slice, not below the cut-off) as (TS4 cycle, reading): n-1 counters, non-negative, <= 100, strictly
    increasing ts, and P_i * (t_{i+1} - t_i) = 12/512 * dQ_i (0 when that is above 100 W, whatever the log level);
    dt between exported counters must also equal the TS4 cycle distance / freq, and where the scenario states the
    host time of a cycle count (host0 at cyc0) the counter sits at the host time of TS4."""
    n = len(sc["readings"])
    fails = []
    if len(got) != max(n - 1, 0):
        return [{"kind": "e2e_sample_count", "expected_n": max(n - 1, 0), "observed_n": len(got)}]
    ts = [t for t, _ in got]
    if any(not a < b for a, b in zip(ts, ts[1:])):
        fails.append({"kind": "e2e_time_order"})
    for i, (t, w) in enumerate(got):
        if w < 0 or w > 100:
            fails.append({"kind": "e2e_out_of_bounds", "index": i})
    for i in range(n - 1):
        (c0, q0), (c1, q1) = sc["readings"][i], sc["readings"][i + 1]
        dt_true = Fraction(c1 - c0) / Fraction(sc["freq"])
        # (the end of the last counter's interval is not exported: the TS4 distance of the input stands in for it)
        dt_obs = Fraction(got[i + 1][0]) - Fraction(got[i][0]) if i + 1 < len(got) else dt_true
        # (freq 1024 MHz and an integer host origin: every time is a multiple of 2^-10 us, nothing may round it)
        if "host0" in sc and Fraction(got[i][0]) != Fraction(sc["host0"]) + Fraction(c0 - sc["cyc0"]) / Fraction(sc["freq"]):
            fails.append({"kind": "e2e_counter_not_at_ts4", "index": i, "absolute": True})
            break
        if dt_true != dt_obs:
            fails.append({"kind": "e2e_counter_not_at_ts4", "index": i})
            break
        raw = Fraction(12) * ((q1 - q0) % W32) / 512 / dt_obs
        exp = Fraction(0) if raw > 100 else raw
        if abs(raw - 100) < Fraction(1, 1000):
            continue
        if abs(exp - Fraction(got[i][1])) > Fraction(1, 10 ** 6) * max(Fraction(1), exp):
            fails.append({"kind": "e2e_power_value", "index": i, "wrap": q1 < q0, "expected": float(exp),
                          "observed": got[i][1]})
            break
    return fails


# ---------------------------------------------------------------- check
def gen_cases(ctx):
    r = ctx.rng
    cases = [c for c in load_corpus() if c.get("mode") != 2]          # (whole-tool corpus scenarios: see run)
    n_corpus = len(cases)
    exh = exhaustive_compute_cases(ctx)
    cases += exh
    for _ in range(ctx.pick(1200, 40000)):
        cases.append(gen_pipeline_case(r, skip=r.random() < 0.08))
    for _ in range(ctx.pick(400, 8000)):
        cases.append(gen_compute_case(r))
    off = [gen_pipeline_case(r, offgrid=True) for _ in range(ctx.pick(300, 5000))]
    return cases, off, n_corpus, len(exh)


def long_sizes(ctx, r, k):
    """k sizes in 2500..6000 (the first ones fixed, so that both ends are always visited) + their log levels"""
    sizes = ([2500, 6000, 4100] + [r.randint(2500, 6000) for _ in range(k)])[:k]
    levels = ([4, 2, 3, 1, 0] + [r.choice(LOGLEVELS) for _ in range(k)])[:k]
    return list(zip(sizes, levels))


def strip(case):
    return {k: v for k, v in case.items() if not k.startswith("_")}


def run(ctx):
    cases, off, n_corpus, n_exh = gen_cases(ctx)
    terms, failures, seen, nontriv = [], [], set(), 0
    dist = {"mode": {"pipeline": 0, "compute_only": 0}, "skip_events": 0, "slices_per_case": {}, "ranks": {},
            "features": {}, "impl_errors": {}, "offgrid_cases": len(off), "corpus": n_corpus,
            "exhaustive_compute_sequences": n_exh, "loglevel": {}, "clamped_at_debug_or_trace": 0, "long_series": [],
            "end_to_end_loglevel": {}, "end_to_end_long": [],
            "end_to_end_phase_slices": {"scenarios": 0, "two_ranks": 0, "DmaI": 0, "Prep": 0, "Exec": 0, "DmaO": 0,
                                        "Other": 0, "other_single_rank_scenarios": 0,
                                        "dma_name_with_text_after_keyword": 0, "below_cutoff_inside_long_span": 0,
                                        "zero_reading": 0}}
    for case in cases:
        out = run_case(case)
        terms.append((coq_case(case), enc.V(out)))
        for f in oracle(case, out)[:1]:
            failures.append({"input": strip(case), "signature": f})
        key = json.dumps(strip(case), sort_keys=True)
        if key not in seen:
            seen.add(key)
            nontriv += nontrivial(case)
        dist["mode"]["pipeline" if case["mode"] == 0 else "compute_only"] += 1
        lv = case.get("loglevel", 0)
        dist["loglevel"][lv] = dist["loglevel"].get(lv, 0) + 1
        dist["skip_events"] += int(case["skip"])
        if isinstance(out, enc.Err):
            dist["impl_errors"][out.tag] = dist["impl_errors"].get(out.tag, 0) + 1
        if case["mode"] == 0:
            n = len(case["slices"])
            dist["slices_per_case"][n] = dist["slices_per_case"].get(n, 0) + 1
            nr = len({s["pid"] for s in case["slices"]})
            dist["ranks"][nr] = dist["ranks"].get(nr, 0) + 1
            fts = features(case)
            for ft in fts:
                dist["features"][ft] = dist["features"].get(ft, 0) + 1
            dist["clamped_at_debug_or_trace"] += int("clamped" in fts and lv >= 3 and not case["skip"])
    for case in off:                                   # off-grid: oracle only
        out = run_case(case)
        for f in oracle(case, out)[:1]:
            failures.append({"input": strip(case), "signature": f})
        key = json.dumps(strip(case), sort_keys=True)
        if key not in seen:
            seen.add(key)
            nontriv += nontrivial(case)
        lv = case.get("loglevel", 0)
        dist["loglevel"][lv] = dist["loglevel"].get(lv, 0) + 1
    # size: long power series on several lanes (oracle; the shortest ones also go through the model)
    r3 = random.Random(ctx.seed * 104729 + 5)
    long_cases = [gen_long_case(r3, n, lv) for n, lv in long_sizes(ctx, r3, ctx.pick(10, 60))]
    long_terms, long_tied = [], []
    for j, case in enumerate(long_cases):
        out = run_case(case)
        for f in oracle(case, out)[:1]:
            failures.append({"input": strip(case), "signature": f})
        nontriv += nontrivial(case)
        dist["long_series"].append({"samples": case["long"], "lanes": len({s["tid"] for s in case["slices"]}),
                                    "ranks": len({s["pid"] for s in case["slices"]}), "loglevel": case["loglevel"],
                                    "features": sorted(features(case))})
        if case["long"] <= 3000 and len(long_terms) < ctx.pick(1, 4):      # (the model's sort is quadratic)
            long_terms.append((coq_case(case), enc.V(out)))
            long_tied.append(case)
    # end to end (oracle only)
    n_e2e, e2e_err, n_stage = 0, {}, 0
    work = tempfile.mkdtemp(prefix="c10_", dir=ctx.work)
    try:
        r2 = random.Random(ctx.seed * 7919 + 17)
        scs = [dict(c["scenario"], _corpus=c["_corpus"]) for c in load_corpus() if c.get("mode") == 2]
        scs += [e2e_scenario(r2, k) for k in range(ctx.pick(40, 400))]
        r4 = random.Random(ctx.seed * 15485863 + 29)
        scs += [e2e_phase_scenario(r4, k) for k in range(ctx.pick(250, 2500))]
        scs += [e2e_long_scenario(r2, k, n, lv) for k, (n, lv) in enumerate(long_sizes(ctx, r2, ctx.pick(5, 30)))]
        for sc in scs:
            got, err = run_e2e(ctx, sc, work)
            n_e2e += 1
            lv = sc.get("loglevel", 0)
            dist["end_to_end_loglevel"][lv] = dist["end_to_end_loglevel"].get(lv, 0) + 1
            if "ranks" in sc:
                ph = dist["end_to_end_phase_slices"]
                ph["scenarios"] += 1
                ph["two_ranks"] += int(len(sc["files"]) > 1)
                ph["other_single_rank_scenarios"] += int(len(sc["files"]) == 1 and any(
                    e2e_name_kind(e["name"])[0] == "Other" for e in sc["files"][0]))
                for evs in sc["files"]:
                    for e in evs:
                        if e["ph"] == "B":
                            kind, tail = e2e_name_kind(e["name"])
                            own = int(e["attr"][f"TS{PHASES[kind][2] + 1}"], 16) - int(e["attr"][f"TS{PHASES[kind][1] + 1}"], 16)
                            span = int(e["attr"]["TS5"], 16) - int(e["attr"]["TS1"], 16)
                            ph[kind] += 1
                            ph["dma_name_with_text_after_keyword"] += int(tail)
                            ph["below_cutoff_inside_long_span"] += int(kind != "Prep" and 0 <= own <= 102 < span)
                            ph["zero_reading"] += int(int(e["attr"]["Power"], 16) == 0)
            if "long" in sc:
                dist["end_to_end_long"].append({"kernels_first_lane": sc["long"], "lanes": sc["lanes"],
                                                "loglevel": lv})
            if err:
                e2e_err[err[:60]] = e2e_err.get(err[:60], 0) + 1
                failures.append({"input": {"mode": 2, "scenario": strip(sc)}, "signature": {"kind": "e2e_run_failed",
                                                                                    "error": err[:60]}})
                continue
            for f in oracle_e2e(sc, got)[:1]:
                failures.append({"input": {"mode": 2, "scenario": strip(sc)}, "signature": f})
            if "ranks" in sc:                            # the same slices through the registered stages alone
                got, err = run_stage_phase(sc)
                n_stage += 1
                fs = [{"kind": "stage_run_failed", "error": err[:60]}] if err else oracle_e2e(sc, got)
                for f in fs[:1]:
                    failures.append({"input": {"mode": 3, "scenario": strip(sc)}, "signature": dict(f, stage_level=True)})
    finally:
        shutil.rmtree(work, ignore_errors=True)
    dist["end_to_end_runs"] = n_e2e
    dist["end_to_end_errors"] = e2e_err
    dist["stage_level_phase_scenarios"] = n_stage

    from concurrent.futures import ThreadPoolExecutor
    with ThreadPoolExecutor(max_workers=2) as ex:       # (coqc subprocesses: the long series evaluate alongside)
        fut_l = ex.submit(coqrun.run_cases, "C10L", "From AiuModel Require Import Pipeline Power.",
                          "((bool * Z) * list ev)", "model_val", long_terms, shard=1)
        bad, extras, secs = coqrun.run_cases(
            "C10", "From AiuModel Require Import Pipeline Power.", "((bool * Z) * list ev)", "model_val", terms,
            shard=ctx.pick(250, 500))
        bad_l, _, secs_l = fut_l.result()
    mism = [{"name": "correspondence Power.model_val vs registered extract_power_event/sort_events/compute_power",
             "case": strip(cases[j]), "impl": terms[j][1][:600]} for j in bad[:5]]
    mism += [{"name": "correspondence Power.model_val vs registered power stages, long series",
              "case": strip(long_tied[j]), "impl": long_terms[j][1][:600]} for j in bad_l[:2]]
    # a mismatching case is also given to the oracle search (it may be outside the oracle's domain)
    oracle_failures = [finish(shrink(f)) for f in failures[:3]]
    samples = [strip(cases[j]) for j in (n_corpus + n_exh, n_corpus + n_exh + 1, len(cases) - 1) if j < len(cases)]
    return {
        "evaluations": len(cases) + len(off) + len(long_cases) + n_e2e, "distinct_nontrivial": nontriv,
        "rule": "distinct cases in which at least one rank has >= 2 valid samples (non-zero readings at distinct "
                "times among the sampled slices / helper counters), counted over: corpus + all compute_power "
                f"sequences of <= {ctx.pick(3, 4)} helper counters over a 18-letter alphabet ({n_exh}) + random slice streams through "
                "the registered mini-pipeline (1-3 ranks, 0-8 valid samples each plus zero/duplicate/short/Prep/"
                "incomplete neighbours, perturbed stream order) + random compute_power sequences + off-grid slice "
                "streams (oracle only) + long series of 2500..6000 samples on 1-4 lanes (oracle; the first "
                f"{ctx.pick(1, 4)} also through the model); the log level 0..4 is drawn per case; end-to-end runs "
                "(log level 0..4, some with 2500..6000 kernels on one lane and further lanes, some with 1-2 ranks of "
                "DmaI / Cmpt Prep / Cmpt Exec / DmaO slices whose DMA names carry text after the keyword, phases "
                "below the cut-off inside long TS1..TS5 spans, zero readings, and device slices without a phase "
                "keyword in the name; each of these also through the registered time-conversion + power stages) are "
                "counted in evaluations only",
        "samples": samples, "mismatches": mism, "oracle_failures": oracle_failures,
        "ties": [{"name": "Power.model_val = registered power stages on the real EventProcessor / compute_power alone",
                  "cases": len(cases), "mismatching": len(bad), "coq_seconds": round(secs, 1)},
                 {"name": "Power.model_val = registered power stages, long series (>= 2500 samples, several lanes)",
                  "cases": len(long_terms), "mismatching": len(bad_l), "coq_seconds": round(secs_l, 1)},
                 {"name": "oracle-only streams", "offgrid_cases": len(off), "long_series": len(long_cases),
                  "end_to_end_runs": n_e2e, "stage_level_phase_scenarios": n_stage}],
        "distribution": dist, "exhaustive": True,
        "traces_validated_against_impl": len(cases) + len(off) + len(long_cases) + n_e2e,
    }


# ---------------------------------------------------------------- shrinking / search / replay
def case_fails(case):
    if case.get("mode") == 2:
        return e2e_fails(case)
    if case.get("mode") == 3:
        got, err = run_stage_phase(case["scenario"])
        fs = [{"kind": "stage_run_failed", "error": err[:60]}] if err else oracle_e2e(case["scenario"], got)
        return dict(fs[0], stage_level=True) if fs else None
    out = run_case(case)
    fs = oracle(case, out)
    return fs[0] if fs else None


def e2e_fails(case):
    work = tempfile.mkdtemp(prefix="c10_replay_")
    try:
        got, err = run_e2e(None, case["scenario"], work)
    finally:
        shutil.rmtree(work, ignore_errors=True)
    if err:
        return {"kind": "e2e_run_failed", "error": err[:60]}
    fs = oracle_e2e(case["scenario"], got)
    return fs[0] if fs else None


def shrink(f):
    case = copy.deepcopy(f["input"])
    if case.get("mode") in (2, 3):
        return f
    key = "slices" if case["mode"] == 0 else "counters"
    kind = f["signature"]["kind"]
    t0 = time.time()
    budget = 30.0 if len(case[key]) > 200 else 120.0          # long series: whole blocks first, within a time box
    chunk = max(1, len(case[key]) // 2)
    while time.time() - t0 < budget:
        k, removed = 0, False
        while k < len(case[key]) and time.time() - t0 < budget:
            c2 = dict(case)
            c2[key] = case[key][:k] + case[key][k + chunk:]
            c2.pop("truth", None) if kind != "energy" else None
            g = case_fails(c2)
            if g and g["kind"] == kind:
                case, removed = c2, True
            else:
                k += chunk
        if chunk > 1:
            chunk //= 2
        elif not removed:
            break
    g = case_fails(case)
    return {"input": case, "signature": g or f["signature"]}


def finish(f):
    """add expected / observed to a (shrunk) failure"""
    case = f["input"]
    if case.get("mode") in (2, 3):
        f["expected"] = "n-1 Power counters with P*dt = 12/512*dQ mod 2^32"
        f["observed"] = f["signature"]
        return f
    out = run_case(case)
    per = {}
    if case["mode"] == 0:
        for s in case["slices"]:
            if sampled(s):
                per.setdefault(s["pid"], []).append((s["ts4"], s["charge"]))
    else:
        for c in case["counters"]:
            per.setdefault(c["pid"], []).append((c["key"], c["q"]))
    f["expected"] = {str(p): [[t, str(w)] for t, w, _ in expected_power(valid_samples(v))] for p, v in per.items()}
    f["observed"] = repr(out) if isinstance(out, enc.Err) else [o for o in out if o[0] != 0]
    if not isinstance(out, enc.Err) and len(f["observed"]) > 400:          # long series: the head is enough to read
        f["expected"] = {p: v[:400] for p, v in f["expected"].items()}
        f["observed"] = f["observed"][:400]
        f["truncated"] = "expected / observed cut to 400 entries; the input is complete"
    return f


def search(ctx, res, broken):
    """something broke but the run's oracle was silent: mismatching cases first, then a fresh larger stream"""
    t0 = time.time()
    for m in res.get("mismatches", []):
        c = m.get("case")
        if c:
            g = case_fails(c)
            if g:
                return [finish(shrink({"input": c, "signature": g}))]
    r = random.Random(ctx.seed + 1)
    for i in range(ctx.pick(12000, 100000)):
        if time.time() - t0 > ctx.pick(60, 600):
            break
        case = gen_pipeline_case(r, offgrid=(i % 5 == 4)) if i % 3 else gen_compute_case(r)
        g = case_fails(case)
        if g:
            return [finish(shrink({"input": strip(case), "signature": g}))]
    return []


def replay(ctx, payload):
    f = payload.get("failing")
    if not f:
        return True, "replay file names only broken obligations: " + str(payload.get("broken"))[:500]
    g = case_fails(f["input"])
    return g is None, {"oracle": g, "input": f["input"]}
