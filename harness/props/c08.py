"""C08 — exported events are globally ordered by timestamp, longer slices first on ties.

Ties (model evaluated by vm_compute inside coqc, implementation = the real code of $AIU_REPO):
  parse    Sort.parse_val      vs EventSortingContext(sortkey=s).sortkey                         (_parse_sortkey)
  ops      Sort.ops_val        vs operation sequences sort_events / insert / drain on a real EventSortingContext
                                  (random and tie-heavy lists, missing keys, all filter / key / global_sort variants)
  sorters  C08Model.sorters_val vs the EventSortingContext objects the REAL register_processing_functions creates
                                  (configuration read from the translated constructor text of gen/Registration.v)
  e2e      C08Model.final_val  vs Acelyzer(argv).run() in process on generated multi-rank FLEX scenarios: the events
                                  entering the LAST registered stage are recorded (wrapper installed from a subclass of
                                  Acelyzer, no change to the code), the model's last registration turns them into the
                                  exported order, which must be the order the run exported and wrote.
Oracle (independent, brute force, reads only the written file): for every pair i < j of traceEvents
  (ts_i, -dur_i) <= (ts_j, -dur_j) with a missing dur counted as 0, and every ts a real number.
End-to-end inputs: gen_scenario (host slices, Prep/Exec kernels, collectives), gen_phase_scenario (device operations as
  DmaI/Prep/Exec/DmaO phases, zero-length phases, streams appearing late) and the large scenarios below; option sets
  E2E_OPTS plus OFF_OPTS = every subset of {--flow, --disable_tb, -t, empty -C}, enumerated by index.
Size x ties (oracle only, no Coq literal - the model's insertion sort is quadratic): operation sequences with
  255..8400 queued events on the real EventSortingContext (contract oracle), and end-to-end scenarios of 3000..6000
  slices on 1-3 ranks in which almost every ts value carries several nested slices of different duration
  (gen_big_scenario, corpus kind e2e_grid); thorough tier: the first large scenario also goes through the model.
"""
import contextlib
import copy
import glob
import hashlib
import io
import json
import os
import random
import shutil
import sys
import time
import zlib

from common import coqrun, enc

ID = "C08"
MANIFEST = {
    "text": "Proof. Coq model of pipeline/sort.py (Sort.v: _parse_sortkey, EventSortingContext.sort/insert/drain, per-lane "
            "and global queues, event_types filter, pass-through of events lacking the primary key) with unbounded theorems: "
            "the drain is a sorted, stable permutation of what was queued (sort_sorted/sort_perm/sort_stable), the stage's "
            "stream function is 'pass-through events, then the stable sort' and, combining Pipeline.stream_compose with "
            "facts computed on the registration program GENERATED from acelyzer.py (last registration = unconditional "
            "sort_events with event_types=None, sortkey 'ts,dur:r', global_sort=True, selected under every valuation of the "
            "option guards and kept by the default, everything and torch_minimal profiles), C08_sorted: for every pipeline "
            "prefix whatsoever (any callbacks, drains, barriers) the exported stream is the stable (ts, -dur) sort of what "
            "reaches the last stage, hence ordered by ts with longer slices first on ties, events without dur last. Tied to "
            "the code on every run by four correspondence runs (parser, operation sequences on the real "
            "EventSortingContext, the sorter configurations created by the real register_processing_functions, and "
            "end-to-end Acelyzer runs whose last-stage inflow is recorded and pushed through the model) plus a brute-force "
            "order oracle on the written traceEvents.",
    "note": "Trusted: Coq kernel + vm_compute; Sort.v/C08Model.v are hand-written and tied by differential testing only; "
            "hash((pid,tid)) taken as injective on the lanes in use; list.sort stability tested, not proved; the theorem "
            "speaks about the sort key fields as they ENTER the last stage and requires (hypothesis xdur of C08_sorted) that "
            "the exported event shows the same dur: a flow 'f' arrow that kept the receive slice's dur while being sorted "
            "violated this (fixed: 818affa; corpus/C08/e2e_flow_f_hidden_dur.json, Example "
            "C08_hidden_dur_breaks_export_order). The per-lane mode is proved per queue (C08_sort_drain) and as conservation "
            "(C08_sort_stream); that each queue holds exactly its lane's events in arrival order is tied, not proved. "
            "-I (duplicate_and_hold after every stage), -R, -S, -s, -O async|shift|warn and --flex_ts_fix are "
            "outside the end-to-end tie. Large inputs (operation sequences of 255..8400 queued events, end-to-end "
            "scenarios of 3000..6000 slices with several nested slices of different duration per ts value) are judged by "
            "the oracles only in the quick tier; the thorough tier also pushes one of them through the model. "
            "Print Assumptions: closed under the global context.",
    "technique": "Coq proof (insertion-sort invariants, induction over the stream, Pipeline.stream_compose, computation on "
                 "the generated registration program lifted to all guard valuations) + vm_compute correspondence against "
                 "the real EventSortingContext / register_processing_functions / Acelyzer + brute-force order oracle",
    "design_ref": "DESIGN.md sections 3 and 4/C08",
}
PROP_FILE = "props/C08.v"
MODEL_TARGETS = ["theories/Sort.vo", "theories/C08Model.vo"]
THEOREMS = ["C08_sort_sorted", "C08_sort_perm", "C08_sort_stable", "C08_sort_drain", "C08_sort_stream",
            "C08_sort_lanes",
            "C08_registration", "C08_any_profile", "C08_final_cfg", "C08_sorted", "C08_order_spec",
            "C08_passthrough_overtakes"]
ALLOWED_AXIOMS = []
TRUSTED = [
    "modelled, not verified: Python list.sort is a stable sort by the key tuple (tested by the ops tie on tie-heavy "
    "lists); dict preserves insertion order; hash((pid, tid)) is injective on the lanes in use and differs from the "
    "explicit queue ids 1..5 used by the tie; float() of the numeric field values is exact (the sorter only compares "
    "and negates, so any double is represented exactly as a rational)",
    "the end-to-end tie observes the inflow of the last registered stage through wrappers installed by a subclass of "
    "Acelyzer (register_processing_functions override): the stage callback, EventProcessor.convert_events and "
    "exporter.export are wrapped, not changed",
    "AbstractEventType.from_dict / json(), JSON writing: the oracle reads the written file; that the file order is the "
    "export-call order is checked on every scenario",
    "the link 'constructor text in gen/Registration.v -> Sort.cfg' (C08Model.cfg_of_ctor) is validated by the sorters "
    "tie against the real context objects",
]
ASSUMPTIONS = [
    "every event reaching the last stage carries a numeric 'ts' (stage 0 sanity_check drops input without it; the "
    "synthesized counters, flow arrows and metadata carry it): events without it are exported at once, ahead of all "
    "sorted events (theorem C08_passthrough_overtakes states exactly that)",
    "non-barrier stages own their context (Pipeline.wf); contexts shared by two stages (normalize, overlap, categorizer, "
    "launch flows, tb refinement) sit in the prefix, whose behaviour the theorem does not depend on beyond being a "
    "function of the input stream - for them the statement is 'whatever reaches the last stage', validated end to end",
    "option domain of the end-to-end tie: default / power_ts4 / prep_queue / coll_bw counters, --keep_prep, --flow, --tb, "
    "--disable_tb, -O drop|tid, -M, -t, --drop_globals, --comm_summarize_seq on 1..4 ranks, and every subset of the "
    "switches {--flow, --disable_tb, -t, empty -C} (enumerated, each visited by every run); device operations written "
    "as their four phases with zero-length phases (TSk == TSk+1) on one, two, a late-appearing second or four "
    "streams - a Cmpt Exec of zero cycles is excluded (pipeline/stats.py asserts dur > 0: the run aborts without "
    "an export); small scenarios (< 200 "
    "exported events) and, for the size x ties region, scenarios of 3000..6000 slices on 1..3 ranks",
]

SYNTH_PH = ("C", "M", "s", "f")


@contextlib.contextmanager
def quiet():
    with contextlib.redirect_stdout(io.StringIO()):
        yield


def _num(x):
    return isinstance(x, (int, float)) and not isinstance(x, bool) and x == x and abs(x) != float("inf")


# ====================================================================== kernel: parser and operation sequences
KEY_ALPHABET = ["ts", "dur", "r", "x", ":", ":", ",", ",", ":r", "rr", ""]
SORTKEYS = ["ts,dur:r", "ts,dur:r", "ts,dur:r", "ts", "ts:r", "dur:r,ts", "TS_cycles", "ts,dur", "ts,dur:r,x", "dur",
            "pid,ts", "x:r,ts:r", "ts:x,dur:r:r"]
TYPES = [None, None, None, ["C"], ["X"], ["X", "C"], []]
NUMKEYS = ["ts", "dur", "x", "TS_cycles"]


def gen_sortkey(r):
    return "".join(r.choice(KEY_ALPHABET) for _ in range(r.randint(0, 7)))


def drive_parse(s):
    from aiu_trace_analyzer.pipeline.sort import EventSortingContext
    try:
        return [[k, rev] for k, rev in EventSortingContext(sortkey=s).sortkey]
    except Exception as e:  # noqa: BLE001
        return enc.Err(type(e).__name__)


def gen_value(r, tie_heavy):
    if tie_heavy:
        v = r.choice([0, 1, 1, 2, 2, 2, 3])
        if r.random() < 0.25:
            v += r.choice([0.25, 0.5])
    else:
        v = r.choice([r.randint(-3, 12), r.randrange(0, 4096) / 64.0, r.random() * 1e6, r.randint(0, 2 ** 40)])
    if r.random() < 0.3:
        v = float(v)
    return v


def gen_kernel_event(r, uid, tie_heavy):
    ph = r.choice(["X", "X", "X", "X", "C", "C", "M", "i", "s", "f"])
    e = {"ph": ph, "pid": r.choice([0, 0, 1, 2]), "name": f"e{uid}", "args": {"uid": uid}}
    if r.random() < 0.85:
        e["tid"] = r.choice([0, 1, 2, 7])
    if r.random() < 0.9:
        e["ts"] = gen_value(r, tie_heavy)
    if (ph == "X" and r.random() < 0.9) or r.random() < 0.15:
        e["dur"] = gen_value(r, tie_heavy)
        if r.random() < 0.05:
            e["dur"] = -e["dur"]
    if r.random() < 0.3:
        e["x"] = gen_value(r, tie_heavy)
    if r.random() < 0.3:
        e["TS_cycles"] = gen_value(r, tie_heavy)
    return e


def gen_kernel_case(r):
    u = r.random()
    if u < 0.45:            # the configuration of the final sort
        cfg = [None, "ts,dur:r", True]
    elif u < 0.6:           # first sort of the pipeline (per lane)
        cfg = [None, "ts,dur:r", False]
    elif u < 0.68:          # the power counter sorter
        cfg = [["C"], "TS_cycles", False]
    else:
        cfg = [r.choice(TYPES), r.choice(SORTKEYS), r.random() < 0.5]
    tie_heavy = r.random() < 0.7
    n = r.choice([0, 1, 2, 3, 5, 8, 12, 20])
    ops, uid = [], 0
    p_ins = r.choice([0, 0, 0, 0.15])
    p_drain = r.choice([0, 0, 0.1])
    for _ in range(n):
        uid += 1
        ev = gen_kernel_event(r, uid, tie_heavy)
        if r.random() < p_ins:
            ops.append(["insert", r.choice([None, None, 0, 1, 2, 5]), ev])
        else:
            ops.append(["sort", ev])
        if r.random() < p_drain:
            ops.append(["drain"])
    ops.append(["drain"])
    if r.random() < 0.3:
        ops.append(["drain"])
    return {"kind": "kernel", "cfg": cfg, "ops": ops}


def drive_ops(case):
    """every call's result (list of uids) from the REAL EventSortingContext; an exception ends the case"""
    from aiu_trace_analyzer.pipeline.sort import EventSortingContext, sort_events
    types, key, glob_ = case["cfg"]
    try:
        ctx = EventSortingContext(event_types=copy.deepcopy(types), sortkey=key, global_sort=glob_)
    except Exception as e:  # noqa: BLE001
        return enc.Err(type(e).__name__)
    out = []
    for op in case["ops"]:
        try:
            if op[0] == "sort":
                res = sort_events(copy.deepcopy(op[1]), ctx)
            elif op[0] == "insert":
                ctx.insert(copy.deepcopy(op[2]), op[1])
                res = []
            else:
                res = ctx.drain()
            out.append([x["args"]["uid"] for x in res])
        except Exception as e:  # noqa: BLE001
            return enc.Err(type(e).__name__)
    return out


def _keytuple(case_key, ev):
    """the documented key: per 'k' ascending, per 'k:r' descending, missing secondary key = 0 (written from the
    docstring of the class, not from drain())"""
    t = []
    for part in case_key.split(","):
        f = part.split(":")
        v = ev.get(f[0], 0)
        t.append(-v if (len(f) > 1 and f[1] == "r") else v)
    return tuple(t)


def oracle_kernel(case, obs):
    """contract of the sorter, stated on the observed results only"""
    fails = []
    types, key, glob_ = case["cfg"]

    def fail(kind, expected, observed, **facts):
        sig = {"kind": kind, "stream": "kernel", "global_sort": glob_, "sortkey": key}
        sig.update(facts)
        fails.append({"input": case, "expected": expected, "observed": observed, "signature": sig})
    if isinstance(obs, enc.Err):
        fail("sorter_exception", "no exception", obs.tag, exc=obs.tag)
        return fails
    evs = {}
    pending = []        # uids accepted and not yet drained
    prim = key.split(",")[0].split(":")[0]
    for op, res in zip(case["ops"], obs):
        if op[0] == "sort":
            ev = op[1]
            uid = ev["args"]["uid"]
            evs[uid] = ev
            held = (types is None or ev["ph"] in types) and prim in ev
            if held and res != []:
                fail("event_not_held_back", [], res, ph=ev["ph"])
            if not held and res != [uid]:
                fail("unsortable_event_not_passed_through", [uid], res, ph=ev["ph"], has_primary=prim in ev)
            if held:
                pending.append(uid)
        elif op[0] == "insert":
            ev = op[2]
            uid = ev["args"]["uid"]
            evs[uid] = ev
            pending.append(uid)
            if res != []:
                fail("insert_returned_events", [], res)
        else:
            if sorted(res) != sorted(pending):
                lost = [u for u in pending if u not in res]
                fail("drain_is_not_a_permutation_of_the_queued_events", sorted(pending), res,
                     lost=len(lost), extra=len(res) - len(pending) + len(lost),
                     lost_is_last_queued=bool(lost) and lost == pending[-len(lost):])
            else:
                explicit = any(o[0] == "insert" and o[1] for o in case["ops"])
                lanes = {}
                for u in res:
                    ev = evs[u]
                    lane = 0 if (glob_ or explicit) else (ev["pid"], ev.get("tid", 0))
                    lanes.setdefault(lane, []).append(u)
                if not explicit:
                    for lane, us in lanes.items():
                        for a, b in zip(us, us[1:]):
                            ka, kb = _keytuple(key, evs[a]), _keytuple(key, evs[b])
                            if ka > kb:
                                first_diff = next(i for i, (x, y) in enumerate(zip(ka, kb)) if x != y)
                                fail("drained_lane_not_sorted", "key tuples never decrease", [a, b],
                                     key_position=first_diff, tie_on_primary=first_diff > 0,
                                     missing_secondary=any(p.split(":")[0] not in evs[u_] for u_ in (a, b)
                                                           for p in key.split(",")[1:]))
                                break
                    if not glob_:
                        seq = []
                        for u in res:
                            lane = (evs[u]["pid"], evs[u].get("tid", 0))
                            if not seq or seq[-1] != lane:
                                seq.append(lane)
                        if len(seq) != len(set(seq)):
                            fail("lanes_interleaved_in_drain", "one contiguous block per lane", seq)
            pending = []
    return fails


def coq_q(v):
    return enc.Q(v)


class Names:
    """string literals are written once per cases file (parsing them is slow)"""
    def __init__(self):
        self.t = []

    def nm(self, s):
        if s not in self.t:
            self.t.append(s)
        return f"(nm {self.t.index(s)})"

    def prelude(self):
        return ("Definition NT : list string := [" + "; ".join(enc.S(x) for x in self.t) +
                "].\nDefinition nm (i : nat) : string := nth i NT EmptyString.")


def coq_sev(names, uid, ev, numkeys):
    tid = ev.get("tid")
    if tid is None:
        t = "None"
    elif isinstance(tid, int) and not isinstance(tid, bool):
        t = f"(Some {enc.Z(tid)})"
    else:
        t = f"(Some {enc.Z(-7 - (zlib.crc32(str(tid).encode()) % 1000))})"
    nums = [enc.P(names.nm(k), coq_q(ev[k])) for k in numkeys if k in ev and _num(ev[k])]
    pid = ev["pid"] if isinstance(ev.get("pid"), int) and not isinstance(ev.get("pid"), bool) else -99
    return (f"{{| s_uid := {enc.Z(uid)}; s_ph := {names.nm(str(ev.get('ph')))}; s_pid := {enc.Z(pid)}; "
            f"s_tid := {t}; s_num := {enc.L(nums)} |}}")


def coq_kernel_case(names, case):
    types, key, glob_ = case["cfg"]
    ty = "None" if types is None else "(Some " + enc.L([names.nm(x) for x in types]) + ")"
    ops = []
    for op in case["ops"]:
        if op[0] == "sort":
            ops.append("(OSort " + coq_sev(names, op[1]["args"]["uid"], op[1], NUMKEYS + ["pid", "tid"]) + ")")
        elif op[0] == "insert":
            q = "None" if op[1] is None else f"(Some {enc.Z(op[1])})"
            ops.append(f"(OInsert {q} " + coq_sev(names, op[2]["args"]["uid"], op[2], NUMKEYS + ["pid", "tid"]) + ")")
        else:
            ops.append("ODrain")
    return enc.P(enc.P(ty, names.nm(key), enc.B(glob_)), enc.L(ops))


def shrink_kernel(f):
    case = f["input"]
    kind = f["signature"]["kind"]

    def bad(c):
        return [x for x in oracle_kernel(c, drive_ops(c)) if x["signature"]["kind"] == kind]
    ops = list(case["ops"])
    if len(ops) > 200:      # large queue: chunks first (every evaluation sorts thousands of events)
        ops = _ddmin(ops, lambda o2: bool(bad(dict(case, ops=o2))), budget=30.0, floor=16)
    changed = len(ops) <= 200
    while changed:
        changed = False
        for k in range(len(ops)):
            o2 = ops[:k] + ops[k + 1:]
            if o2 and bad(dict(case, ops=o2)):
                ops, changed = o2, True
                break
    c = dict(case, ops=ops)
    fs = bad(c)
    return fs[0] if fs else f


# ====================================================================== sorter configurations of the real registration
SORTER_ARGV = [
    [], ["-C"], ["-C", "power_ts4"], ["-C", "power_ts3"], ["-C", "prep_queue"], ["-C", "power_ts4", "prep_queue", "coll_bw"],
    ["--flow"], ["--tb"], ["--tb", "--flow"], ["--disable_tb"], ["-O", "drop"], ["-O", "async"], ["-M"], ["-S"], ["-t"],
    ["--flow", "-R"], ["--comm_summarize_seq"], ["--drop_globals", "-C", "power_ts4", "--power-stats"], ["-s"],
    ["--flex_ts_fix", "-F", "X"], ["-I"],
]


def _tr():
    sys.path.insert(0, os.path.join(coqrun.VERIF, "tools"))
    import translate_registration
    return translate_registration


def drive_sorters(argv, work, atoms):
    """(valuation of the guard atoms, [[event_types, sortkey pairs, global_sort] per registered sort_events stage],
    name of the last registered stage) from the REAL register_processing_functions"""
    from aiu_trace_analyzer.core.acelyzer import Acelyzer
    import aiu_trace_analyzer.core.processing as processing
    import aiu_trace_analyzer.pipeline as event_pipe
    from aiu_trace_analyzer.constants import TS_CYCLE_KEY
    from aiu_trace_analyzer.core.stage_profile import StageProfile
    import aiu_trace_analyzer.logger as aiulog
    with quiet():
        a = Acelyzer(["-i", "dummy.json", "-D", "0", "-o", os.path.join(work, "sorters_out.json")] + list(argv))
    aiulog.loglevel = 0

    class Proc(processing.EventProcessor):
        def __del__(self):
            pass
    proc = Proc(profile=StageProfile.from_json(a.args.profile), intermediate=None)

    class Exp:
        def add_device(self, *a_, **k_):
            pass
    a.register_processing_functions(proc, a.args, Exp())
    env = {"args": a.args, "self": a, "event_pipe": event_pipe, "TS_CYCLE_KEY": TS_CYCLE_KEY}
    val = [bool(eval(t, {"__builtins__": {"any": any, "len": len}}, env)) for t in atoms]  # noqa: S307
    cfgs = []
    for cb, cx, _ in proc.stages[1:]:
        if cb.__name__ == "sort_events":
            cfgs.append([None if cx.event_types is None else list(cx.event_types),
                         [[k, rv] for k, rv in cx.sortkey], bool(cx.global_sort)])
    last = proc.stages[-1][0].__name__
    proc.stages = []
    return val, cfgs, last, TS_CYCLE_KEY


# ====================================================================== end to end
E2E_OPTS = [
    [],
    ["-C", "power_ts4", "prep_queue", "--keep_prep"],
    ["--flow"],
    ["--flow", "-C", "power_ts4", "prep_queue", "coll_bw"],
    ["--tb"],
    ["--tb", "--flow"],
    ["--disable_tb", "--flow"],
    ["-O", "drop", "-t"],
    ["-M", "--flow", "--keep_prep"],
    ["--flow", "--comm_summarize_seq"],
    ["--drop_globals", "-C", "prep_queue"],
    ["-C"],
    ["-c", "@LOG"],
    ["-t", "-c", "@LOG"],          # utilization counters without the stats stage that strips their temporary dur
]


def e2e_paths(ctx):
    for salt in range(200):
        d = os.path.join(ctx.work, f"in{salt}")
        ps = [os.path.join(d, f"rank{r}.json") for r in range(4)]
        if len({zlib.crc32(p.encode()) % 10000 for p in ps}) == 4:
            return d, ps
    raise RuntimeError("no collision-free input names")


def gen_scenario(r):
    """R one-rank FLEX files on a coarse shared time grid (so that ts ties inside and across ranks are common):
    host slices on two tids, device Prep/Exec kernels with cycle counters, optional B/E pairs, optional send/receive
    pairs of one collective group (two or more sync groups, so that --flow draws arrows)."""
    R = r.choice([1, 2, 2, 3, 3, 4])
    T0 = 1000.0
    step = r.choice([1.0, 2.0, 0.5])
    files, uid, cycs = [], 0, []
    for pid in range(R):
        evs = []
        for tid in (3, 4):
            t = T0 + step * r.choice([0, 0, 0, 1, 2, 4])
            for k in range(r.randint(0, 4)):
                uid += 1
                d = step * r.choice([1, 2, 2, 3, 4, 6])
                if r.random() < 0.2:
                    evs.append({"name": f"be{tid}_{k}", "ph": "B", "pid": pid, "tid": tid, "ts": t, "args": {"uid": uid}})
                    evs.append({"name": f"be{tid}_{k}", "ph": "E", "pid": pid, "tid": tid, "ts": t + d,
                                "args": {"uid": uid}})
                else:
                    evs.append({"name": f"host{tid}_{k}", "ph": "X", "pid": pid, "tid": tid, "ts": t, "dur": d,
                                "args": {"uid": uid}})
                t += d + step * r.choice([0, 0, 1, 2])
        c0 = 1000000 + r.randrange(0, 1000) * 16        # device counter epoch of this rank; 1000 cycles per us

        def cyc(t_, d_, c0=c0):
            a_ = c0 + int(round((t_ - T0) * 1000))
            b_ = c0 + int(round((t_ + d_ - T0) * 1000))
            return {"TS1": str(a_), "TS2": str(a_ + 16), "TS3": str(a_ + 32), "TS4": str(b_ - 64), "TS5": str(b_)}
        cycs.append(cyc)
        t = T0 + step * r.choice([0, 0, 1, 2])
        for k in range(r.randint(1, 4)):
            kinds = r.choice([["p", "e"], ["e"], ["p"], ["p", "e"]])
            d = step * r.choice([1, 2, 2, 3, 4])
            for kind in kinds:
                uid += 1
                nm = f"op{k} Cmpt " + ("Exec" if kind == "e" else "Prep")
                ev = {"name": nm, "ph": "X", "pid": pid, "tid": 7 if kind == "e" else 9, "ts": t, "dur": d,
                      "args": dict(cyc(t, d), Power=str(1000 + 37 * uid), uid=uid)}
                evs.append(ev)
                if kind == "p":
                    t += d
            t += d + step * r.choice([0, 1, 2, 2])
        files.append(evs)
    coll = R >= 2 and r.random() < 0.7
    if coll:
        grp = "AllReduce_all_reduce_4"
        pairs = [(i, i + 1) for i in range(R - 1)]
        if R == 2 or r.random() < 0.5:
            pairs.append((R - 1, 0))
        t = T0 + step * r.choice([2, 4, 6])
        for n, (src, dst) in enumerate(pairs):
            sync = f"{grp}_s{src}_r{dst}_{n}"
            d = step * r.choice([2, 3, 4])
            lag = step * r.choice([0, 1, 1, 2])
            d2 = d + step * r.choice([0, 1, 2])
            uid += 1
            files[src].append({"name": f"SenRdmaSend_{82000 + n} [sync={sync}] DmaO", "ph": "X", "pid": src, "tid": 11,
                               "ts": t, "dur": d,
                               "args": dict(cycs[src](t, d), Bytes="1024", CollGroup=grp, Peer=str(dst),
                                            Type="SingleCast", Power=str(700 + uid), uid=uid)})
            uid += 1
            files[dst].append({"name": f"SenRdmaReceive_{82100 + n} [1024B] [sync={sync}] DmaI", "ph": "X", "pid": dst,
                               "tid": 12, "ts": t + lag, "dur": d2,
                               "args": dict(cycs[dst](t + lag, d2), Bytes="1024", CollGroup=grp, Peer=str(src),
                                            Type="WDone Barrier", Power=str(900 + uid), uid=uid)})
            t += d + step * r.choice([0, 1, 2])
    for fi, evs in enumerate(files):             # time-ordered files; a B is immediately followed by its E (FLEX)
        units, k = [], 0
        while k < len(evs):
            n_ = 2 if evs[k]["ph"] == "B" else 1
            units.append(evs[k:k + n_])
            k += n_
        units.sort(key=lambda u: u[0]["ts"])     # stable: Prep stays before its Exec
        files[fi] = [e for u in units for e in u]
    return {"kind": "e2e", "files": files, "R": R, "coll": coll}


# option sets that switch synthesizers OFF: every subset of {empty -C, --disable_tb, -t}, with and without --flow.
# Enumerated by index (never sampled): every run of the check visits each of the 16 sets.  (-C takes a list: it is
# always written last so that it stays empty.)
OFF_OPTS = [[o for o, on in (("--flow", m & 8), ("--disable_tb", m & 2), ("-t", m & 4), ("-C", m & 1)) if on]
            for m in range(16)]

SORTER_ARGV += [o for o in OFF_OPTS if o not in SORTER_ARGV]

PHASES = [" DmaI", " Cmpt Prep", " Cmpt Exec", " DmaO"]


def gen_phase_scenario(r):
    """R one-rank FLEX files of device operations written as their phases DmaI / Cmpt Prep / Cmpt Exec / DmaO (one
    record per phase, all carrying the op's TS1..TS5; phase k spans TS(k+1)..TS(k+2)), on a coarse grid shared by all
    ranks.  Any phase may have ZERO length on the device (TSk == TSk+1, common in real traces): its host record then
    still took some time (ingestion drops zero-duration records) and ends where the phase ends, so the tool itself
    turns it into a zero-length slice - tied in ts with the neighbouring phases, with the counters sampled at phase
    boundaries and possibly with metadata.  The phases run on one stream, on separate DMA/compute streams, on a DMA
    stream that first shows up in the middle of the trace, or on one stream per phase.  All times are multiples of
    0.25 us and all cycle values multiples of 250 (1000 cycles per us), so the arithmetic of the tool is exact and
    equal ts values are really equal."""
    R = r.choice([1, 1, 2, 2, 3])
    T0 = 1000.0
    step = r.choice([1.0, 2.0, 0.5])
    p_zero = r.choice([0.15, 0.3, 0.5])
    files, uid = [], 0
    for pid in range(R):
        evs = []
        c0 = 1000000 + r.randrange(0, 1000) * 500
        n_ops = r.randint(2, 5)
        layout = r.choice(["one", "two", "switch", "switch", "four"])
        k_sw = r.randint(1, n_ops - 1)
        b = step * r.choice([0, 0, 1, 2])
        prev_end = None
        for k in range(n_ops):
            which = r.choice([[0, 1, 2, 3], [0, 1, 2, 3], [0, 1, 2, 3], [1, 2], [0, 2, 3], [2], [0, 1, 2]])
            ln = [0.0 if r.random() < p_zero else step * r.choice([1, 1, 2, 3]) for _ in range(4)]
            if ln[2] == 0.0:                  # a Cmpt Exec of zero cycles is outside the tool's input domain
                ln[2] = step                  # (pipeline/stats.py asserts dur > 0 for it: the run aborts, no export)
            first_zero = ln[which[0]] == 0.0  # (every phase subset holds the Exec, so every op has a real length)
            if prev_end is not None:
                b = prev_end + step * r.choice([0, 1, 1, 2])
                if first_zero and b - prev_end < step:
                    b = prev_end + step       # the host record of a zero-length first phase starts half a step early
            bounds = [b]
            for i in range(4):
                bounds.append(bounds[-1] + ln[i])
            ts5 = {f"TS{i + 1}": str(c0 + int(round(bounds[i] * 1000))) for i in range(5)}
            for i in which:
                uid += 1
                end = T0 + bounds[i + 1]
                hdur = ln[i] if ln[i] > 0 else step / 2
                dma = i in (0, 3)
                tid = {"one": 7, "two": 8 if dma else 7, "switch": 8 if (dma and k >= k_sw) else 7,
                       "four": 7 + i}[layout]
                evs.append({"name": f"op{k}{PHASES[i]}", "ph": "X", "pid": pid, "tid": tid, "ts": end - hdur,
                            "dur": hdur, "args": dict(ts5, Power=str(1000 + 37 * uid), uid=uid)})
            prev_end = bounds[4]
        for tid in (3, 4):
            t = T0 + step * r.choice([0, 0, 1, 2, 4])
            for k in range(r.randint(0, 3)):
                uid += 1
                d = step * r.choice([1, 2, 2, 3, 4, 6])
                evs.append({"name": f"host{tid}_{k}", "ph": "X", "pid": pid, "tid": tid, "ts": t, "dur": d,
                            "args": {"uid": uid}})
                t += d + step * r.choice([0, 0, 1, 2])
        evs.sort(key=lambda e: e["ts"])          # stable: a FLEX file is ordered by ts
        files.append(evs)
    return {"kind": "e2e", "files": files, "R": R, "coll": False, "phases": True}


BIG_OPTS = [[], ["-C", "power_ts4", "prep_queue", "--keep_prep"], ["--flow"], ["--tb"], ["-O", "drop", "-t"], ["-C"],
            ["--drop_globals", "-C", "prep_queue"], ["-M", "--flow", "--keep_prep"]]


def gen_big_scenario(r, n_slices=None):
    """the size x ties region: 1-3 one-rank FLEX files with 3000..6000 slices overall.  All ranks share one grid of
    start times; at a start time a rank opens 1..6 nested host slices (one tid per nesting level, so no two slices
    of a tid overlap) with durations drawn WITH repetition from a small set - equal-ts groups of different (and
    sometimes equal) durations inside and across ranks are the rule.  A sparse stream of device Exec kernels with
    cycle counters sits on the same grid, so the counter / prep-queue / tb options have something to synthesize.
    Events of one start time are written in random order (a FLEX file is ordered by ts only)."""
    R = r.choice([1, 2, 2, 3])
    N = n_slices or r.randint(3000, 6000)
    T0 = 1000.0
    step = r.choice([1.0, 2.0, 0.5])
    width = r.choice([16, 32, 64])
    slot = step * width
    files, uid = [], 0
    for pid in range(R):
        evs, s = [], r.choice([0, 0, 1, 2])
        c0 = 1000000 + r.randrange(0, 1000) * 16

        def cyc(t_, d_, c0=c0):
            a_ = c0 + int(round((t_ - T0) * 1000))
            b_ = c0 + int(round((t_ + d_ - T0) * 1000))
            return {"TS1": str(a_), "TS2": str(a_ + 16), "TS3": str(a_ + 32), "TS4": str(b_ - 64), "TS5": str(b_)}
        quota = N // R + (1 if pid < N % R else 0)
        n, k = 0, 0
        p_dev = r.choice([0.0, 0.05, 0.15])
        while n < quota:
            t = T0 + slot * s
            depth = min(r.choice([1, 2, 3, 4, 4, 5, 6]), quota - n)
            grp = []
            for lvl in range(depth):
                uid += 1
                d = step * r.choice([1, 2, 2, 3, 4, 6, 8, 12, width - 1])
                grp.append({"name": f"host{lvl}_{k}", "ph": "X", "pid": pid, "tid": 3 + lvl, "ts": t, "dur": d,
                            "args": {"uid": uid}})
            n += depth
            if r.random() < p_dev and n < quota:
                uid += 1
                d = step * r.choice([1, 2, 3, 4, 8])
                grp.append({"name": f"op{k} Cmpt Exec", "ph": "X", "pid": pid, "tid": 10, "ts": t, "dur": d,
                            "args": dict(cyc(t, d), Power=str(1000 + 37 * (uid % 50)), uid=uid)})
                n += 1
            r.shuffle(grp)
            evs += grp
            k += 1
            s += r.choice([1, 1, 1, 1, 2, 3])
        files.append(evs)
    return {"kind": "e2e", "files": files, "R": R, "coll": False, "big": True}


def grid_scenario(ranks, slots, lanes, period=1000.0, opts=None, **_):
    """corpus kind e2e_grid (written out it would be megabytes): every `period` us each rank opens `lanes` nested
    host slices at the same ts, all durations of one ts value distinct over the ranks; file order = shortest first"""
    files = []
    for pid in range(ranks):
        evs = []
        for s in range(slots):
            for lane in reversed(range(lanes)):
                evs.append({"name": f"host_fn_{lane}", "ph": "X", "pid": pid, "tid": 10 + lane,
                            "ts": 1000.0 + period * s, "dur": period * 0.8 - (period / 10) * lane - (period / 40) * pid,
                            "args": {"uid": len(evs)}})
        files.append(evs)
    return {"kind": "e2e", "files": files, "R": ranks, "coll": False, "big": slots * lanes * ranks >= 1000}


def gen_big_kernel_case(r):
    """stage-level drive of the real sorter with hundreds to thousands of queued events (sizes around the powers of
    two 256..8192), few distinct ts values per event count, durations with repetition, some events without dur"""
    u = r.random()
    if u < 0.6:
        cfg = [None, "ts,dur:r", True]
    elif u < 0.8:
        cfg = [None, "ts,dur:r", False]
    else:
        cfg = [r.choice([None, ["X"], ["X", "C"]]), r.choice(["ts,dur:r", "ts", "dur:r,ts", "ts,dur", "ts,dur:r,x"]),
               r.random() < 0.5]
    n = r.choice([256, 512, 1024, 2048, 4096, 8192]) + r.choice([-1, 0, 0, 1, r.randint(2, 200)])
    group = r.choice([2, 4, 8, 16, 64])
    nts = max(1, n // group)
    ops = []
    for uid in range(1, n + 1):
        ph = r.choice(["X", "X", "X", "X", "X", "C", "M", "f"])
        e = {"ph": ph, "pid": r.choice([0, 0, 1, 2]), "tid": r.choice([0, 1, 2, 7]), "name": f"e{uid}",
             "args": {"uid": uid}, "ts": float(r.randrange(nts)) if r.random() < 0.7 else r.randrange(nts)}
        if ph == "X" or r.random() < 0.1:
            e["dur"] = r.choice([1, 2, 2, 3, 4, 6, 8, 0.5, 12.0])
        if r.random() < 0.2:
            e["x"] = r.choice([0, 1, 2])
        ops.append(["sort", e])
    ops.append(["drain"])
    return {"kind": "kernel", "cfg": cfg, "ops": ops, "big": True}


def _ddmin(items, still_bad, budget, floor=1):
    """remove chunks (halves, quarters, ...) while the failure stays; bounded by wall time"""
    t0 = time.time()
    chunk = max(floor, len(items) // 2)
    while chunk >= floor and time.time() - t0 < budget and len(items) > 1:
        k, removed = 0, False
        while k < len(items) and time.time() - t0 < budget:
            cand = items[:k] + items[k + chunk:]
            if cand and len(cand) < len(items) and still_bad(cand):
                items, removed = cand, True
            else:
                k += chunk
        if not removed or chunk > max(floor, len(items) // 2):
            chunk //= 2
    return items


def _snapshot(ev):
    return {k: ev[k] for k in ("ph", "pid", "tid", "ts", "dur", "name") if k in ev}


def run_e2e(sc, opts, ctx_work, paths=None):
    """Acelyzer in process.  Returns dict(err | file_events, inflow snapshots, exported uids, last stage name, ...)"""
    from aiu_trace_analyzer.core.acelyzer import Acelyzer
    import aiu_trace_analyzer.logger as aiulog
    indir, ps = paths
    shutil.rmtree(indir, ignore_errors=True)
    os.makedirs(indir)
    used = ps[:len(sc["files"])]
    for p, evs in zip(used, sc["files"]):
        with open(p, "w") as f:
            json.dump(evs, f)
    outd = os.path.join(ctx_work, "out")
    shutil.rmtree(outd, ignore_errors=True)
    os.makedirs(outd)
    outp = os.path.join(outd, "out.json")
    rec = {"inflow": [], "conv": [], "exported": [], "last": None, "hook": None}

    class Hooked(Acelyzer):
        def register_processing_functions(self, process, args, exporter):
            super().register_processing_functions(process, args, exporter)
            try:
                idx = max(i for i, st in enumerate(process.stages)
                          if getattr(st[0], "__name__", "") != "duplicate_and_hold")
                cb, cx, kw = process.stages[idx]
                rec["last"] = getattr(cb, "__name__", "?")

                def rec_cb(event, context, *a_):
                    rec["inflow"].append((event, _snapshot(event)))
                    return cb(event, context, *a_)
                rec_cb.__name__ = rec["last"]
                process.stages[idx] = (rec_cb, cx, kw)
                conv0 = process.convert_events

                def conv(event_list):
                    out = conv0(event_list)
                    rec["conv"].extend(zip(event_list, out))
                    return out
                process.convert_events = conv
                exp0 = exporter.export

                def exp(data):
                    rec["exported"].extend(data)
                    return exp0(data)
                exporter.export = exp
                rec["hook"] = "ok"
            except Exception as e:  # noqa: BLE001
                rec["hook"] = f"{type(e).__name__}: {e}"
    opts = list(opts)
    if "@LOG" in opts:
        # a single-table compiler log listing every Cmpt Exec kernel of the scenario with non-zero ideal cycles
        names = sorted({e["name"].rsplit(" Cmpt Exec", 1)[0] for evs in sc["files"] for e in evs
                        if isinstance(e.get("name"), str) and e["name"].endswith(" Cmpt Exec")})
        lines = ["[DeepRT] ===== Perf BEGIN =====", "====== Perf Summary ======", "~~~~ Ideal/Total Cycles ~~~~", "-" * 91,
                 "Name" + " " * 76 + "Ideal Cy.", "-" * 91]
        lines += [f"{n}-opCatConv_fp16".ljust(80) + "4096".ljust(15) for n in names]
        lines += ["-" * 91, f"Total\t\t\t\t\t\t\t\t\t\t{4096 * len(names)}", "-" * 91, "====== Perf Summary End ======",
                  "[DeepRT] ===== Perf END ====="]
        logp = os.path.join(indir, "comp.log")
        open(logp, "w").write("\n".join(lines) + "\n")
        opts[opts.index("@LOG")] = logp
    try:
        with quiet():
            a = Hooked(["-i", ",".join(used), "-o", outp, "-D", "0"] + list(opts))
            aiulog.loglevel = -1
            rc = a.run()
        if rc != 0:
            return {"err": f"rc{rc}"}
    except SystemExit as e:
        return {"err": f"SystemExit{e.code}"}
    except Exception as e:  # noqa: BLE001
        return {"err": type(e).__name__, "msg": str(e)[:200]}
    fn = outp
    if not os.path.exists(fn):
        cand = [p for p in glob.glob(os.path.join(outd, "*.json")) if "_worker_" not in p]
        fn = cand[0] if cand else None
    if not fn:
        return {"err": "no_output_file"}
    te = json.load(open(fn))["traceEvents"]
    d2i = {id(d): i for i, (d, _) in enumerate(rec["inflow"])}
    o2d = {id(o): d for d, o in rec["conv"]}
    exp_uids = []
    for o in rec["exported"]:
        d = o2d.get(id(o))
        exp_uids.append(d2i.get(id(d), -1) if d is not None else -1)
    proj_mem = [(getattr(o, "ph", None), getattr(o, "ts", None)) for o in rec["exported"]]
    proj_file = [(e.get("ph"), e.get("ts")) for e in te]
    return {"file_events": te, "inflow": [s for _, s in rec["inflow"]], "exported_uids": exp_uids,
            "last": rec["last"], "hook": rec["hook"], "file_is_export_order": proj_mem == proj_file}


def _okey(e):
    d = e.get("dur")
    return (e["ts"], -(d if _num(d) else 0))


def oracle_order(te):
    """the property, on the written traceEvents only: first offending pair (brute force over all pairs)"""
    for i, e in enumerate(te):
        if not _num(e.get("ts")):
            return {"kind": "exported_event_without_numeric_ts", "ph": e.get("ph"), "index_from_end": len(te) - i,
                    "first": i == 0}, (i, i)
    worst = None
    for i in range(len(te) - 1):
        if _okey(te[i]) > _okey(te[i + 1]):
            worst = (i, i + 1)
            break
    if worst is None and len(te) <= 150:      # brute force over all pairs (implied by the adjacent test; kept as a guard)
        for j in range(len(te)):
            kj = _okey(te[j])
            for i in range(j):
                if _okey(te[i]) > kj:
                    worst = (i, j)
                    break
            if worst:
                break
    if not worst:
        return None, None
    a, b = te[worst[0]], te[worst[1]]
    kind = "ts_decreases" if a["ts"] > b["ts"] else "tie_shorter_before_longer"
    sig = {"kind": kind, "first_ph": a.get("ph"), "second_ph": b.get("ph"),
           "across_ranks": a.get("pid") != b.get("pid"),
           "synthesized_involved": a.get("ph") in SYNTH_PH or b.get("ph") in SYNTH_PH,
           "second_has_dur": "dur" in b, "first_has_dur": "dur" in a}
    return sig, worst


def e2e_failures(sc, opts, res):
    fails = []

    def fail(sig, expected, observed):
        sig = dict(sig, stream="e2e")
        fails.append({"input": {"kind": "e2e", "files": sc["files"], "opts": list(opts)}, "expected": expected,
                      "observed": observed, "signature": sig})
    if "err" in res:
        fail({"kind": "e2e_exception", "exc": res["err"]}, "run completes with exit 0", res)
        return fails
    sig, pair = oracle_order(res["file_events"])
    if sig:
        i, j = pair
        te = res["file_events"]
        fail(sig, "for i < j: (ts_i, -dur_i) <= (ts_j, -dur_j), missing dur = 0",
             {"index": [i, j], "events": [{k: te[x].get(k) for k in ("ph", "name", "pid", "tid", "ts", "dur")}
                                          for x in (i, j)], "n_events": len(te)})
    return fails


def shrink_e2e(f, ctx, paths, budget=60.0):
    kind = f["signature"]["kind"]
    opts = f["input"]["opts"]
    files = [list(x) for x in f["input"]["files"]]
    t0 = time.time()

    def bad(fl):
        sc = {"files": fl}
        fs = e2e_failures(sc, opts, run_e2e(sc, opts, ctx.work, paths))
        return [x for x in fs if x["signature"]["kind"] == kind]
    if sum(len(x) for x in files) > 400:     # large scenario: whole ranks, then chunks of events
        units = [(fi, ev) for fi, fl in enumerate(files) for ev in fl]

        def regroup(us):
            fl = [[] for _ in files]
            for fi, ev in us:
                fl[fi].append(ev)
            return [x for x in fl if x]
        units = _ddmin(units, lambda us: bool(bad(regroup(us))), budget=budget, floor=64)
        files = regroup(units)
    changed = sum(len(x) for x in files) <= 400
    while changed and time.time() - t0 < budget:
        changed = False
        for fi in range(len(files)):
            k = 0
            while k < len(files[fi]) and time.time() - t0 < budget:
                ev = files[fi][k]
                # B/E pairs go together
                drop = [x for x in files[fi] if x is ev or (ev["ph"] in "BE" and x["ph"] in "BE"
                                                            and x["args"].get("uid") == ev["args"].get("uid"))]
                f2 = [list(x) for x in files]
                f2[fi] = [x for x in files[fi] if not any(x is y for y in drop)]
                if any(f2) and bad(f2):
                    files, changed = f2, True
                else:
                    k += 1
    fs = bad(files)
    return fs[0] if fs else f


def coq_e2e_case(names, tscyc, inflow):
    return enc.P(names.nm(tscyc), enc.L([coq_sev(names, i, s, ["ts", "dur"]) for i, s in enumerate(inflow)]))


def scen_hash(sc, opts):
    return hashlib.sha1(json.dumps([sc["files"], list(opts)], sort_keys=True).encode()).hexdigest()[:16]


# ====================================================================== corpus
def load_corpus():
    d = os.path.join(coqrun.VERIF, "corpus", "C08")
    out = []
    if os.path.isdir(d):
        for fn in sorted(os.listdir(d)):
            if fn.endswith(".json"):
                c = json.load(open(os.path.join(d, fn)))
                for x in (c if isinstance(c, list) else [c]):
                    x["_file"] = fn
                    out.append(x)
    return out



def _cases(name, imports, ty, func, terms, mism, what, **kw):
    """coqrun.run_cases; a cases file that does not evaluate is a broken tie, not the end of the run"""
    try:
        return coqrun.run_cases(name, imports, ty, func, terms, **kw)
    except coqrun.BuildError as e:
        mism.append({"name": f"model does not evaluate ({what}): {e.what}", "case": {}, "impl": e.log[-1500:]})
        return [], {}, 0.0


# ====================================================================== check
def run(ctx):
    r = ctx.rng
    corpus = load_corpus()
    mism, fails, ties, notes = [], [], [], []
    dist = {"kernel_cfg": {}, "kernel_ops": {}, "kernel_big_queue": {}, "e2e_ranks": {}, "e2e_opts": {},
            "e2e_synth_ph": {}, "e2e_errors": {}, "e2e_events": {}, "e2e_ties": 0, "e2e_big": [],
            "e2e_zero_length_slices": 0, "e2e_zero_length_slices_tied_with_event_without_dur": 0,
            "e2e_no_counter_no_flow_runs_with_metadata": 0}
    from aiu_trace_analyzer.constants import TS_CYCLE_KEY

    # ---------------- tie 1: _parse_sortkey
    keys = ["ts,dur:r", "ts", "", ",", ":", ":r", "a:r:r", "a:rr", "ts,,dur:r", "x:r,", "r:r", "ts,dur:R"] + SORTKEYS + \
           [c["key"] for c in corpus if c.get("kind") == "parse"]
    for _ in range(ctx.pick(300, 3000)):
        keys.append(gen_sortkey(r))
    keys = list(dict.fromkeys(keys))
    nm1 = Names()
    terms = [(nm1.nm(k), enc.V(drive_parse(k))) for k in keys]
    bad, _, secs = _cases("C08_parse", "From AiuModel Require Import Sort.", "string", "parse_val", terms, mism,
                          "parse", prelude=nm1.prelude())
    mism += [{"name": "correspondence Sort.parse_sortkey vs EventSortingContext._parse_sortkey",
              "case": {"sortkey": keys[j]}, "impl": terms[j][1][:300]} for j in bad[:3]]
    ties.append({"name": "Sort.parse_val = EventSortingContext(sortkey=s).sortkey", "cases": len(keys),
                 "mismatching": len(bad), "coq_seconds": round(secs, 1)})
    # the documented meaning of the default key, stated independently
    for k, want in (("ts,dur:r", [["ts", 1], ["dur", -1]]), ("ts", [["ts", 1]])):
        got = drive_parse(k)
        if got != want:
            fails.append({"input": {"kind": "parse", "key": k}, "expected": want, "observed": repr(got),
                          "signature": {"kind": "sortkey_parsed_wrong", "stream": "parse", "key": k}})

    # ---------------- tie 2: operation sequences on the real context
    kcases = [c for c in corpus if c.get("kind") == "kernel"]
    n_corpus_k = len(kcases)
    for _ in range(ctx.pick(2000, 50000)):
        kcases.append(gen_kernel_case(r))
    nm2 = Names()
    terms, seen, nontriv_k = [], set(), 0
    kfails = []
    for c in kcases:
        obs = drive_ops(c)
        terms.append((coq_kernel_case(nm2, c), enc.V(obs)))
        kfails += oracle_kernel(c, obs)[:1]
        h = hashlib.sha1(json.dumps([c["cfg"], c["ops"]], sort_keys=True).encode()).hexdigest()
        if h not in seen:
            seen.add(h)
            evs = [o[-1] for o in c["ops"] if o[0] != "drain"]
            tss = [e["ts"] for e in evs if "ts" in e]
            if len(evs) >= 2 and len(set(tss)) < len(tss):
                nontriv_k += 1
        ck = {json.dumps([None, "ts,dur:r", True]): "final sort (None, ts,dur:r, global)",
              json.dumps([None, "ts,dur:r", False]): "first sort (None, ts,dur:r, per lane)",
              json.dumps([["C"], "TS_cycles", False]): "counter sort (['C'], TS_cycles, per lane)"}.get(
                  json.dumps(c["cfg"]), "other filter/key/global variants")
        dist["kernel_cfg"][ck] = dist["kernel_cfg"].get(ck, 0) + 1
        no = len(c["ops"])
        dist["kernel_ops"][no] = dist["kernel_ops"].get(no, 0) + 1
    bad, _, secs = _cases("C08_ops", "From AiuModel Require Import Sort.",
                          "((option (list string) * string * bool) * list (op sev))", "ops_val", terms, mism, "ops",
                          prelude=nm2.prelude(), shard=250)
    mism += [{"name": "correspondence Sort.run_ops vs EventSortingContext sort/insert/drain",
              "case": {k: kcases[j][k] for k in ("cfg", "ops")}, "impl": terms[j][1][:400]} for j in bad[:3]]
    ties.append({"name": "Sort.ops_val = results of sort_events/insert/drain on the real EventSortingContext",
                 "cases": len(kcases), "mismatching": len(bad), "coq_seconds": round(secs, 1)})
    # large queues on the real sorter: oracle only (the model's insertion sort over thousands of literals is slow)
    n_bigk = ctx.pick(16, 200)
    t_bk = time.time()
    for _ in range(n_bigk):
        c = gen_big_kernel_case(r)
        kfails += oracle_kernel(c, drive_ops(c))[:1]
        b = len(c["ops"]) - 1
        b = 1 << (b.bit_length() - 1)
        dist["kernel_big_queue"][b] = dist["kernel_big_queue"].get(b, 0) + 1
    notes.append(f"{n_bigk} large operation sequences (255..8400 queued events, oracle only) in {time.time() - t_bk:.1f}s")
    seen_k = set()
    for f in kfails:
        if f["signature"]["kind"] not in seen_k and len(seen_k) < 2:
            seen_k.add(f["signature"]["kind"])
            fails.append(shrink_kernel(f))

    # ---------------- tie 3: sorter configurations created by the real register_processing_functions
    try:
        atoms = _tr().analyze(coqrun.REPO)["atoms"]
    except Exception as e:  # noqa: BLE001   check.py reports the translator failure
        atoms = None
        notes.append("translator refused the source; sorter-configuration tie skipped: " + repr(e)[:200])
    swork = os.path.join(ctx.work, "sorters")
    os.makedirs(swork, exist_ok=True)
    if atoms is not None:
        nm3 = Names()
        terms, sargs = [], []
        for argv in SORTER_ARGV:
            try:
                val, cfgs, last, tsc = drive_sorters(argv, swork, atoms)
            except (Exception, SystemExit) as e:  # noqa: BLE001
                notes.append(f"sorters: {argv}: {type(e).__name__}")
                continue
            terms.append((enc.P(enc.L([enc.B(b) for b in val]), nm3.nm(tsc)), enc.V(cfgs)))
            sargs.append(argv)
            want_last = [None, [["ts", 1], ["dur", -1]], True]
            if "-I" not in argv and (last != "sort_events" or not cfgs or cfgs[-1] != want_last):
                fails.append({"input": {"kind": "sorters", "argv": argv},
                              "expected": {"last_stage": "sort_events", "config": want_last},
                              "observed": {"last_stage": last, "config": cfgs[-1] if cfgs else None},
                              "signature": {"kind": "last_registered_stage_is_not_the_global_ts_dur_sort",
                                            "stream": "sorters", "last_stage": last,
                                            "config_differs": bool(cfgs) and cfgs[-1] != want_last}})
        bad, _, secs = _cases("C08_sorters", "From AiuModel Require Import Sort C08Model.",
                              "(list bool * string)", "sorters_val", terms, mism, "sorters", prelude=nm3.prelude())
        mism += [{"name": "correspondence C08Model.sorters_val (constructor text of gen/Registration.v) vs the "
                          "EventSortingContext objects of the real register_processing_functions",
                  "case": {"argv": sargs[j]}, "impl": terms[j][1][:400]} for j in bad[:3]]
        ties.append({"name": "C08Model.sorters_val = sorter contexts registered by the real code", "cases": len(terms),
                     "mismatching": len(bad), "coq_seconds": round(secs, 1)})
    shutil.rmtree(swork, ignore_errors=True)

    # ---------------- tie 4: end to end
    paths = e2e_paths(ctx)
    e2e = [({"files": c["files"]}, c["opts"]) for c in corpus if c.get("kind") == "e2e"]
    e2e += [(grid_scenario(**c), c["opts"]) for c in corpus if c.get("kind") == "e2e_grid"]
    n_corpus_e = len(e2e)
    n_sc = ctx.pick(150, 2000)
    for k in range(n_sc):
        sc = gen_scenario(r)
        for opts in ([E2E_OPTS[k % len(E2E_OPTS)], r.choice(E2E_OPTS)] if ctx.quick() else r.sample(E2E_OPTS, 3)):
            e2e.append((sc, opts))
    # option sets that switch synthesizers off, by index: each of the 16 sets meets >= ctx.pick(9, ..) scenarios
    for k in range(n_sc):
        e2e.append((e2e[n_corpus_e + 2 * k][0] if ctx.quick() else gen_scenario(r), OFF_OPTS[k % len(OFF_OPTS)]))
    # device operations written as phases, any of which may be of zero length (gen_phase_scenario), under the OFF
    # sets and the ordinary sets, by index
    n_ph = ctx.pick(120, 1500)
    ph_opts = OFF_OPTS + E2E_OPTS
    for k in range(n_ph):
        sc = gen_phase_scenario(r)
        e2e.append((sc, ph_opts[k % len(ph_opts)]))
        e2e.append((sc, r.choice(ph_opts)))
    # size x ties: a few large scenarios (oracle on the written file; thorough: the first one also goes through the model)
    n_big = ctx.pick(4, 40)
    for k in range(n_big):
        e2e.append((gen_big_scenario(r), BIG_OPTS[k % len(BIG_OPTS)] if k < 2 or r.random() < 0.5 else r.choice(E2E_OPTS)))
    nm4 = Names()
    terms, tcases, nontriv_e, efails = [], [], set(), []
    t_e2e = time.time()
    big_tied = 0
    for sc, opts in e2e:
        res = run_e2e(sc, opts, ctx.work, paths)
        fl = e2e_failures(sc, opts, res)
        efails += fl[:1]
        ok_ = json.dumps(opts)
        dist["e2e_opts"][ok_] = dist["e2e_opts"].get(ok_, 0) + 1
        nr = len(sc["files"])
        dist["e2e_ranks"][nr] = dist["e2e_ranks"].get(nr, 0) + 1
        if "err" in res:
            dist["e2e_errors"][res["err"]] = dist["e2e_errors"].get(res["err"], 0) + 1
            continue
        te = res["file_events"]
        if res["hook"] != "ok":
            mism.append({"name": "end-to-end tie: wrappers could not be installed on the last stage",
                         "case": {"opts": opts}, "impl": res["hook"]})
            continue
        if not res["file_is_export_order"]:
            mism.append({"name": "end-to-end tie: traceEvents of the written file are not in export-call order",
                         "case": {"files": sc["files"], "opts": opts}, "impl": "order of (ph, ts) differs"})
            continue
        if not all(_num(s.get("ts")) or "ts" not in s for s in res["inflow"]):
            continue            # reported by the oracle (non numeric ts)
        if sc.get("big"):
            te_ = res["file_events"]
            groups = {}
            for e_ in te_:
                groups.setdefault(e_.get("ts"), set()).add(e_.get("dur"))
            dist["e2e_big"].append({"events": len(te_), "ranks": len(sc["files"]), "opts": list(opts),
                                    "ts_groups_with_different_dur": sum(1 for g in groups.values() if len(g) > 1)})
            if len(te_) >= 1000 and sum(1 for g in groups.values() if len(g) > 1) >= 100:
                nontriv_e.add(scen_hash(sc, opts))
            big_tied += 1
            if big_tied > ctx.pick(0, 1):     # the model's insertion sort needs ~2 min for 4000 literals
                continue
        terms.append((coq_e2e_case(nm4, TS_CYCLE_KEY, res["inflow"]), enc.V(res["exported_uids"])))
        tcases.append((sc, opts, res["last"]))
        phs = {}
        for e in te:
            phs[e.get("ph")] = phs.get(e.get("ph"), 0) + 1
        for p, n in phs.items():
            if p in SYNTH_PH:
                dist["e2e_synth_ph"][p] = dist["e2e_synth_ph"].get(p, 0) + n
        nodur_ts = {e.get("ts") for e in te if "dur" not in e}
        for e in te:
            if e.get("ph") == "X" and e.get("dur") == 0:
                dist["e2e_zero_length_slices"] += 1
                if e.get("ts") in nodur_ts:
                    dist["e2e_zero_length_slices_tied_with_event_without_dur"] += 1
        if "M" in phs and not any(p in phs for p in ("C", "s", "f")):
            dist["e2e_no_counter_no_flow_runs_with_metadata"] += 1
        tsl = [e.get("ts") for e in te]
        nt = len(tsl) - len(set(tsl))
        dist["e2e_ties"] += nt
        b = min(len(te) // 20 * 20, 200) if len(te) < 1000 else 1000
        dist["e2e_events"][b] = dist["e2e_events"].get(b, 0) + 1
        if len({e.get("pid") for e in te}) >= 2 and any(p in SYNTH_PH for p in phs) and nt > 0:
            nontriv_e.add(scen_hash(sc, opts))
    e2e_secs = time.time() - t_e2e
    bad, _, secs = _cases("C08_e2e", "From AiuModel Require Import Sort C08Model.", "(string * list sev)",
                          "final_val", terms, mism, "e2e", prelude=nm4.prelude(), shard=40)
    mism += [{"name": "correspondence C08Model.final_val (last registration of the generated program applied to the "
                      "recorded inflow of the last real stage) vs exported order of Acelyzer.run()",
              "case": {"files": tcases[j][0]["files"], "opts": tcases[j][1], "last_real_stage": tcases[j][2]},
              "impl": terms[j][1][:300]} for j in bad[:3]]
    ties.append({"name": "C08Model.final_val(inflow of last stage) = exported order, Acelyzer in process",
                 "cases": len(terms), "mismatching": len(bad), "coq_seconds": round(secs, 1),
                 "impl_seconds": round(e2e_secs, 1)})
    seen_e = set()
    for f in efails:
        k = f["signature"]["kind"]
        if k not in seen_e and len(seen_e) < 2:
            seen_e.add(k)
            fails.insert(0, shrink_e2e(f, ctx, paths, budget=ctx.pick(45, 300)))
    shutil.rmtree(paths[0], ignore_errors=True)
    shutil.rmtree(os.path.join(ctx.work, "out"), ignore_errors=True)

    return {
        "evaluations": len(keys) + len(kcases) + n_bigk + len(SORTER_ARGV) + len(e2e),
        "distinct_nontrivial": len(nontriv_e) + nontriv_k,
        "rule": "non-trivial = (a) DISTINCT end-to-end (scenario, option set) runs whose export holds >= 2 pids, >= 1 "
                "synthesized event (counter, flow arrow or metadata) and >= 1 pair of equal timestamps "
                f"({len(nontriv_e)}) + (b) DISTINCT operation sequences with >= 2 events and >= 1 repeated ts "
                f"({nontriv_k}). Streams: {len(keys)} sortkey strings; {len(kcases)} operation sequences "
                f"({n_corpus_k} corpus) over all filter/key/global variants, 45% in the final sort's configuration; "
                f"{len(SORTER_ARGV)} argument vectors for the sorter configurations; {len(e2e)} end-to-end runs "
                f"({n_corpus_e} corpus) = {n_sc} generated 1-4 rank scenarios x option sets {E2E_OPTS} and, by index, the "
                f"16 switch-off sets (subsets of --flow/--disable_tb/-t/empty -C) + {n_ph} scenarios of device operations "
                f"written as DmaI/Prep/Exec/DmaO phases of which any but the Exec may have zero length, x the same 30 "
                f"option sets by index + {n_big} large "
                f"scenarios (3000..6000 slices, 1-3 ranks, nested equal-ts groups; counted as non-trivial when the export "
                f"holds >= 1000 events and >= 100 ts values with different durations); {n_bigk} large operation "
                f"sequences (255..8400 queued events), oracle only",
        "samples": [{"kernel": {k: kcases[-1][k] for k in ("cfg", "ops")}},
                    {"e2e_opts": e2e[-1][1], "e2e_files": e2e[-1][0]["files"]}],
        "mismatches": mism, "oracle_failures": fails[:4], "ties": ties, "distribution": dist, "notes": notes,
        "traces_validated_against_impl": len(terms),
    }


def search(ctx, res, broken):
    """something broke but the run's oracle was silent: more end-to-end scenarios (all option sets) and more
    operation sequences, oracle only, bounded by time"""
    r = random.Random(ctx.seed + 101)
    t0 = time.time()
    limit = ctx.pick(90, 600)
    paths = e2e_paths(ctx)
    try:
        n = 0
        while time.time() - t0 < limit:
            n += 1
            if n % 4 == 1:          # the size x ties region first
                sc = gen_big_scenario(r)
                opts = r.choice(BIG_OPTS)
                fl = e2e_failures(sc, opts, run_e2e(sc, opts, ctx.work, paths))
                if fl:
                    return [shrink_e2e(fl[0], ctx, paths, budget=45)]
                for _ in range(6):
                    c = gen_big_kernel_case(r)
                    fl = oracle_kernel(c, drive_ops(c))
                    if fl:
                        return [shrink_kernel(fl[0])]
            elif n % 3:
                sc = gen_phase_scenario(r) if n % 2 else gen_scenario(r)
                for opts in r.sample(E2E_OPTS, 2) + [OFF_OPTS[n % len(OFF_OPTS)]]:
                    fl = e2e_failures(sc, opts, run_e2e(sc, opts, ctx.work, paths))
                    if fl:
                        return [shrink_e2e(fl[0], ctx, paths, budget=45)]
            else:
                for _ in range(200):
                    c = gen_kernel_case(r)
                    fl = oracle_kernel(c, drive_ops(c))
                    if fl:
                        return [shrink_kernel(fl[0])]
    finally:
        shutil.rmtree(paths[0], ignore_errors=True)
        shutil.rmtree(os.path.join(ctx.work, "out"), ignore_errors=True)
    return []


def replay(ctx, payload):
    f = payload.get("failing")
    if not f:
        return True, "replay file names only broken obligations: " + str(payload.get("broken"))[:500]
    inp = f["input"]
    kind = inp.get("kind")
    if kind == "kernel":
        obs = drive_ops(inp)
        fl = oracle_kernel(inp, obs)
        return not fl, {"observed": repr(obs)[:800], "failures": [x["signature"] for x in fl]}
    if kind == "parse":
        got = drive_parse(inp["key"])
        return got == f["expected"], {"observed": repr(got)}
    if kind == "sorters":
        atoms = _tr().analyze(coqrun.REPO)["atoms"]
        swork = os.path.join(ctx.work, "sorters")
        os.makedirs(swork, exist_ok=True)
        val, cfgs, last, _ = drive_sorters(inp["argv"], swork, atoms)
        ok = last == "sort_events" and bool(cfgs) and cfgs[-1] == [None, [["ts", 1], ["dur", -1]], True]
        return ok, {"last_stage": last, "sorters": cfgs}
    if kind == "e2e":
        paths = e2e_paths(ctx)
        sc = {"files": inp["files"]}
        res = run_e2e(sc, inp["opts"], ctx.work, paths)
        fl = e2e_failures(sc, inp["opts"], res)
        shutil.rmtree(paths[0], ignore_errors=True)
        return not fl, {"failures": [{"signature": x["signature"], "observed": x["observed"]} for x in fl],
                        "n_events": len(res.get("file_events", []))}
    return True, "unknown replay kind"
