"""C19 — time-weighted power statistics partition time correctly and respect bounds (--power-stats).

Tie: the REAL PowerStatisticsContext methods (_merge_periods, _split_power_period,
_compute_weighted_stats), the real dispatcher analyze_power_statistics and the real drain() are run on
exhaustive small integer grids and on random exact-rational inputs (fractions.Fraction: the code is
duck-typed, so every value it computes is an exact rational) and compared, inside Coq, with
PowerStats.{merge_val, split_val, split_merged_val, wstats_val, pipeline_val}; a float stream on a
dyadic grid checks _compute_weighted_stats with binary64 numbers (quotients within 2^-52 relative).
Oracle: brute-force grid integration written independently of the model: the time axis is cut into
unit cells, every cell gets the held power value and "covered by some kernel" from the RAW kernel
list, and durations / averages / bounds are recomputed from the cells.
"""
import contextlib
import io
import itertools
import json
import math
import os
import random
import re
import time
from fractions import Fraction

from common import coqrun, enc

ID = "C19"
PROP_FILE = "props/C19.v"
IMPORTS = "From AiuModel Require Import PowerStats."
THEOREMS = ["C19_merge_wf", "C19_merge_same_union", "C19_split_partition", "C19_split_measure",
            "C19_sampled_time", "C19_drain_partition", "C19_averages", "C19_bounds", "C19_drain_bounds",
            "C19_bounds_need_nonneg"]
ALLOWED_AXIOMS = []
MANIFEST = {
    "text": "Proof. Coq theorems over an executable Q-model of power_stats.py (dispatcher, _merge_periods, "
            "_split_power_period, _compute_weighted_stats, drain), for arbitrary event sequences and interval "
            "families (no size bound): the merged kernel timeline is sorted, strictly separated and covers exactly "
            "the points the raw kernels cover (C19_merge_wf, C19_merge_same_union); one power period is cut into "
            "consecutive segments of positive duration that tile [start,end), each flagged iff every point of it is "
            "covered by a kernel, the flagged durations adding up to the measure of the overlap with the kernel union "
            "(C19_split_partition, C19_split_measure); for time-sorted samples the periods add up to last-first "
            "(C19_sampled_time); dur_total(with) + dur_total(without) = sum of the power periods for every event "
            "sequence (C19_drain_partition); avg_total and mean_non_zero are sum(P*dt)/sum(dt) (C19_averages); "
            "min_nz <= median_nz <= max, min_nz <= mean_nz <= max, dur_nz <= dur_total for non-negative power "
            "(C19_bounds, C19_drain_bounds).  The model is tied to the code on every run by a correspondence over "
            "an exhaustive integer grid (all power periods x all ordered families of <= 2 kernels on 0..6) and "
            "random exact-rational inputs, evaluated with vm_compute.",
    "note": "Trusted: Coq kernel + vm_compute; the hand-written model PowerStats.v is tied by differential testing "
            "only (exact: the real code is run on fractions.Fraction, so all seven statistics are compared as exact "
            "rationals; a binary64 stream checks _compute_weighted_stats with a 2^-52 relative tolerance on the two "
            "quotients). Outside the model: one-ulp float effects (mean_non_zero may exceed max by one ulp in "
            "binary64), the %.2f formatting of the log lines (checked by the harness only), Python's sorted() "
            "stability. Bounds theorems assume Watts >= 0 (compute_power yields 0..100); with negative power "
            "min_non_zero=0 can exceed max (C19_bounds_need_nonneg). Quirks kept in the model: ts 0/None events "
            "ignored, pid ignored (all ranks share one timeline), an out-of-order sample replaces the previous one. "
            "Print Assumptions: closed under the global context.",
    "technique": "Coq proof (induction over the kernel timeline / event list, lra) + vm_compute correspondence "
                 "against the real PowerStatisticsContext + brute-force grid-integration oracle",
    "design_ref": "DESIGN.md section 4/C19",
}
TRUSTED = [
    "modelled, not verified: binary64 rounding (the exact tie runs the real code on fractions.Fraction; the float "
    "stream allows 2^-52 relative on the two quotients), '%.2f' log formatting, Python sorted()/list.sort stability, "
    "tuple comparison, str.__contains__",
    "drain() is observed through the INFO lines it logs (labels, order, 'No data') and through a recording wrapper "
    "around the instance's _compute_weighted_stats (exact values); the harness checks that every logged number is "
    "the %.2f rendering of the recorded value",
]
ASSUMPTIONS = [
    "bounds theorems: Watts >= 0 for every power sample (power.py clamps computed power to 0..100 W)",
    "C19_sampled_time: power samples arrive in non-decreasing ts order (the stage is registered after the "
    "counter sorting stage); the partition theorem C19_drain_partition needs no order",
    "numbers are exact rationals in the model; the code computes the same expressions in binary64",
]

KEYS = ["min_non_zero", "max", "mean_non_zero", "median_non_zero", "avg_total", "dur_total", "dur_non_zero"]
CORPUS = os.path.join(coqrun.VERIF, "corpus", ID)


# ---------------------------------------------------------------- numbers <-> JSON
def num(x):
    """JSON number (int | 'a/b' | float) -> Fraction"""
    if isinstance(x, Fraction):
        return x
    if isinstance(x, bool):
        raise TypeError("bool")
    if isinstance(x, int):
        return Fraction(x)
    if isinstance(x, float):
        return Fraction(*x.as_integer_ratio())
    return Fraction(x)


def jn(x):
    """Fraction/int/float -> JSON friendly, loss-free"""
    if x is None:
        return None
    f = enc.frac(x)
    return int(f) if f.denominator == 1 else f"{f.numerator}/{f.denominator}"


def jdeep(o):
    if isinstance(o, (Fraction, float)) or (isinstance(o, int) and not isinstance(o, bool)):
        return jn(o)
    if isinstance(o, (list, tuple)):
        return [jdeep(x) for x in o]
    if isinstance(o, dict):
        return {k: jdeep(v) for k, v in o.items()}
    if isinstance(o, enc.Err):
        return repr(o)
    return o


def pairs(l):
    return [(num(a), num(b)) for a, b in l]


# ---------------------------------------------------------------- implementation drivers
def _ps():
    import aiu_trace_analyzer.pipeline.power_stats as m
    return m


def guarded(f):
    def g(*a, **k):
        try:
            return f(*a, **k)
        except Exception as e:  # noqa: BLE001
            return enc.Err(type(e).__name__)
    return g


@guarded
def impl_merge(periods):
    return [tuple(x) for x in _ps().PowerStatisticsContext()._merge_periods(list(periods))]


@guarded
def impl_split(ps, pe, p, tl):
    return [tuple(x) for x in _ps().PowerStatisticsContext()._split_power_period(ps, pe, p, list(tl))]


@guarded
def impl_split_merged(ps, pe, p, kernels):
    c = _ps().PowerStatisticsContext()
    return [tuple(x) for x in c._split_power_period(ps, pe, p, c._merge_periods(list(kernels)))]


@guarded
def impl_wstats(segs):
    r = _ps().PowerStatisticsContext()._compute_weighted_stats(list(segs))
    return None if r is None else [r[k] for k in KEYS]


def mk_event(d, conv=lambda x: x):
    """JSON event description -> real TraceEvent.  keys: ph,name,ts,dur,pid,args ('none'|'empty'|number)"""
    from aiu_trace_analyzer.types import TraceEvent
    e = TraceEvent()
    for k in ("ph", "name", "pid"):
        if d.get(k) is not None:
            e[k] = d[k]
    for k in ("ts", "dur"):
        if d.get(k) is not None:
            e[k] = conv(num(d[k]))
    a = d.get("args", "none")
    if a == "empty":
        e["args"] = {"mWatts": 1}
    elif a != "none":
        e["args"] = {"Watts": conv(num(a))}
    return e


_LINE = re.compile(r"(Power with(?:out)? kernels): (.*?)\s*$")


def impl_pipeline(events, conv=lambda x: x):
    """Feed the events to the real dispatcher with a fresh context, then drain.
    Returns dict(state, drain, lines, passthrough, drain_ret) or Err."""
    import aiu_trace_analyzer.logger as aiulog
    m = _ps()
    try:
        ctx = m.PowerStatisticsContext()
        rec = []
        orig = ctx._compute_weighted_stats

        def wrapper(segments):
            segments = list(segments)
            r = orig(segments)
            rec.append((segments, r))
            return r
        ctx._compute_weighted_stats = wrapper
        passthrough = True
        for d in events:
            ev = mk_event(d, conv)
            out = m.analyze_power_statistics(ev, ctx)
            passthrough = passthrough and isinstance(out, list) and len(out) == 1 and out[0] is ev
        state = [[tuple(x) for x in ctx.power_periods],
                 None if ctx.last_power_sample is None else tuple(ctx.last_power_sample),
                 [tuple(x) for x in ctx.kernel_periods]]
        old = aiulog.loglevel
        buf = io.StringIO()
        try:
            aiulog.setloglevel(aiulog.INFO)
            with contextlib.redirect_stdout(buf):
                ret = ctx.drain()
        finally:
            aiulog.setloglevel(old)
        lines = []
        for ln in buf.getvalue().splitlines():
            mm = _LINE.search(ln)
            if mm:
                lines.append((mm.group(1), mm.group(2)))
        if not lines:
            drain = None
        elif len(rec) != len(lines):
            drain = enc.Err("drain_did_not_call__compute_weighted_stats_once_per_label")
        else:
            drain = [[lab, None if r is None else [r[k] for k in KEYS]] for (lab, _), (_, r) in zip(lines, rec)]
        return {"state": state, "drain": drain, "lines": lines, "passthrough": passthrough, "drain_ret": ret,
                "groups": [s for s, _ in rec]}
    except Exception as e:  # noqa: BLE001
        return enc.Err(type(e).__name__)


# ---------------------------------------------------------------- Coq encodings
def cq(x):
    return enc.Q(x)


def cperiods(l):
    return enc.L([enc.P(cq(a), cq(b)) for a, b in l])


def csplit_in(ps, pe, p, tl):
    return enc.P(cq(ps), cq(pe), cq(p), cperiods(tl))


def cwsegs(l):
    return enc.L([enc.P(cq(a), cq(b)) for a, b in l])


def cev(d):
    def ostr(s):
        return "None" if s is None else f"(Some {enc.S(s)})"

    def oq(x):
        return "None" if x is None else f"(Some {cq(num(x))})"
    a = d.get("args", "none")
    w = None if a in ("none", "empty") else a
    return f"(mkEv {ostr(d.get('ph'))} {ostr(d.get('name'))} {oq(d.get('ts'))} {oq(d.get('dur'))} {oq(w)})"


def vsegs(out):
    if isinstance(out, enc.Err):
        return enc.V(out)
    return enc.V([[d, p, bool(f)] for d, p, f in out])


# ---------------------------------------------------------------- the independent oracle
def _scale(values):
    L = 1
    for v in values:
        L = L * v.denominator // math.gcd(L, v.denominator)
    return L


def _covered(kernels, L, i):
    """unit cell [i, i+1) of the L-scaled axis lies inside some raw kernel interval"""
    return any(s * L <= i and i + 1 <= e * L for s, e in kernels)


def fail(kind, inp, expected, observed, **sig):
    s = {"kind": kind}
    s.update(sig)
    return {"input": jdeep(inp), "expected": jdeep(expected), "observed": jdeep(observed), "signature": s}


def oracle_merge(periods, out):
    """domain: every raw interval has start < end.  Output: non-empty intervals, sorted, pairwise disjoint,
    covering exactly the cells the raw intervals cover."""
    inp = {"kind": "merge", "periods": periods}
    if isinstance(out, enc.Err):
        return [fail("merge_raises", inp, "a list", out)]
    if any(not s < e for s, e in periods):
        return []
    fs = []
    if any(not s < e for s, e in out):
        fs.append(fail("merge_empty_interval", inp, "start < end for every merged interval", out))
    for (s1, e1), (s2, e2) in zip(out, out[1:]):
        if not e1 <= s2:
            fs.append(fail("merge_not_sorted_disjoint", inp, "end_i <= start_(i+1)", out))
            break
    vals = [x for pr in list(periods) + list(out) for x in pr]
    if vals:
        L = _scale(vals)
        lo, hi = int(min(vals) * L), int(max(vals) * L)
        for i in range(lo, hi):
            a, b = _covered(periods, L, i), _covered(out, L, i)
            if a != b:
                fs.append(fail("merge_union_differs", inp, {"cell": Fraction(i, L), "covered_by_raw": a}, out,
                               lost=a and not b))
                break
    elif out:
        fs.append(fail("merge_union_differs", inp, [], out, lost=False))
    return fs


def oracle_split(ps, pe, p, kernels, segs, inp):
    """domain: ps < pe and every raw kernel has start < end.  segs = the split of [ps,pe) against the
    merged kernels: positive durations, power p, tiling [ps,pe) in order, a segment is flagged iff its
    cells are covered by a raw kernel."""
    if isinstance(segs, enc.Err):
        return [fail("split_raises", inp, "a list", segs)]
    if not ps < pe or any(not s < e for s, e in kernels):
        return []
    obs = [[d, q, f] for d, q, f in segs]
    fs = []
    if any(not d > 0 for d, _, _ in segs):
        fs.append(fail("split_nonpositive_duration", inp, "every duration > 0", obs))
    if any(q != p for _, q, _ in segs):
        fs.append(fail("split_power_changed", inp, p, obs))
    tot = sum((d for d, _, _ in segs), Fraction(0))
    if tot != pe - ps:
        fs.append(fail("split_durations_do_not_add_up", inp, pe - ps, {"sum": tot, "segments": obs},
                       lost=bool(tot < pe - ps)))
    vals = [ps, pe] + [x for k in kernels for x in k] + [d for d, _, _ in segs]
    L = _scale([Fraction(v) for v in vals])
    exp_with = sum(1 for i in range(int(ps * L), int(pe * L)) if _covered(kernels, L, i))
    got_with = sum((d for d, _, f in segs if f), Fraction(0))
    if got_with * L != exp_with:
        fs.append(fail("split_flagged_time_differs_from_kernel_overlap", inp, Fraction(exp_with, L),
                       {"flagged": got_with, "segments": obs}, more=bool(got_with * L > exp_with)))
    pos = ps
    for d, _, f in segs:
        if d <= 0:
            continue
        for i in range(int(pos * L), int((pos + d) * L)):
            c = _covered(kernels, L, i)
            if bool(f) != c or not (ps * L <= i < pe * L):
                fs.append(fail("split_segment_flag_wrong", inp, {"cell": Fraction(i, L), "covered": c}, obs))
                return fs
        pos += d
    return fs


def weighted_median_ok(nz, m):
    tot = sum((d for d, _ in nz), Fraction(0))
    below = sum((d for d, p in nz if p < m), Fraction(0))
    above = sum((d for d, p in nz if p > m), Fraction(0))
    return any(p == m for _, p in nz) and 2 * below <= tot and 2 * above <= tot


def expected_stats(segs):
    """seven statistics of a non-empty list of (duration>0, power>=0), from their definitions"""
    tot = sum((d for d, _ in segs), Fraction(0))
    nz = [(d, p) for d, p in segs if p > 0]
    nzd = sum((d for d, _ in nz), Fraction(0))
    return {
        "min_non_zero": min((p for _, p in nz), default=0),
        "max": max(p for _, p in segs),
        "mean_non_zero": (sum((d * p for d, p in nz), Fraction(0)) / nzd) if nzd > 0 else 0,
        "avg_total": sum((d * p for d, p in segs), Fraction(0)) / tot,
        "dur_total": tot, "dur_non_zero": nzd,
    }, nz


def check_stats(segs, obs, inp, where):
    """obs: list of 7 (KEYS order) or None.  segs in domain (d>0, p>=0)."""
    fs = []
    if not segs:
        if obs is not None:
            fs.append(fail("stats_for_empty_group", inp, None, obs, where=where))
        return fs
    if obs is None:
        return [fail("no_stats_for_nonempty_group", inp, "statistics", None, where=where)]
    o = dict(zip(KEYS, obs))
    exp, nz = expected_stats(segs)
    for k, v in exp.items():
        if o[k] != v:
            fs.append(fail("stat_differs_from_integration", inp, {k: v}, o, where=where, field=k,
                           too_big=bool(o[k] > v)))
    if nz:
        if not weighted_median_ok(nz, o["median_non_zero"]):
            fs.append(fail("median_not_a_weighted_median", inp, "a weighted median of the positive powers", o,
                           where=where))
    elif o["median_non_zero"] != 0:
        fs.append(fail("median_not_a_weighted_median", inp, 0, o, where=where))
    # the property's inequalities, stated on the reported values themselves
    if not (o["min_non_zero"] <= o["median_non_zero"] <= o["max"]):
        fs.append(fail("bounds_median", inp, "min_non_zero <= median_non_zero <= max", o, where=where))
    if not (o["min_non_zero"] <= o["mean_non_zero"] <= o["max"]):
        fs.append(fail("bounds_mean", inp, "min_non_zero <= mean_non_zero <= max", o, where=where))
    if not (o["dur_non_zero"] <= o["dur_total"]):
        fs.append(fail("bounds_duration", inp, "dur_non_zero <= dur_total", o, where=where))
    return fs


def oracle_wstats(segs, out, inp):
    if isinstance(out, enc.Err):
        return [fail("wstats_raises", inp, "a dict or None", out)]
    if any(not d > 0 for d, _ in segs) or any(p < 0 for _, p in segs):
        return []
    return check_stats(segs, out, inp, "direct")


def classify(d):
    """independent reading of the stage's contract: ('P', ts, watts) | ('K', ts, dur) | None"""
    ts = d.get("ts")
    if ts is None or num(ts) == 0:
        return None
    if d.get("ph") == "C" and d.get("name") == "Power":
        a = d.get("args", "none")
        if a in ("none", "empty"):
            return None
        return ("P", num(ts), num(a))
    if d.get("ph") == "X" and d.get("name") is not None and d["name"].find("Cmpt Exec") >= 0:
        dur = num(d["dur"]) if d.get("dur") is not None else Fraction(0)
        return ("K", num(ts), dur) if dur > 0 else None
    return None


def fmt2(v):
    return f"{v:.2f}"


def oracle_pipeline(events, obs):
    """Grid integration.  For time-sorted power samples: power on [t_i, t_(i+1)) is the value of the latest
    sample at t_i (zero-order hold), a cell is 'with kernels' iff a raw kernel interval contains it; all seven
    statistics of both groups are recomputed from the cells.  For unsorted samples only the partition
    (with + without = sum of the recorded periods) and the bounds are checked."""
    inp = {"kind": "pipeline", "events": events}
    if isinstance(obs, enc.Err):
        return [fail("pipeline_raises", inp, "no exception", obs)]
    fs = []
    if not obs["passthrough"] or obs["drain_ret"] != []:
        fs.append(fail("event_not_passed_through", inp, "[event] per call, [] from drain",
                       {"passthrough": obs["passthrough"], "drain_ret": repr(obs["drain_ret"])[:80]}))
    cls = [c for c in map(classify, events) if c]
    samples = [(t, w) for k, t, w in cls if k == "P"]
    kernels = [(t, t + d) for k, t, d in cls if k == "K"]
    sorted_ok = all(a[0] <= b[0] for a, b in zip(samples, samples[1:]))
    nonneg = all(w >= 0 for _, w in samples)
    drain = obs["drain"]
    if isinstance(drain, enc.Err):
        return fs          # the tie reports it; nothing to integrate
    # log lines: labels, order, %.2f rendering of the recorded values
    if drain is not None:
        labs = [l for l, _ in obs["lines"]]
        if labs != ["Power with kernels", "Power without kernels"]:
            fs.append(fail("log_labels", inp, ["Power with kernels", "Power without kernels"], labs))
        for (lab, txt), (_, st) in zip(obs["lines"], drain):
            if st is None:
                want = "No data"
            else:
                o = dict(zip(KEYS, st))
                want = (f"min_non_zero={fmt2(o['min_non_zero'])}W, max={fmt2(o['max'])}W, "
                        f"mean_non_zero={fmt2(o['mean_non_zero'])}W, median_non_zero={fmt2(o['median_non_zero'])}W, "
                        f"avg_total={fmt2(o['avg_total'])}W (time-weighted, dur_total={fmt2(o['dur_total'])}ms, "
                        f"dur_non_zero={fmt2(o['dur_non_zero'])}ms)")
            if txt != want:
                fs.append(fail("log_line_inconsistent", inp, want, txt, label=lab))
    if not sorted_ok:
        # out of the property's domain (the pipeline sorts counters); internal consistency only
        if drain is not None:
            rec_total = sum((e - s for s, e, _ in obs["state"][0]), Fraction(0))
            got = sum((st[5] for _, st in drain if st is not None), Fraction(0))
            if got != rec_total:
                fs.append(fail("time_not_partitioned", inp, rec_total, got, sorted=False))
        return fs
    # zero-order hold timeline
    if samples:
        L = _scale([x for pr in samples + kernels for x in pr])
        t0, t1 = samples[0][0], samples[-1][0]
    cells_w, cells_wo = [], []
    if samples and t0 < t1:
        for i in range(int(t0 * L), int(t1 * L)):
            held = [w for t, w in samples if t * L <= i][-1]
            (cells_w if _covered(kernels, L, i) else cells_wo).append((Fraction(1, L), held))
        if drain is None:
            fs.append(fail("no_statistics_reported", inp, "two statistics lines", None))
            return fs
        total = sum((st[5] for _, st in drain if st is not None), Fraction(0))
        if total != t1 - t0:
            fs.append(fail("time_not_partitioned", inp, {"total_sampled_time": t1 - t0},
                           {"with+without": total, "drain": drain}, sorted=True, lost=bool(total < t1 - t0)))
        if nonneg:
            for (lab, st), cells in zip(drain, (cells_w, cells_wo)):
                fs += check_stats(cells, st, inp, lab)
    elif drain is not None:
        fs.append(fail("statistics_without_sampled_time", inp, None, drain))
    return fs


# ---------------------------------------------------------------- case construction (one per kind)
def build_case(inp):
    """inp (JSON form) -> (tie name, coq input term, coq observed val term, oracle failures, cut?)"""
    k = inp["kind"]
    if k == "merge":
        ps = pairs(inp["periods"])
        out = impl_merge(ps)
        obs = enc.V(out) if isinstance(out, enc.Err) else enc.V([list(x) for x in out])
        return "merge", cperiods(ps), obs, oracle_merge(ps, out), False
    if k in ("split", "splitm"):
        ps, pe, p = num(inp["ps"]), num(inp["pe"]), num(inp["p"])
        ks = pairs(inp["kernels"])
        if inp.get("ints"):     # the integer grid is fed as Python ints
            a = [int(ps), int(pe), int(p), [(int(s), int(e)) for s, e in ks]]
        else:
            a = [ps, pe, p, ks]
        if k == "splitm":
            out = impl_split_merged(*a)
            fs = oracle_split(ps, pe, p, ks, out, inp)
        else:
            out = impl_split(*a)
            fs = [fail("split_raises", inp, "a list", out)] if isinstance(out, enc.Err) else []
            # property-level oracle only when the timeline is a legal merged one
            if not fs and all(s < e for s, e in ks) and all(x[1] < y[0] for x, y in zip(ks, ks[1:])):
                fs = oracle_split(ps, pe, p, ks, out, inp)
        cut = (not isinstance(out, enc.Err)) and len(out) >= 2
        return k, csplit_in(ps, pe, p, ks), vsegs(out), fs, cut
    if k == "wstats":
        segs = pairs(inp["segs"])
        if inp.get("float"):
            fsegs = [(float(d), float(p)) for d, p in segs]
            assert all(Fraction(*a.as_integer_ratio()) == d and Fraction(*b.as_integer_ratio()) == p
                       for (a, b), (d, p) in zip(fsegs, segs)), "float stream must be exactly representable"
            out = impl_wstats(fsegs)
            if isinstance(out, enc.Err) or out is None:
                om = oa = Fraction(0)
            else:
                om, oa = enc.frac(out[2]), enc.frac(out[4])
            term = enc.P(cwsegs(segs), enc.P(cq(om), cq(oa)))
            fs = []
            if not isinstance(out, enc.Err) and out is not None and all(d > 0 for d, _ in segs) \
                    and all(p >= 0 for _, p in segs):
                o = dict(zip(KEYS, out))
                if not o["dur_non_zero"] <= o["dur_total"]:
                    fs.append(fail("bounds_duration", inp, "dur_non_zero <= dur_total", o, where="float"))
                if not o["min_non_zero"] <= o["median_non_zero"] <= o["max"]:
                    fs.append(fail("bounds_median", inp, "min_non_zero <= median_non_zero <= max", o, where="float"))
                # the mean may leave [min, max] by an ulp in binary64 (DESIGN 2.2): allow 2^-50 relative
                tol = float(o["max"]) * 2.0 ** -50
                if not o["min_non_zero"] - tol <= o["mean_non_zero"] <= o["max"] + tol:
                    fs.append(fail("bounds_mean", inp, "min_non_zero <= mean_non_zero <= max", o, where="float"))
            return "wstats_float", term, enc.V(out), fs, False
        out = impl_wstats(segs)
        return "wstats", cwsegs(segs), enc.V(out), oracle_wstats(segs, out, inp), False
    if k == "pipeline":
        evs = inp["events"]
        obs = impl_pipeline(evs)
        fs = oracle_pipeline(evs, obs)
        term = enc.L([cev(d) for d in evs])
        if isinstance(obs, enc.Err):
            return "pipeline", term, enc.V(obs), fs, False
        # float run of the same events (exactly representable numbers): must agree with the exact run
        fobs = impl_pipeline(evs, conv=float)
        if isinstance(fobs, enc.Err) or not _close(obs, fobs):
            fs.append(fail("float_run_differs_from_exact_run", inp, obs.get("drain"),
                           fobs if isinstance(fobs, enc.Err) else fobs.get("drain")))
        cut = any(len(_ps_segments(obs, i)) >= 2 for i in range(len(obs["state"][0]))) if obs["state"][0] else False
        return "pipeline", term, enc.V([obs["state"], obs["drain"]]), fs, cut
    raise ValueError(k)


def _ps_segments(obs, i):
    """segments the real code cuts power period i into (for the non-triviality count only)"""
    s, e, p = obs["state"][0][i]
    out = impl_split_merged(s, e, p, obs["state"][2])
    return [] if isinstance(out, enc.Err) else out


def _close(a, b):
    """exact run vs float run of the pipeline: same state, same labels, statistics within 1e-9 relative"""
    def same(x, y):
        if x is None or y is None or isinstance(x, str) or isinstance(y, str):
            return x == y
        if isinstance(x, (list, tuple)):
            return isinstance(y, (list, tuple)) and len(x) == len(y) and all(same(i, j) for i, j in zip(x, y))
        return abs(float(x) - float(y)) <= 1e-9 * max(1.0, abs(float(x)))
    if isinstance(a["drain"], enc.Err) or isinstance(b["drain"], enc.Err):
        return repr(a["drain"]) == repr(b["drain"])
    return same(a["state"], b["state"]) and same(a["drain"], b["drain"])


TIES = {
    "merge": ("list period", "merge_val"),
    "split": ("(Q * Q * Q * list period)", "split_val"),
    "splitm": ("(Q * Q * Q * list period)", "split_merged_val"),
    "wstats": ("list wseg", "wstats_val"),
    "wstats_float": ("(list wseg * (Q * Q))", "wstats_float_val"),
    "pipeline": ("list pev", "pipeline_val"),
}
EXTRA = {
    "splitm": "Definition nt := Eval vm_compute in (count_if nontrivial_split cases).\nPrint nt.",
    "pipeline": "Definition nt := Eval vm_compute in (count_if nontrivial_pipeline cases).\nPrint nt.",
}


# ---------------------------------------------------------------- generators
def grid_intervals(n):
    return [(a, b) for a in range(n + 1) for b in range(a + 1, n + 1)]


def gen_grid(ctx, r):
    """exhaustive: every power period x every ORDERED family of <= 2 kernels on 0..6 (9 723 cases);
    thorough: 0..7 with every multiset of <= 3 kernels in a random order (125 860 cases)"""
    out = []
    if ctx.quick():
        iv = grid_intervals(6)
        fams = [()] + [(k,) for k in iv] + list(itertools.product(iv, repeat=2))
    else:
        iv = grid_intervals(7)
        fams = [()]
        for n in (1, 2, 3):
            for c in itertools.combinations_with_replacement(iv, n):
                c = list(c)
                r.shuffle(c)
                fams.append(tuple(c))
    for (ps, pe) in iv:
        for fam in fams:
            out.append({"kind": "splitm", "ps": ps, "pe": pe, "p": 5, "kernels": [list(k) for k in fam], "ints": True})
    return out


def rq(r, lo, hi, den):
    return Fraction(r.randint(lo * den, hi * den), den)


def gen_merge(ctx, r):
    out = []
    iv = grid_intervals(4)
    for n in range(0, 4):
        for fam in itertools.product(iv, repeat=n):
            out.append({"kind": "merge", "periods": [list(k) for k in fam]})
    for _ in range(ctx.pick(800, 20000)):
        den = r.choice([1, 1, 2, 4])
        n = r.randint(1, 8)
        ps = []
        for _ in range(n):
            a = rq(r, 0, 12, den)
            ps.append([a, a + rq(r, 0, 5, den) + Fraction(1, den)])
        out.append({"kind": "merge", "periods": ps})
    for _ in range(ctx.pick(200, 3000)):      # malformed: empty / reversed intervals mixed in
        n = r.randint(1, 6)
        out.append({"kind": "merge", "periods": [[rq(r, 0, 8, 2), rq(r, 0, 8, 2)] for _ in range(n)]})
    return out


def gen_split_raw(ctx, r):
    """_split_power_period on arbitrary timelines (unsorted, overlapping, touching, empty intervals) and on
    legal merged ones with non-integer cuts"""
    out = []
    for _ in range(ctx.pick(1000, 20000)):
        den = r.choice([1, 2, 4])
        ps = rq(r, 0, 8, den)
        pe = ps + rq(r, 0, 6, den) + (Fraction(1, den) if r.random() < 0.95 else 0)
        n = r.randint(0, 5)
        tl = []
        if r.random() < 0.6:      # legal: sorted, strictly separated
            t = rq(r, 0, 3, den) - 2
            for _ in range(n):
                s = t + rq(r, 0, 2, den) + Fraction(1, den)
                e = s + rq(r, 0, 3, den) + Fraction(1, den)
                tl.append([s, e])
                t = e
        else:
            for _ in range(n):
                a = rq(r, 0, 12, den) - 2
                tl.append([a, a + rq(r, 0, 5, den) - (1 if r.random() < 0.2 else 0)])
        out.append({"kind": "split", "ps": ps, "pe": pe, "p": r.choice([0, 1, 5, Fraction(7, 2)]), "kernels": tl})
    return out


POWERS = [0, 0, 0, 1, 2, 5, 5, 10, Fraction(7, 2), Fraction(25, 4), 100]


def gen_wstats(ctx, r):
    out = [{"kind": "wstats", "segs": []}]
    alpha = [(Fraction(d), Fraction(p)) for d in (1, 2) for p in (0, 1, 2)]
    for n in (1, 2, 3):
        for c in itertools.product(alpha, repeat=n):
            out.append({"kind": "wstats", "segs": [list(x) for x in c]})
    for _ in range(ctx.pick(1500, 30000)):
        n = r.randint(1, 8)
        den = r.choice([1, 1, 2, 3, 4])
        segs = [[rq(r, 0, 6, den) + Fraction(1, den), Fraction(r.choice(POWERS))] for _ in range(n)]
        out.append({"kind": "wstats", "segs": segs})
    for _ in range(ctx.pick(200, 3000)):      # malformed: zero/negative durations, negative power
        n = r.randint(1, 5)
        segs = [[rq(r, -2, 4, 2), Fraction(r.choice(POWERS + [-1, -5]))] for _ in range(n)]
        out.append({"kind": "wstats", "segs": segs})
    for _ in range(ctx.pick(1000, 20000)):    # binary64 stream on a dyadic grid: sums and products exact
        n = r.randint(1, 8)
        segs = [[Fraction(r.randint(1, 1 << 14), 1 << 10), Fraction(r.choice([0, 0, r.randint(1, 1600)]), 16)]
                for _ in range(n)]
        out.append({"kind": "wstats", "segs": segs, "float": True})
    return out


KNAMES = ["Cmpt Exec", "add Cmpt Exec", "mm_1 Cmpt Exec [128B]", "xCmpt Execy"]
ONAMES = ["Cmpt Prep", "Cmpt Exe", "cmpt exec", "Cmpt  Exec", "DmaI", "Power", ""]


def gen_pipeline_one(r, malformed):
    den = r.choice([1, 1, 1, 2, 4])
    hi = r.choice([6, 8, 12])
    evs = []
    for _ in range(r.randint(0, 7) if malformed else r.randint(2, 7)):
        evs.append({"ph": "C", "name": "Power", "ts": rq(r, 1, hi, den), "pid": r.randint(0, 1),
                    "args": Fraction(r.choice(POWERS))})
    for _ in range(r.randint(0, 5)):
        t = rq(r, 1, hi, den) - (1 if r.random() < 0.3 else 0)
        if t <= 0:
            t = Fraction(1, den)
        evs.append({"ph": "X", "name": r.choice(KNAMES), "ts": t, "dur": rq(r, 0, 4, den) + Fraction(1, den),
                    "pid": r.randint(0, 1)})
    for _ in range(r.randint(0, 2)):          # events the stage must ignore
        c = r.randint(0, 4)
        t = rq(r, 1, hi, den)
        if c == 0:
            evs.append({"ph": "X", "name": r.choice(ONAMES), "ts": t, "dur": 3})
        elif c == 1:
            evs.append({"ph": "C", "name": r.choice(["Power2", "power", "Cmpt Exec", "ConcurrentPreps"]), "ts": t,
                        "args": 7})
        elif c == 2:
            evs.append({"ph": r.choice(["B", "M", "i"]), "name": r.choice(["Power", "Cmpt Exec"]), "ts": t,
                        "dur": 2, "args": 9})
        elif c == 3:
            evs.append({"ph": "C", "name": "Power", "ts": t, "args": r.choice(["none", "empty"])})
        else:
            evs.append({"ph": "X", "name": "k Cmpt Exec", "ts": t, "dur": r.choice([0, None, -1])})
    r.shuffle(evs)
    if not malformed:
        evs.sort(key=lambda d: num(d["ts"]))          # stable: the pipeline delivers events sorted by ts
    else:
        for d in evs:
            x = r.random()
            if x < 0.08:
                d["ts"] = 0
            elif x < 0.14:
                d["ts"] = None
            elif x < 0.18:
                d["name"] = None
            elif x < 0.21:
                d["ph"] = None
        if r.random() < 0.3:
            evs.sort(key=lambda d: num(d["ts"]) if d["ts"] is not None else Fraction(0))
    return {"kind": "pipeline", "events": jdeep(evs)}


def gen_pipeline(ctx, r):
    out = [gen_pipeline_one(r, False) for _ in range(ctx.pick(1300, 30000))]
    out += [gen_pipeline_one(r, True) for _ in range(ctx.pick(400, 8000))]
    return out


def load_corpus():
    out = []
    if os.path.isdir(CORPUS):
        for fn in sorted(os.listdir(CORPUS)):
            if fn.endswith(".json"):
                d = json.load(open(os.path.join(CORPUS, fn)))
                for c in d.get("cases", [d] if "kind" in d else []):
                    out.append(c)
    return out


# ---------------------------------------------------------------- shrinking
def still_fails(inp, kinds):
    try:
        fs = build_case(inp)[3]
    except Exception:  # noqa: BLE001
        return None
    for f in fs:
        if f["signature"]["kind"] in kinds:
            return f
    return None


def shrink(f):
    inp = f["input"]
    kinds = {f["signature"]["kind"]}
    key = {"merge": "periods", "split": "kernels", "splitm": "kernels", "wstats": "segs", "pipeline": "events"}[inp["kind"]]
    best = f
    changed = True
    while changed:
        changed = False
        items = best["input"][key]
        for i in range(len(items)):
            cand = dict(best["input"])
            cand[key] = items[:i] + items[i + 1:]
            g = still_fails(cand, kinds)
            if g:
                best, changed = g, True
                break
    return best


# ---------------------------------------------------------------- check
def evaluate(ctx, inputs, tag):
    """run implementation + oracle on every input, then the model inside Coq per tie"""
    by_tie = {}
    oracle_failures = []
    cuts = set()
    for inp in inputs:
        name, term, obs, fs, cut = build_case(inp)
        by_tie.setdefault(name, []).append((term, obs, inp))
        oracle_failures += fs
        if cut:
            cuts.add(json.dumps(jdeep(inp), sort_keys=True))
    mism, ties, coq_nt = [], [], {}
    for name, lst in by_tie.items():
        ty, fn = TIES[name]
        bad, extras, secs = coqrun.run_cases(f"{ID}_{tag}_{name}", IMPORTS, ty, fn, [(a, b) for a, b, _ in lst],
                                             extra=EXTRA.get(name, ""), shard=500)
        ties.append({"name": f"PowerStats.{fn} = real power_stats.py ({name})", "cases": len(lst),
                     "mismatching": len(bad), "coq_seconds": round(secs, 1)})
        if "nt" in extras:
            coq_nt[name] = extras["nt"]
        for j in bad[:3]:
            mism.append({"name": f"correspondence PowerStats.{fn} vs power_stats.py ({name})",
                         "case": jdeep(lst[j][2]), "impl": lst[j][1][:600]})
    return by_tie, oracle_failures, cuts, mism, ties, coq_nt


def run(ctx):
    r = ctx.rng
    corpus = load_corpus()
    grid = gen_grid(ctx, r)
    inputs = corpus + grid + gen_merge(ctx, r) + gen_split_raw(ctx, r) + gen_wstats(ctx, r) + gen_pipeline(ctx, r)
    by_tie, oracle_failures, cuts, mism, ties, coq_nt = evaluate(ctx, inputs, "run")
    # shrink a few failures of distinct kinds
    seen, shrunk = set(), []
    _pr = {"time_not_partitioned": 0, "bounds_mean": 1, "bounds_median": 1, "bounds_duration": 1}
    for f in sorted(oracle_failures, key=lambda f: _pr.get(f["signature"]["kind"], 5)):
        k = (f["input"]["kind"], f["signature"]["kind"])
        if k in seen:
            continue
        seen.add(k)
        shrunk.append(shrink(f))
        if len(shrunk) >= 4:
            break
    # most telling first: failures of the property proper on the whole stage, then the methods
    order = {"pipeline": 0, "splitm": 1, "wstats": 2, "split": 3, "merge": 4}
    prio = {"time_not_partitioned": 0, "bounds_mean": 1, "bounds_median": 1, "bounds_duration": 1,
            "split_durations_do_not_add_up": 2, "split_flagged_time_differs_from_kernel_overlap": 2,
            "stat_differs_from_integration": 3}
    shrunk.sort(key=lambda f: (prio.get(f["signature"]["kind"], 5), order.get(f["input"]["kind"], 9)))
    dist = {"cases_per_tie": {k: len(v) for k, v in by_tie.items()}, "corpus": len(corpus),
            "grid": len(grid), "oracle_failure_kinds": {}}
    for f in oracle_failures:
        kk = f["signature"]["kind"]
        dist["oracle_failure_kinds"][kk] = dist["oracle_failure_kinds"].get(kk, 0) + 1
    nev = {}
    for t, _, inp in by_tie.get("pipeline", []):
        n = len(inp["events"])
        nev[n] = nev.get(n, 0) + 1
    dist["pipeline_events"] = dict(sorted(nev.items()))
    nk = {}
    for _, _, inp in by_tie.get("splitm", []):
        n = len(inp["kernels"])
        nk[n] = nk.get(n, 0) + 1
    dist["grid_kernels"] = nk
    g = ctx.pick("0..6, <= 2 ordered kernels", "0..7, <= 3 kernels (multisets, shuffled)")
    return {
        "evaluations": len(inputs), "distinct_nontrivial": len(cuts),
        "rule": f"corpus + exhaustive grid (every power period x every kernel family on {g}: {len(grid)} cases, real "
                "_merge_periods + _split_power_period) + random/exhaustive-small inputs of _merge_periods, "
                "_split_power_period (raw timelines), _compute_weighted_stats (exact and binary64) + event sequences "
                "through analyze_power_statistics and drain (time-sorted and malformed). non-trivial = distinct "
                "grid/split/pipeline cases in which the real code cuts some power period into >= 2 segments "
                f"(same rule evaluated inside Coq on the model, duplicates included: {coq_nt})",
        "samples": [jdeep(by_tie[k][-1][2]) for k in ("splitm", "merge", "split", "wstats", "wstats_float", "pipeline")
                    if by_tie.get(k)],
        "mismatches": mism, "oracle_failures": shrunk, "ties": ties, "distribution": dist, "exhaustive": True,
    }


def search(ctx, res, broken):
    """something broke but the run's oracle was silent: a fresh, larger stream under a time bound"""
    r = random.Random(ctx.seed + 7919)
    t0 = time.time()
    budget = ctx.pick(60, 600)

    class Big:
        tier = "thorough"

        def quick(self):
            return False

        def pick(self, q, t):
            return t
    gens = [gen_pipeline, gen_wstats, gen_split_raw, gen_merge]
    for g in gens:
        for inp in g(Big(), r):
            if time.time() - t0 > budget:
                return []
            if inp.get("float"):
                continue
            fs = build_case(inp)[3]
            if fs:
                return [shrink(fs[0])]
    return []


def replay(ctx, payload):
    f = payload.get("failing")
    if not f:
        return True, "replay file names only broken obligations: " + str(payload.get("broken"))[:500]
    name, term, obs, fs, _ = build_case(f["input"])
    return (not fs), {"observed": obs[:800], "oracle_failures": [{"signature": x["signature"],
                                                                 "expected": x["expected"],
                                                                 "observed": x["observed"]} for x in fs[:3]]}
