"""C17 — event limits and filters select exactly the documented subset of events.

Ties (both evaluated inside Coq by vm_compute against coq/theories/Limits.v):
  * direct: the REAL normalize_phase1 with a real NormalizationContext(filterstr, EventLimiter(cfg)) is driven over a
    generated event stream; per event the returned list (projected: TS1..TS5/TSxOF dropped) or the exception class
    is compared with Limits.run_val.
  * end to end: the REAL Acelyzer(argv).run() with --event_limit/--event_filter on a generated FLEX file; the uids
    of the exported slices (brought back to arrival order) and the number of input metadata events that reach the
    output are compared with Limits.e2e_val evaluated on the stream the real MultifileIngest delivers.
Oracle (independent brute force statement of the property, Python): position rule among in-window slices in arrival
order, metadata never counted nor dropped, filter = for some entry attr:regex (split at the entry's FIRST colon, the
regex may contain colons) the event has the named attribute (every path component is a key of the dict reached so
far; nothing lies below a string or a number), its value is not a dict and the regex finds a match in its str();
everything else kept - for every event and every filter string, no exception; monotone in count; monotone in the
window when the count bound is not binding under the wider window.
"""
import contextlib
import copy
import io
import json
import os
import re
import shutil
import sys
import tempfile
import time

from common import coqrun, enc

ID = "C17"
PROP_FILE = "props/C17.v"
THEOREMS = ["C17_counter_invariant", "C17_position_rule", "C17_metadata_never_dropped", "C17_metadata_transparent",
            "C17_phase1_decomposition", "C17_filter_spec", "C17_every_entry_counts", "C17_no_other_entry",
            "C17_filter_keeps_others",
            "C17_monotone_count",
            "C17_monotone_window"]
ALLOWED_AXIOMS = []
MANIFEST = {
    "text": "Proof. Coq theorems over an executable model of EventLimiter / NormalizationContext.event_within_limits / "
            "extract_eventfilters / event_filtered / normalize_phase1 (Limits.v), for arbitrary event streams, limit "
            "tuples and filter lists (no bound): the i-th verdict is the single-event limiter run with counter = number "
            "of counted events before i (C17_counter_invariant), hence kept <=> ignored type or (in window and skip < "
            "position <= skip+count) with position = rank among in-window non-ignored events in arrival order "
            "(C17_position_rule); ignored (metadata) events are returned unchanged and removing them changes no other "
            "verdict (C17_metadata_never_dropped, C17_metadata_transparent); normalize_phase1 = limiter verdict then "
            "X-only normalise+filter, the counter never depends on the filter (C17_phase1_decomposition); for EVERY event "
            "and EVERY filter list (no domain hypothesis - the model of event_filtered is a total boolean function) filtered "
            "<=> for some attr:regex pair the event has the named attribute (every component of the dotted path is a key of "
            "the dict reached so far; nothing resolves below a string or a number), its value is not a dict and the regex "
            "finds a match in its str(), for every regex engine and every str() (C17_filter_spec, C17_filter_keeps_others); "
            "the pairs in force are exactly the comma separated entries that contain a colon, split at their FIRST colon - "
            "the regex may contain colons, repeated attributes all count (C17_every_entry_counts, C17_no_other_entry); "
            "monotone in count (C17_monotone_count) and in the window when "
            "the count bound is not binding under the wider window (C17_monotone_window; a vm_compute witness shows the "
            "binding case is genuinely non-monotone). The model is tied to the code by two correspondence runs "
            "(direct drive of normalize_phase1; Acelyzer end to end) and an independent Python oracle.",
    "note": "Trusted: Coq kernel + vm_compute; hand-written model Limits.v tied by differential testing only; Python "
            "re.search is a Section variable in the theorems and a derivative matcher over generated syntax trees in "
            "the tie (harness regex parser trusted); Python str() of the attribute value is a Section variable in the "
            "theorems and the table str/int/bool/None in the tie (a filter path ending at a float or list value gives the "
            "explicit outcome UnmodelledStr and is never generated in the tie); int(s,0) modelled for decimal/0x literals "
            "only; non-dict args is an explicit 'Unmodelled' outcome never generated in the tie; C05's "
            "tsx_32bit_local_correction is projected away. After /repo fixes C17c (entry split at its first colon) and C17d "
            "(a path that leaves the event's dicts names a missing attribute) the former through_dicts/filter_dom hypothesis "
            "and the two-parts hypothesis are gone: regexes with colons and paths below scalars are ordinary inputs of the "
            "tie, the oracle and the theorems (Examples C17_nonvacuous_filter, C17_path_below_scalar_never_matches). "
            "Print Assumptions: closed under the global context.",
    "technique": "Coq proof (induction over the stream with a counter invariant) + vm_compute correspondence against the "
                 "real normalize_phase1 and the real CLI object + brute-force oracle",
    "design_ref": "DESIGN.md section 4/C17, section 6 F5",
}
TRUSTED = [
    "modelled, not verified: Python re (Section variable re_search in the theorems; in the tie a Brzozowski-derivative "
    "matcher over the syntax tree that harness/props/c17.py parses from the generated pattern string: literals "
    "[A-Za-z0-9_ :], '.', '\\d', (..|..), (?:..|..), '*', outer ^ and $)",
    "int(s, 0) is modelled for decimal literals without leading zeros, all-zero strings and 0x/0X literals; signs, blanks, "
    "underscores, 0o/0b are valid Python but never generated",
    "modelled, not verified: Python str() of the value a filter path ends at (Section variable py_str in the theorems; in "
    "the tie the table for str/int/bool/None values; a path ending at a float or list value gives the explicit outcome "
    "UnmodelledStr and is not generated in the tie - the oracle, being Python, does cover such values); a non-dict 'args' "
    "gives the explicit outcome Unmodelled and is not generated",
    "tsx_32bit_local_correction (C05) runs in the tie on events with a complete, parseable TS1..TS5 set; its effect on "
    "TS1..TS5/TSxOF is projected away on both sides",
    "end-to-end tie: the arrival stream given to the model is produced by the real MultifileIngest on the same file "
    "(ingestion itself is C15); output uids are brought back to arrival order before the comparison (order is C08)",
]
ASSUMPTIONS = [
    "the limiter's counter starts at 0 (one NormalizationContext per run, as register_processing_functions builds it)",
    "event types are one-character strings; 'slice' = event whose type is not in no_count_types (default 'M'): with "
    "counter ('C') or instant events in the input these are counted like slices, exactly as documented for --event_limit",
    "a filter entry is <attribute>:<regex> with the attribute ending at the entry's first colon; entries are separated by "
    "commas (a regex cannot contain a comma); an entry without a colon is not a pair and is ignored (the code warns)",
    "window monotonicity is claimed only when the total number of in-window slices under the wider window does not exceed "
    "skip+count; otherwise it contradicts the position rule (C17_window_not_monotone_when_binding)",
    "times on the exact grid (multiples of 2^-10 below 2^43) so that ts+dur is exact in binary64",
]

REPO = coqrun.REPO
IMPORTS = "From Coq Require Import Ascii.\nFrom AiuModel Require Import Limits."
G = 1.0 / 1024.0
FLOAT_MAX = sys.float_info.max
PROJ = ["TS1", "TS2", "TS3", "TS4", "TS5", "TSxOF"]
JOBFILE = "c17_direct_job.json"


# ------------------------------------------------------------------ regex subset: parser + renderers
class RxError(Exception):
    pass


LITERAL = set("ABCDEFGHIJKLMNOPQRSTUVWXYZabcdefghijklmnopqrstuvwxyz0123456789_ :")      # ':' is an ordinary character


def rx_parse(p):
    """pattern string -> (bol, ast, eol); ast = ('eps',)|('chr',c)|('any',)|('digit',)|('cat',a,b)|('alt',a,b)|('star',a)"""
    bol = p.startswith("^")
    if bol:
        p = p[1:]
    eol = p.endswith("$")
    if eol:
        p = p[:-1]
    pos = 0

    def alt(depth):
        nonlocal pos
        a = cat()
        n = 1
        while pos < len(p) and p[pos] == "|":
            pos += 1
            a = ("alt", a, cat())
            n += 1
        if depth == 0 and n > 1 and (bol or eol):
            raise RxError("top-level | next to an anchor")
        return a

    def cat():
        nonlocal pos
        items = []
        while pos < len(p) and p[pos] not in "|)":
            items.append(rep())
        if not items:
            return ("eps",)
        a = items[0]
        for b in items[1:]:
            a = ("cat", a, b)
        return a

    def rep():
        nonlocal pos
        a = atom()
        while pos < len(p) and p[pos] == "*":
            pos += 1
            a = ("star", a)
        return a

    def atom():
        nonlocal pos
        c = p[pos]
        if c in LITERAL:
            pos += 1
            return ("chr", c)
        if c == ".":
            pos += 1
            return ("any",)
        if p.startswith("\\d", pos):
            pos += 2
            return ("digit",)
        if c == "(" and (p.startswith("(?:", pos) or not p.startswith("(?", pos)):
            pos += 3 if p.startswith("(?:", pos) else 1          # (?:...) groups like (...): nothing here refers to groups
            a = alt(1)
            if pos >= len(p) or p[pos] != ")":
                raise RxError("unbalanced")
            pos += 1
            return a
        raise RxError(f"unsupported syntax at {pos} in {p!r}")

    a = alt(0)
    if pos != len(p):
        raise RxError(f"trailing input in {p!r}")
    return bol, a, eol


def rx_coq(a):
    k = a[0]
    if k == "eps":
        return "REps"
    if k == "chr":
        return f'(RChr "{a[1]}"%char)'
    if k == "any":
        return "RAny"
    if k == "digit":
        return "RDigit"
    if k == "star":
        return f"(RStar {rx_coq(a[1])})"
    return f"({'RCat' if k == 'cat' else 'RAlt'} {rx_coq(a[1])} {rx_coq(a[2])})"


def pat_coq(p):
    bol, a, eol = rx_parse(p)
    return "{| p_bol := %s; p_rx := %s; p_eol := %s |}" % (enc.B(bol), rx_coq(a), enc.B(eol))


def filter_entries(filterstr):
    """well-formed key:regex entries of a filter string (independent of the implementation)"""
    if not filterstr.strip():
        return []
    out = []
    for f in filterstr.split(","):
        # <attribute>:<regex> - the attribute ends at the FIRST colon, the regex may contain colons ("name:aten::add");
        # an entry without any colon is not a pair and is ignored (until /repo fix "C17c" an entry with two or more colons
        # was discarded whole)
        if ":" in f:
            k, r = f.split(":", 1)
            out.append((k, r))
    return out


# ------------------------------------------------------------------ encoding
def J(x):
    if isinstance(x, bool):
        return f"(JB {enc.B(x)})"
    if x is None:
        return "JNull"
    if isinstance(x, int):
        return f"(JZ {enc.Z(x)})"
    if isinstance(x, float):
        return f"(JQ {enc.Q(x)})"
    if isinstance(x, str):
        return f"(JS {enc.S(x)})"
    if isinstance(x, (list, tuple)):
        return f"(JL {enc.L([J(i) for i in x])})"
    if isinstance(x, dict):
        return f"(JD {EV(x)})"
    raise TypeError(type(x))


def EV(e):
    return enc.L([enc.P(enc.S(k), J(v)) for k, v in e.items()])


def CFG(cfg):
    def num(x):
        return enc.Q(x)
    return ("{| l_skip := %s; l_count := %s; l_start := %s; l_end := %s; l_nct := %s |}" % (
        enc.O(cfg.get("skip"), enc.Z), enc.O(cfg.get("count"), enc.Z), enc.O(cfg.get("ts_start"), num),
        enc.O(cfg.get("ts_end"), num), enc.O(cfg.get("no_count_types"), enc.S)))


def TIEIN(cfg, filterstr, jobs, events):
    pats = []
    for _, r in filter_entries(filterstr):
        if r not in pats:
            pats.append(r)
    tbl = enc.L([enc.P(enc.S(r), pat_coq(r)) for r in pats])
    jm = enc.L([enc.P(enc.Z(h), enc.S(n)) for h, n in jobs])
    return ("{| t_cfg := %s; t_filter := %s; t_tbl := %s; t_jobs := %s; t_events := %s |}" % (
        CFG(cfg), enc.S(filterstr), tbl, jm, enc.L([EV(e) for e in events])))


def jv(x):
    """Python mirror of Limits.jval (as a value for enc.V)"""
    if isinstance(x, dict):
        return ["{}"] + [[k, jv(v)] for k, v in x.items()]
    if isinstance(x, (list, tuple)):
        return ["[]"] + [jv(i) for i in x]
    return x


def project(e):
    e = dict(e)
    if isinstance(e.get("args"), dict):
        e["args"] = {k: v for k, v in e["args"].items() if k not in PROJ}
    return e


# ------------------------------------------------------------------ implementation drivers
_quiet = io.StringIO()


def job_direct():
    from aiu_trace_analyzer.types import GlobalIngestData
    return GlobalIngestData().add_job_info(JOBFILE), JOBFILE


def drive_direct(cfg, filterstr, events, loglevel=-1):
    """the REAL normalize_phase1 over a stream with one real context; per event: list of returned dicts or enc.Err.
    loglevel: the value of the tool's -D option in force (output is swallowed; the selection may not depend on it)"""
    import aiu_trace_analyzer.logger as aiulog
    from aiu_trace_analyzer.pipeline.normalize import NormalizationContext, EventLimiter, normalize_phase1
    aiulog.loglevel = loglevel
    outs = []
    with contextlib.redirect_stdout(_quiet), contextlib.redirect_stderr(_quiet):
        try:
            ctx = NormalizationContext(soc_frequency=1024.0, filterstr=filterstr, event_limit=EventLimiter(dict(cfg)))
        except Exception as e:  # noqa: BLE001
            return [enc.Err("ctx:" + type(e).__name__) for _ in events]
        for e in events:
            ev = copy.deepcopy(e)
            try:
                r = normalize_phase1(ev, ctx)
                outs.append([dict(x) for x in r])
            except Exception as ex:  # noqa: BLE001
                outs.append(enc.Err(type(ex).__name__))
        del ctx
    _quiet.seek(0)
    _quiet.truncate()
    aiulog.loglevel = -1
    return outs


def outs_val(outs):
    return [o if isinstance(o, enc.Err) else [jv(project(x)) for x in o] for o in outs]


def e2e_argv(inp, outp, cfg, filterstr, dlevel=0):
    argv = ["-i", inp, "-o", outp, "--disable_tb", "-t", "-D", str(dlevel)]
    if cfg is not None:
        argv += ["--event_limit", json.dumps(cfg)]
    if filterstr is not None:
        argv += ["--event_filter", filterstr]
    return argv


def file_form(events):
    """the events as they are written into the input file: slices marked "_be" become adjacent B/E pairs"""
    out = []
    for e in events:
        if isinstance(e, dict) and e.get("_be") and e.get("ph") == "X":
            b = {k: v for k, v in e.items() if k not in ("_be", "dur")}
            b["ph"] = "B"
            en = dict(b, ph="E", ts=e["ts"] + e["dur"])
            out += [b, en]
        elif isinstance(e, dict):
            out.append({k: v for k, v in e.items() if k != "_be"})
        else:
            out.append(e)
    return out


def drive_e2e(work, events, cfg, filterstr, name="c17_e2e.json", dlevel=0):
    """write the file, run the REAL Acelyzer in process; returns (uids of exported X events in output order,
    number of input metadata markers found in the output) or enc.Err"""
    import aiu_trace_analyzer.logger as aiulog
    from aiu_trace_analyzer.core.acelyzer import Acelyzer
    inp = os.path.join(work, name)
    outp = os.path.join(work, "out_" + name)
    with open(inp, "w") as f:
        json.dump(file_form(events), f)
    if os.path.exists(outp):
        os.remove(outp)
    with contextlib.redirect_stdout(_quiet), contextlib.redirect_stderr(_quiet):
        try:
            ace = Acelyzer(e2e_argv(inp, outp, cfg, filterstr, dlevel))
            if not dlevel:
                aiulog.loglevel = -1
            rc = ace.run()
            del ace
        except BaseException as ex:  # noqa: BLE001  (SystemExit from argparse included)
            _quiet.seek(0)
            _quiet.truncate()
            return enc.Err(type(ex).__name__)
    _quiet.seek(0)
    _quiet.truncate()
    if rc != 0:
        return enc.Err(f"rc{rc}")
    data = json.load(open(outp))
    te = data["traceEvents"] if isinstance(data, dict) else data
    uids = [e.get("args", {}).get("uid") for e in te if e.get("ph") == "X"]
    metas = sum(1 for e in te if e.get("ph") == "M" and str(e.get("args", {}).get("name", "")).startswith("c17m"))
    return uids, metas


def baseline_in_fresh_process(work, name="c17_e2e.json"):
    """uids exported by `acelyzer -i <the file drive_e2e just wrote>` in a new interpreter (None if that fails)"""
    import subprocess
    inp, outp = os.path.join(work, name), os.path.join(work, "fresh_" + name)
    env = dict(os.environ, PYTHONPATH=os.path.join(coqrun.REPO, "src"), PYTHONHASHSEED="0")
    r = subprocess.run(["/venv/bin/python", "-c",
                        "import sys; from aiu_trace_analyzer.core.acelyzer import Acelyzer; "
                        "sys.exit(Acelyzer(sys.argv[1:]).run())"] + e2e_argv(inp, outp, None, None),
                       env=env, stdout=subprocess.DEVNULL, stderr=subprocess.DEVNULL, timeout=300)
    if r.returncode != 0 or not os.path.exists(outp):
        return None
    data = json.load(open(outp))
    te = data["traceEvents"] if isinstance(data, dict) else data
    return [e.get("args", {}).get("uid") for e in te if e.get("ph") == "X"]


def arrival_stream(work, name="c17_e2e.json"):
    """what the real ingestion delivers for that file (and the job table entry it registered)"""
    from aiu_trace_analyzer.ingest.ingestion import MultifileIngest
    from aiu_trace_analyzer.types import GlobalIngestData
    inp = os.path.join(work, name)
    with contextlib.redirect_stdout(_quiet), contextlib.redirect_stderr(_quiet):
        m = MultifileIngest(inp)
        evs = [dict(copy.deepcopy(e)) for e in list(m)]
        jh = GlobalIngestData().add_job_info(inp)
    _quiet.seek(0)
    _quiet.truncate()
    return evs, [(jh, os.path.basename(inp))]


# ------------------------------------------------------------------ oracle: the property, stated independently
def o_limit_keep(events, cfg):
    """per event: True/False = must be kept / dropped by the limits; None = no opinion (malformed)"""
    skip = cfg.get("skip", 0)
    count = cfg.get("count", 1 << 60)
    a = cfg.get("ts_start", 0.0)
    b = cfg.get("ts_end", FLOAT_MAX)
    nct = cfg.get("no_count_types", "M")
    res, inwins = [], []
    for e in events:
        ph = e.get("ph")
        if not isinstance(ph, str) or len(ph) != 1:
            res.append(None)
            inwins.append(False)
            continue
        if any(ph == ch for ch in nct):          # metadata (or another exempt type): never counted, never dropped
            res.append(True)
            inwins.append(False)
            continue
        ts, dur = e.get("ts", -1.0), e.get("dur", 0.0)
        if isinstance(ts, bool) or isinstance(dur, bool) or not isinstance(ts, (int, float)) \
                or not isinstance(dur, (int, float)):
            res.append(None)
            inwins.append(False)
            continue
        res.append("slice")
        inwins.append(ts + dur >= a and ts <= b)       # [ts, ts+dur] intersects [ts_start, ts_end]
    for i, r in enumerate(res):
        if r == "slice":
            position = sum(1 for j in range(i + 1) if inwins[j])
            res[i] = bool(inwins[i] and skip < position <= skip + count)
    return res, sum(inwins)


def o_view(e):
    """the normalised event the filter is documented to see"""
    v = copy.deepcopy(e)
    args = dict(v.get("args", {}))
    args.update(v.pop("attr", {}))
    for k in ("TS1", "TS2", "TS3", "TS4", "TS5", "Power"):
        if isinstance(args.get(k), str):
            try:
                args[k] = str(int(args[k], 0))
            except ValueError:
                pass
    if "Bytes" in args:
        args["bytes"] = args.pop("Bytes")
    v["args"] = args
    v["name"] = v["name"].replace("RDMA", "Rdma").replace("Receive", "Recv")
    return v


def o_filtered(view, filterstr):
    """True/False for every view and every filter string"""
    # the property (and the CLI help): "dropped iff ONE OF the attribute:regex pairs matches" - every entry counts, also
    # two entries for the same attribute (until /repo fix "C17b" a later entry silently replaced an earlier one)
    hit = False
    for k, r in filter_entries(filterstr):
        node, ok = view, True
        for part in k.split("."):
            # a path that continues below a value that is not a dict names an attribute the event does not have: no match
            # (until /repo fix "C17d" the walk stopped there and matched the value reached so far, or raised TypeError)
            if not isinstance(node, dict) or part not in node:
                ok = False
                break
            node = node[part]
        if ok and not isinstance(node, dict) and re.search(r, str(node)) is not None:
            hit = True
    return hit


def o_expected(events, tags, cfg, filterstr):
    """per event 'keep' / 'drop' / None"""
    lim, _ = o_limit_keep(events, cfg)
    exp = []
    for e, t, k in zip(events, tags, lim):
        if k is None or t != "clean":
            exp.append(None)
        elif k is False:
            exp.append("drop")
        elif e["ph"] != "X":
            exp.append("keep")
        else:
            exp.append("drop" if o_filtered(o_view(e), filterstr) else "keep")
    return exp


def o_uid(e):
    a = dict(e.get("args", {}) if isinstance(e.get("args"), dict) else {})
    if isinstance(e.get("attr"), dict):
        a.update(e["attr"])
    return a.get("uid")


def check_direct(case, outs=None):
    """oracle on the implementation's answer for one direct case -> failure dict or None"""
    events, tags, cfg, flt = case["events"], case["tags"], case["cfg"], case["filter"]
    if outs is None:
        outs = drive_direct(cfg, flt, events, case.get("loglevel", -1))
    exp = o_expected(events, tags, cfg, flt)
    for i, (e, x, o) in enumerate(zip(events, exp, outs)):
        if x is None:
            continue
        if isinstance(o, enc.Err):
            obs = "raised " + o.tag
        elif len(o) == 0:
            obs = "drop"
        elif len(o) == 1 and (o[0] == e if e["ph"] != "X" else o[0].get("args", {}).get("uid") == o_uid(e)):
            obs = "keep"
        else:
            obs = "returned something else"
        if obs != x:
            nct = cfg.get("no_count_types", "M")
            return {"input": case, "expected": {"event_index": i, "verdict": x, "all": exp},
                    "observed": {"event_index": i, "verdict": obs,
                                 "all": [("raised " + q.tag) if isinstance(q, enc.Err) else len(q) for q in outs]},
                    "signature": {"kind": "direct_selection_differs", "expected": x, "observed": obs,
                                  "event_type": e.get("ph"),
                                  "metadata_before": any(y.get("ph") in nct for y in events[:i] if isinstance(y.get("ph"), str)),
                                  "filter_active": bool(filter_entries(flt)),
                                  "loglevel": case.get("loglevel", -1)}}
    return None


def kept_set(events, outs):
    s = set()
    for i, o in enumerate(outs):
        if not isinstance(o, enc.Err) and len(o) == 1:
            s.add(i)
    return s


def check_mono(case):
    """monotonicity on the implementation: larger count / wider window (when the bound is not binding)"""
    events, cfg, flt = case["events"], case["cfg"], case["filter"]
    cfg2 = case["cfg2"]
    lim2, total2 = o_limit_keep(events, cfg2)
    if case["kind"] == "window":
        if total2 > cfg2.get("skip", 0) + cfg2.get("count", 1 << 60):
            return None                      # binding bound: no claim
    a = kept_set(events, drive_direct(cfg, flt, events))
    b = kept_set(events, drive_direct(cfg2, flt, events))
    if not a <= b:
        return {"input": case, "expected": "kept(cfg) is a subset of kept(cfg2)",
                "observed": {"kept": sorted(a), "kept2": sorted(b), "lost": sorted(a - b)},
                "signature": {"kind": "not_monotone_in_" + case["kind"], "lost": len(a - b)}}
    return None


def check_e2e(case, work, res=None):
    events, cfg, flt = case["events"], case["cfg"], case["filter"]
    if res is None:
        if case.get("history"):     # replay of a history finding: a limited run first, in this very process
            drive_e2e(work, events, {"skip": 1, "count": 1, "ts_start": 1.0, "ts_end": 2.0}, "name:zzz")
        res = drive_e2e(work, events, cfg, flt, dlevel=case.get("dlevel", 0))
    tags = ["clean"] * len(events)
    exp = o_expected(events, tags, cfg if cfg is not None else {}, flt or "")
    want = sorted(o_uid(e) for e, x in zip(events, exp) if e["ph"] == "X" and x == "keep")
    unknown = [o_uid(e) for e, x in zip(events, exp) if e["ph"] == "X" and x is None]
    nmeta = sum(1 for e in events if e["ph"] == "M")
    if isinstance(res, enc.Err):
        got, gm = "raised " + res.tag, None
    else:
        got, gm = sorted(u for u in res[0] if u not in unknown), res[1]
    if got != want or gm != nmeta:
        extra = [] if isinstance(got, str) else sorted(set(got) - set(want))
        missing = want if isinstance(got, str) else sorted(set(want) - set(got))
        return {"input": case, "expected": {"uids": want, "metadata_events": nmeta},
                "observed": {"uids": got, "metadata_events": gm},
                "signature": {"kind": "e2e_selection_differs", "extra": len(extra), "missing": len(missing),
                              "metadata_lost": (gm is not None and gm < nmeta),
                              "limit_active": cfg is not None, "filter_active": bool(flt),
                              "dlevel": case.get("dlevel", 0)}}
    return None


# ------------------------------------------------------------------ generators
NAMES = ["alpha Receive", "RDMA write RDMA", "Compute of foo", "beta Cmpt Prep", "ReceiveReceive x", "gamma DmaI",
         "RDMAReceive", "delta T1", "XYZ", "aXYZ", "host 31 loop", "Recv Rdma done", "RDM", "eps DmaO", "RRDMA A",
         "aten::add", "aten::add_ T1", "host:31 loop"]
E2E_NAMES = [n for n in NAMES if "Cmpt Prep" not in n]
TYPES = ["T0", "T1", "XYZ", "aXYZ", "T10", "", "T1:x", "a:b"]
E2E_TYPES = [t for t in TYPES if t]
WORDS = ["Recv", "Rdma", "RDMA", "Receive", "T1", "T0", "XYZ", "alpha", "31", "1f", "True", "None", "5", "v1",
         "Cmpt Prep", "c17m", "foo", "X", "128", "26", "0", "a", "T", "done", "Compute of ", "aten::add", ":", "T1:x"]
# regexes with colons inside (the attribute of an entry ends at the entry's FIRST colon); several of them also match
# subjects without any colon
COLON_RX = ["aten::add", "^aten::", "::", ":", "a:b", "^T1:x$", "(?:Recv|XYZ)", "^(?:T1|T0)$", "aten:*:add", "T1:.", ":*T1",
            "(?:a|b):(?:b|c)", "^(?:R|r)(?:ecv|dma)", "host:\\d\\d", "^:*alpha", ":*", "^.*:.*$", "(::|XYZ)$", "b:c"]
PATHS = ["name", "name", "args.Type", "args.Type", "args.uid", "args.nested.k", "args.nested.deep.z", "args.missing",
         "zzz", "pid", "tid", "ph", "args.flag", "args.none", "cat", "args", "args.nested", "attr.Type", "args.Power",
         "args.bytes", "args.Bytes", "args.TS1", "args.jobhash", "args.nested.missing.k"]
# attribute paths that continue below a string / number / bool / None / list value, or have an empty component: they name
# an attribute no event has (the tie does not model str() of a list: no path ENDS at args.lst)
BELOW_SCALAR_PATHS = ["args.Type.x", "name.zz", "name.a", "pid.x", "args.flag.y", "args.none.q", "", "args.", ".name",
                      "args.Type.T", "args.uid.0", "name.", "args.lst.a", "args.Type.T1", "name.alpha", "args.nested.k.v1",
                      "args.nested.deep.z.5", "tid.0", "args.Power.x", "args.lst.0"]


def gen_regex(r):
    w = r.choice(WORDS)
    k = r.randint(0, 16)
    if k >= 14:
        return r.choice(COLON_RX)
    if k == 0:
        return w
    if k == 1:
        return "^" + w
    if k == 2:
        return w + "$"
    if k == 3:
        return "^" + w + "$"
    if k == 4:
        return "(" + w + "|" + r.choice(WORDS) + ")"
    if k == 5:
        return "^(" + w + "|" + r.choice(WORDS) + ")$"
    if k == 6:
        i = r.randrange(len(w))
        return w[:i] + "." + w[i + 1:]
    if k == 7:
        return w + ".*" + r.choice(WORDS)
    if k == 8:
        return "^" + r.choice(["T", "", "1", "x"]) + "\\d" + r.choice(["", "$", "\\d$", "*$"])
    if k == 9:
        return "(" + w + ")*" + r.choice(["", "$", "x"])
    if k == 10:
        return r.choice(["", "^", "$", "^$", ".", "^.$", "^.*$"])
    if k == 11:
        return "^" + w + " "
    if k == 12:
        return w[:max(1, len(w) - 1)] + "(" + w[-1] + "|)" + "$"
    return "(R|r)(ecv|dma|DMA)"


def gen_filter(r):
    n = r.choice([0, 0, 1, 1, 1, 2, 2, 3])
    if n == 0:
        return r.choice(["", "", "", " ", "   "])
    ents = []
    for _ in range(n):
        p = r.choice(BELOW_SCALAR_PATHS) if r.random() < 0.25 else r.choice(PATHS)
        ents.append(p + ":" + gen_regex(r))
    if r.random() < 0.15:
        # entries without a colon are not pairs (skipped); the others are ordinary entries, however odd
        ents.insert(r.randrange(len(ents) + 1), r.choice(["nocolon", "a:b:c", "", " name:Recv", "name", ":", "name:(?:Recv|XYZ)",
                                                          " ", "name:", "::", "name::"]))
    if r.random() < 0.1 and ents:
        k = ents[0].split(":")[0]
        ents.append(k + ":" + gen_regex(r))          # repeated key: both entries count
    return ",".join(ents)


def gtime(r, lo=-3, hi=40):
    t = float(r.randint(lo, hi))
    if r.random() < 0.2:
        t += r.randint(1, 1023) * G
    return t


def gen_x(r, uid, jh):
    e = {"ph": "X", "name": r.choice(NAMES), "pid": r.choice([0, 0, 1]), "tid": r.randint(0, 3)}
    x = r.random()
    if x < 0.9:
        e["ts"] = gtime(r)
    elif x < 0.95:
        e["ts"] = r.randint(-3, 40)              # int timestamp
    dx = r.random()
    if dx < 0.85:
        e["dur"] = float(r.randint(0, 12)) + (r.randint(0, 1023) * G if r.random() < 0.15 else 0.0)
    elif dx < 0.9:
        e["dur"] = r.randint(0, 5)
    a = {"uid": uid, "jobhash": jh}
    if r.random() < 0.8:
        a["Type"] = r.choice(TYPES)
    if r.random() < 0.3:
        a["flag"] = r.random() < 0.5
    if r.random() < 0.2:
        a["none"] = None
    if r.random() < 0.4:
        a["nested"] = {"k": r.choice(["v1", "v2", "Recv"]), "deep": {"z": r.choice([5, 31, 0])}}
    if r.random() < 0.3:
        a["Power"] = r.choice(["0x1f", "31", "0X1F", "n/a", "", "007", "0", "00", "0x", "12ab", "0x1A", 31])
    if r.random() < 0.2:
        a["Bytes"] = r.choice([128, "128", 0])
        if r.random() < 0.3:
            a["bytes"] = 5
    if r.random() < 0.12:
        base = r.randint(1, 5000)
        hexy = r.random() < 0.6
        for k in range(5):
            v = base + 7 * k
            a[f"TS{k + 1}"] = (hex(v) if hexy else str(v))
        if e["name"].endswith("Cmpt Exec"):
            e["name"] = "z DmaI"
        e.setdefault("ts", gtime(r))
        if not isinstance(e.get("dur"), float) or e["dur"] <= 0:
            e["dur"] = float(r.randint(1, 9))
    if r.random() < 0.1:
        e["cat"] = r.choice(["kernel", "XYZ"])
    if r.random() < 0.1:
        a["lst"] = ["a", "b"]
    # where the device data lives: args, attr, or both (attr wins)
    y = r.random()
    if y < 0.6:
        e["args"] = a
    elif y < 0.8:
        e["attr"] = a
    else:
        keys = list(a.keys())
        r.shuffle(keys)
        cut = r.randint(0, len(keys))
        e["args"] = {k: a[k] for k in keys[:cut]}
        e["attr"] = {k: a[k] for k in keys[cut:]}
        if "Type" in a and r.random() < 0.5:
            e["args"]["Type"] = r.choice(TYPES)          # overridden by attr (if attr has it)
        if r.random() < 0.2:
            e["args"].update(e["attr"])
            e["attr"] = {}
    return e


def gen_m(r, k):
    e = {"ph": "M", "name": r.choice(["process_name", "thread_name"]), "pid": 0, "tid": r.randint(0, 3),
         "args": {"name": f"c17m{k}"}}
    if r.random() < 0.8:
        e["ts"] = r.choice([0, 0.0, gtime(r)])
    return e


def gen_other(r, k):
    ph = r.choice(["C", "i", "C", "b"])
    e = {"ph": ph, "name": "ctr", "pid": 0, "tid": 0, "ts": gtime(r), "args": {"v": k}}
    return e


def gen_malformed(r, uid, jh):
    """a slice that is malformed as an EVENT (missing / ill-typed ph, ts, dur, name, attr, jobhash): tie only, the oracle
    has no opinion on it (tag 'malformed')"""
    k = r.randint(0, 9)
    e = gen_x(r, uid, jh)
    for d in ("args", "attr"):          # C05's correction is not part of this tie: no counters on malformed events
        if isinstance(e.get(d), dict):
            for t in PROJ:
                e[d].pop(t, None)
    if k == 0:
        e.pop("ph")
    elif k == 1:
        e["ph"] = 5
    elif k == 2:
        e["ts"] = "12"
    elif k == 3:
        e["dur"] = None
    elif k == 4:
        e.pop("name")
    elif k == 5:
        e["name"] = 7
    elif k == 6:
        e["attr"] = "notadict"
    elif k == 7:
        for d in ("args", "attr"):
            if isinstance(e.get(d), dict):
                e[d].pop("jobhash", None)
    elif k == 8:
        e["ph"] = ""
    elif k == 9:
        e.pop("args", None)
        e.pop("attr", None)
    return e


def gen_cfg(r, events):
    cfg = {}
    starts, ends = [], []
    for e in events:
        ts, dur = e.get("ts", -1.0), e.get("dur", 0.0)
        if isinstance(ts, (int, float)) and isinstance(dur, (int, float)) and not isinstance(ts, bool):
            starts.append(float(ts))
            ends.append(float(ts + dur))
    pts = starts + ends or [0.0]

    def bound():
        x = r.random()
        p = r.choice(pts)
        if x < 0.5:
            return p
        if x < 0.65:
            return p - G
        if x < 0.8:
            return p + G
        if x < 0.9:
            return int(p)
        return gtime(r)
    if r.random() < 0.6:
        cfg["skip"] = r.choice([0, 0, 1, 1, 2, 3, 4])
    if r.random() < 0.65:
        cfg["count"] = r.choice([0, 1, 1, 2, 2, 3, 4, 5, 6, 1 << 60, -1])
    if r.random() < 0.6:
        cfg["ts_start"] = bound()
    if r.random() < 0.6:
        cfg["ts_end"] = bound()
    if r.random() < 0.3:
        cfg["no_count_types"] = r.choice(["M", "M", "MC", "MX", "XM", "Mi", "C", "MCi"])
    return cfg


def gen_direct(r, jh, malformed=False):
    n = r.choice([1, 2, 3, 4, 5, 6, 6, 7, 8, 8, 10, 12])
    events, tags = [], []
    for k in range(n):
        x = r.random()
        if malformed and x < 0.3:
            events.append(gen_malformed(r, k, jh))
            tags.append("malformed")
        elif x < (0.5 if malformed else 0.72):
            events.append(gen_x(r, k, jh))
            tags.append("clean")
        elif x < 0.92:
            events.append(gen_m(r, k))
            tags.append("clean")
        else:
            events.append(gen_other(r, k))
            tags.append("clean")
    if malformed and r.random() < 0.3:
        for e in events:
            if e.get("ph") == "X" and isinstance(e.get("args"), dict) and r.random() < 0.3:
                e["args"]["jobhash"] = 424242          # unknown job: "Not Available"
    cfg = gen_cfg(r, events)
    flt = gen_filter(r)
    return {"mode": "direct", "events": events, "tags": tags, "cfg": cfg, "filter": flt, "malformed": malformed}


NUM_SPELLINGS = [1, 1.0, True, "1", 2, 2.0, 0, 0.0, False, "1.0", 10, 1.5, -1, -1.0]
NUM_RX = ["^1$", "^1.0$", "^1\\.0$", "^True$", "^0$", "1", "\\.", "^2$", "^(1|2)$", "^-1$", "0$", "^.$", "^...$", "e"]


def gen_numeric_direct(r, jh):
    """ORACLE-ONLY direct case (not part of the Coq tie, whose py_str table has no floats): one attribute whose value is
    the same number in several JSON spellings (1, 1.0, true, "1"), a filter entry that tells their str() apart, and a
    log level (-D) picked at random: the selection is a function of str(value) and of nothing else"""
    c = gen_direct(r, jh)
    key = r.choice(["Iter", "Iter", "step"])
    for e in c["events"]:
        if e.get("ph") == "X" and r.random() < 0.85:
            d = e["attr"] if isinstance(e.get("attr"), dict) and (e["attr"] or "args" not in e) else e.setdefault("args", {})
            if isinstance(d, dict):
                d[key] = r.choice(NUM_SPELLINGS)
    ents = [f"args.{key}:{r.choice(NUM_RX)}"]
    if r.random() < 0.3:
        ents.append(gen_filter(r))
    r.shuffle(ents)
    c["filter"] = ",".join(x for x in ents if x.strip()) if r.random() < 0.8 else c["filter"]
    c["loglevel"] = r.choice([-1, 0, 1, 2, 3, 4])
    c["oracle_only"] = True
    return c


def gen_e2e_events(r):
    """a well-formed single-rank FLEX file: host slices (dur > 0) in a deliberately non-chronological file order,
    metadata interleaved; overlap depth per tid stays small"""
    n = r.choice([3, 4, 5, 6, 8, 10, 12])
    evs, t = [], float(r.randint(0, 5))
    # a third of the files are written as adjacent B/E pairs (the form of the repository's own FLEX samples) with
    # durations off the nanosecond grid: ingestion must hand the limiter exactly E.ts - B.ts
    be_form = r.random() < 0.33
    for k in range(n):
        t += float(r.randint(0, 4)) + (r.randint(0, 1023) * G if r.random() < 0.1 else 0.0)
        dur = float(r.randint(1, 6)) + (r.randint(1, 1023) * G if be_form else 0.0)
        # (Prep slices are consumed by the prep_queue counter stage: a documented removal, not this property's)
        e = {"ph": "X", "name": r.choice(E2E_NAMES), "pid": 0, "tid": k % 4, "ts": t, "dur": dur}
        a = {"uid": k, "Type": r.choice(E2E_TYPES)}
        if r.random() < 0.4:
            a["nested"] = {"k": r.choice(["v1", "v2", "Recv"]), "deep": {"z": r.choice([5, 31, 0])}}
        if r.random() < 0.3:
            a["flag"] = r.random() < 0.5
        if r.random() < 0.25:
            a["Power"] = r.choice(["0x1f", "31", "n/a"])
        if r.random() < 0.3:
            a["Iter"] = r.choice(NUM_SPELLINGS)
        if r.random() < 0.3:
            e["attr"] = a
        else:
            e["args"] = a
        if be_form:
            e["_be"] = True
        evs.append(e)
    # local shuffles: arrival order is file order, not time order
    for _ in range(r.randint(0, 3)):
        i = r.randrange(len(evs))
        j = min(len(evs) - 1, i + r.randint(1, 3))
        evs[i], evs[j] = evs[j], evs[i]
    out, mk = [], 0
    for e in evs:
        while r.random() < 0.25:
            out.append({"ph": "M", "name": r.choice(["process_name", "thread_name"]), "pid": 0, "tid": r.randint(0, 3),
                        "ts": r.choice([0, 0.0, e["ts"]]), "args": {"name": f"c17m{mk}"}})
            mk += 1
        out.append(e)
    if r.random() < 0.3:
        out.append({"ph": "M", "name": "thread_name", "pid": 0, "tid": 0, "ts": 0, "args": {"name": f"c17m{mk}"}})
    return out


def gen_e2e_cfg(r, events):
    cfg = gen_cfg(r, events)
    for k in ("ts_start", "ts_end"):
        if k in cfg:
            cfg[k] = float(cfg[k])
    if "count" in cfg and cfg["count"] < 0:
        cfg["count"] = 0
    if cfg.get("no_count_types") not in (None, "M", "MC", "Mi"):
        cfg.pop("no_count_types")
    return cfg


def gen_e2e_filter(r):
    for _ in range(20):
        f = gen_filter(r)
        # argparse would take a leading '-' as an option; args.jobhash / args.rank are added by ingestion and are
        # not attributes of the input the oracle reads
        if not f.startswith("-") and "jobhash" not in f and "rank" not in f:
            return f
    return ""


def gen_boundary_grid(ctx, jh):
    """every (ts_start, ts_end) pair drawn from the starts/ends of a fixed stream and their 2^-10 neighbours
    (all boundary coincidences), x skip x count; thorough: the full product, quick: skip 0 / no count bound plus
    one binding tuple"""
    def x(uid, ts, dur):
        return {"ph": "X", "name": "alpha", "pid": 0, "tid": 0, "ts": float(ts), "dur": float(dur),
                "args": {"uid": uid, "jobhash": jh}}
    events = [x(0, 2, 3), {"ph": "M", "name": "process_name", "pid": 0, "tid": 0, "ts": 0, "args": {"name": "c17m0"}},
              x(1, 5, 0), x(2, 4, 4), x(3, 8, 1)]
    pts = sorted({p + d for e in events if e["ph"] == "X" for p in (e["ts"], e["ts"] + e["dur"]) for d in (-G, 0.0, G)})
    tuples = [(None, None), (1, 2)] if ctx.quick() else [(sk, ct) for sk in (None, 1) for ct in (None, 1, 2)]
    cases = []
    for a in pts:
        for b in pts:
            for sk, ct in tuples:
                cfg = {"ts_start": a, "ts_end": b}
                if sk is not None:
                    cfg["skip"] = sk
                if ct is not None:
                    cfg["count"] = ct
                cases.append({"mode": "direct", "events": events, "tags": ["clean"] * len(events), "cfg": cfg,
                              "filter": "", "malformed": False, "grid": True})
    return cases


# ------------------------------------------------------------------ corpus
def load_corpus():
    d = os.path.join(coqrun.VERIF, "corpus", ID)
    out = []
    if os.path.isdir(d):
        for fn in sorted(os.listdir(d)):
            if fn.endswith(".json"):
                c = json.load(open(os.path.join(d, fn)))
                c["corpus"] = fn
                out.append(c)
    return out


def with_job(case, jh):
    """corpus/replay cases say "jobhash": "JOB" where the registered job id belongs"""
    c = copy.deepcopy(case)
    for e in c["events"]:
        for d in ("args", "attr"):
            if isinstance(e.get(d), dict) and e[d].get("jobhash") == "JOB":
                e[d]["jobhash"] = jh
    c.setdefault("tags", ["clean"] * len(c["events"]))
    return c


# ------------------------------------------------------------------ shrinking
def shrink(case, fails):
    """greedy delta debugging over events, filter entries and limit keys; fails(case) -> failure or None"""
    best = fails(case)
    if best is None:
        return None
    cur = copy.deepcopy(case)
    changed = True
    t0 = time.time()
    while changed and time.time() - t0 < 20:
        changed = False
        for i in range(len(cur["events"])):
            c = copy.deepcopy(cur)
            c["events"].pop(i)
            if "tags" in c:
                c["tags"].pop(i)
            f = fails(c)
            if f:
                cur, best, changed = c, f, True
                break
        if changed:
            continue
        ents = (cur.get("filter") or "").split(",")
        if cur.get("filter"):
            for i in range(len(ents)):
                c = copy.deepcopy(cur)
                c["filter"] = ",".join(ents[:i] + ents[i + 1:])
                f = fails(c)
                if f:
                    cur, best, changed = c, f, True
                    break
        if changed:
            continue
        for key in ("cfg", "cfg2"):
            if not isinstance(cur.get(key), dict) or cur.get("kind"):
                continue
            for k in list(cur[key].keys()):
                c = copy.deepcopy(cur)
                c[key].pop(k)
                f = fails(c)
                if f:
                    cur, best, changed = c, f, True
                    break
            if changed:
                break
    return best


def fails_fn(mode, work):
    if mode == "direct":
        return check_direct
    if mode == "mono":
        return check_mono
    return lambda c: check_e2e(c, work)


# ------------------------------------------------------------------ check
def canon(case):
    return json.dumps({k: case.get(k) for k in ("mode", "events", "cfg", "cfg2", "filter")}, sort_keys=True, default=str)


def run(ctx):
    r = ctx.rng
    jh, jn = job_direct()
    work = tempfile.mkdtemp(prefix="c17_", dir=ctx.work)
    dist = {"direct_events_per_stream": {}, "event_types": {}, "limit_keys": {}, "filter_entries": {},
            "filter_regexes_with_colon": 0, "filter_paths_below_scalar": 0, "boundary_coincidences": 0, "boundary_grid_cases": 0, "malformed_streams": 0, "impl_exceptions": {}, "e2e_scenarios": 0, "e2e_dlevels": {}, "e2e_oracle_only_runs": 0, "numeric_spelling_cases": 0,
            "e2e_runs": 0, "mono_pairs": {"count": 0, "window": 0, "window_binding_skipped": 0}}
    oracle_failures, seen = [], set()
    nontriv = 0
    try:
        # ---------------- direct drive
        cases = [with_job(c, jh) for c in load_corpus() if c.get("mode", "direct") == "direct"]
        grid = gen_boundary_grid(ctx, jh)
        cases += grid
        n_corpus = len(cases)
        for _ in range(ctx.pick(2000, 20000)):
            cases.append(gen_direct(r, jh))
        for _ in range(ctx.pick(300, 3000)):
            cases.append(gen_direct(r, jh, malformed=True))
        terms = []
        for c in cases:
            outs = drive_direct(c["cfg"], c["filter"], c["events"])
            terms.append((TIEIN(c["cfg"], c["filter"], [(jh, jn)], c["events"]), enc.V(outs_val(outs))))
            f = check_direct(c, outs)
            if f and len(oracle_failures) < 3:
                oracle_failures.append(shrink(c, check_direct) or f)
            key = canon(c)
            if key not in seen:
                seen.add(key)
                xs = [o for e, o in zip(c["events"], outs) if e.get("ph") == "X"]
                kept = sum(1 for o in xs if not isinstance(o, enc.Err) and len(o) == 1)
                drop = sum(1 for o in xs if not isinstance(o, enc.Err) and len(o) == 0)
                nontriv += int(kept >= 1 and drop >= 1)
            # distribution
            dist["direct_events_per_stream"][len(c["events"])] = dist["direct_events_per_stream"].get(len(c["events"]), 0) + 1
            dist["malformed_streams"] += int(bool(c.get("malformed")))
            dist["boundary_grid_cases"] += int(bool(c.get("grid")))
            for e in c["events"]:
                p = str(e.get("ph"))
                dist["event_types"][p] = dist["event_types"].get(p, 0) + 1
            for k in c["cfg"]:
                dist["limit_keys"][k] = dist["limit_keys"].get(k, 0) + 1
            fe = filter_entries(c["filter"])
            nf = len(fe)
            dist["filter_entries"][nf] = dist["filter_entries"].get(nf, 0) + 1
            dist["filter_regexes_with_colon"] += sum(1 for _, rx in fe if ":" in rx)
            dist["filter_paths_below_scalar"] += sum(1 for k, _ in fe if k in BELOW_SCALAR_PATHS)
            for o in outs:
                if isinstance(o, enc.Err):
                    dist["impl_exceptions"][o.tag] = dist["impl_exceptions"].get(o.tag, 0) + 1
            for e in c["events"]:
                ts, dur = e.get("ts"), e.get("dur", 0.0)
                if isinstance(ts, (int, float)) and isinstance(dur, (int, float)):
                    if c["cfg"].get("ts_start") == ts + dur or c["cfg"].get("ts_end") == ts:
                        dist["boundary_coincidences"] += 1
        # oracle-only direct cases: number spellings x log level (see gen_numeric_direct)
        for _ in range(ctx.pick(600, 5000)):
            c = gen_numeric_direct(r, jh)
            dist["numeric_spelling_cases"] += 1
            f = check_direct(c)
            if f and len(oracle_failures) < 3:
                oracle_failures.append(shrink(c, check_direct) or f)
        bad, extras, secs = coqrun.run_cases(
            "C17", IMPORTS, "tiein", "run_val", terms, shard=150,
            extra="Definition nt := Eval vm_compute in (count_if nontrivial cases).\nOpen Scope nat_scope.\nPrint nt.")
        mism = [{"name": "correspondence Limits.run_val vs normalize_phase1 (direct drive)",
                 "case": cases[j], "impl": terms[j][1][:600]} for j in bad[:5]]
        ties = [{"name": "Limits.run_val = real normalize_phase1 over a stream", "cases": len(cases),
                 "mismatching": len(bad), "coq_seconds": round(secs, 1)}]

        # ---------------- monotonicity (implementation against itself, applicability from the oracle)
        for c in cases[n_corpus:n_corpus + ctx.pick(600, 4000)]:
            if c.get("malformed"):
                continue
            cfg = c["cfg"]
            c2 = dict(cfg)
            c2["count"] = cfg.get("count", 1 << 60) + r.randint(1, 3)
            pairs = [{"mode": "mono", "kind": "count", "events": c["events"], "cfg": cfg, "cfg2": c2, "filter": c["filter"]}]
            w2 = dict(cfg)
            w2["ts_start"] = cfg.get("ts_start", 0.0) - r.choice([0, G, 1, 3])
            if "ts_end" in cfg:
                w2["ts_end"] = cfg["ts_end"] + r.choice([0, G, 1, 3])
            pairs.append({"mode": "mono", "kind": "window", "events": c["events"], "cfg": cfg, "cfg2": w2, "filter": c["filter"]})
            for p in pairs:
                if p["kind"] == "window":
                    _, tot = o_limit_keep(p["events"], p["cfg2"])
                    if tot > p["cfg2"].get("skip", 0) + p["cfg2"].get("count", 1 << 60):
                        dist["mono_pairs"]["window_binding_skipped"] += 1
                        continue
                dist["mono_pairs"][p["kind"]] += 1
                f = check_mono(p)
                if f and len(oracle_failures) < 5:
                    oracle_failures.append(shrink(p, check_mono) or f)

        # ---------------- end to end
        e2e_cases, e2e_terms = [], []
        corpus_e2e = [c for c in load_corpus() if c.get("mode") == "e2e"]
        n_scen = ctx.pick(120, 700)
        scen = 0
        attempts = 0
        while scen < n_scen + len(corpus_e2e) and attempts < 4 * n_scen + 50:
            attempts += 1
            if scen < len(corpus_e2e):
                events = corpus_e2e[scen]["events"]
                tuples = [(corpus_e2e[scen].get("cfg"), corpus_e2e[scen].get("filter"))]
            else:
                events = gen_e2e_events(r)
                xs_ = [e for e in events if e.get("ph") == "X"]
                edge = r.choice(xs_) if xs_ else None
                tuples = ([({"ts_start": float(edge["ts"] + edge["dur"])}, None),       # window opens exactly where a slice ends
                           ({"ts_end": float(edge["ts"])}, None)] if edge else []) + \
                         [(gen_e2e_cfg(r, events), None), (gen_e2e_cfg(r, events), None), (None, gen_e2e_filter(r)),
                          (gen_e2e_cfg(r, events), gen_e2e_filter(r)), (gen_e2e_cfg(r, events), gen_e2e_filter(r))]
            base = drive_e2e(work, events, None, None)
            alluids = sorted(o_uid(e) for e in events if e["ph"] == "X")
            if isinstance(base, enc.Err) or sorted(base[0]) != alluids:
                dist.setdefault("e2e_rejected_baseline", 0)
                dist["e2e_rejected_baseline"] += 1
                # a run WITHOUT --event_limit/--event_filter that loses slices in this process but not in a fresh one
                # selects by something other than its own command line (limits of an earlier run still in force)
                fresh = baseline_in_fresh_process(work)
                if fresh is not None and sorted(fresh) == alluids and len(oracle_failures) < 6:
                    oracle_failures.append({
                        "input": {"mode": "e2e", "events": events, "cfg": None, "filter": None,
                                  "history": "earlier Acelyzer runs of this process used --event_limit/--event_filter"},
                        "expected": "every slice exported (no limit, no filter on the command line)",
                        "observed": {"in_process": repr(base)[:300], "fresh_process": "all %d slices" % len(alluids)},
                        "signature": {"kind": "selection_depends_on_earlier_runs_of_the_process"}})
                if scen < len(corpus_e2e):
                    scen += 1
                continue              # generator constraint: the scenario must survive the default pipeline intact
            arrival, jobs = arrival_stream(work)
            order = {o_uid(e): i for i, e in enumerate(events)}
            scen += 1
            dist["e2e_scenarios"] += 1
            # oracle-only runs (a float has no entry in the tie's py_str table): a filter on the numeric attribute
            onum = [(r.choice([None, gen_e2e_cfg(r, events)]), "args.Iter:" + r.choice(NUM_RX), True) for _ in range(2)]
            for cfg, flt, oonly in [t + (False,) for t in tuples] + onum:
                # -D: the log level may change what is printed, never what is selected
                case = {"mode": "e2e", "events": events, "cfg": cfg, "filter": flt, "dlevel": r.choice([0, 0, 0, 1, 2, 3, 4])}
                res = drive_e2e(work, events, cfg, flt, dlevel=case["dlevel"])
                dist["e2e_runs"] += 1
                dist["e2e_dlevels"][case["dlevel"]] = dist["e2e_dlevels"].get(case["dlevel"], 0) + 1
                if oonly:
                    dist["e2e_oracle_only_runs"] += 1
                    f = check_e2e(case, work, res)
                    if f and len(oracle_failures) < 6:
                        oracle_failures.append(shrink(case, lambda c: check_e2e(c, work)) or f)
                    continue
                if isinstance(res, enc.Err):
                    v = res
                    dist["impl_exceptions"]["e2e:" + res.tag] = dist["impl_exceptions"].get("e2e:" + res.tag, 0) + 1
                else:
                    v = [sorted(res[0], key=lambda u: order.get(u, 1 << 30)), res[1]]
                e2e_cases.append(case)
                e2e_terms.append((TIEIN(cfg or {}, flt or "", jobs, arrival), enc.V(v)))
                f = check_e2e(case, work, res)
                if f and len(oracle_failures) < 6:
                    oracle_failures.append(shrink(case, lambda c: check_e2e(c, work)) or f)
                key = canon(case)
                if key not in seen and not isinstance(res, enc.Err):
                    seen.add(key)
                    nontriv += int(0 < len(res[0]) < len(alluids))
        bad2, _, secs2 = coqrun.run_cases("C17e2e", IMPORTS, "tiein", "e2e_val", e2e_terms, shard=100)
        mism += [{"name": "correspondence Limits.e2e_val vs Acelyzer end to end (--event_limit/--event_filter)",
                  "case": e2e_cases[j], "impl": e2e_terms[j][1][:600]} for j in bad2[:5]]
        ties.append({"name": "Limits.e2e_val = uids exported by the real Acelyzer run", "cases": len(e2e_cases),
                     "mismatching": len(bad2), "coq_seconds": round(secs2, 1)})
    finally:
        shutil.rmtree(work, ignore_errors=True)
    oracle_failures = [f for f in oracle_failures if f]
    return {
        "evaluations": len(cases) + len(e2e_cases),
        "distinct_nontrivial": nontriv,
        "rule": "distinct (stream, limit tuple, filter) cases in which the implementation kept >= 1 and dropped >= 1 slice "
                "(direct: returned [event] / []; end to end: 0 < exported uids < input uids). Direct streams: 1..12 events "
                "(X with args/attr/both, metadata with and without ts, counter/instant events), limit bounds drawn from the "
                "event starts/ends and their 2^-10 neighbours, 0..3 filter entries over name/args.* paths - a quarter of them "
                "continuing below a string/number/bool/None/list value or with an empty component, a fifth of the regexes with "
                "colons inside - plus entries without a colon; separate stream with malformed events (missing/ill-typed ph, "
                "ts, dur, name, attr, jobhash). "
                f"Exhaustive sub-family: all {len(grid)} (ts_start, ts_end[, skip, count]) tuples over the starts/ends of a fixed "
                "5-event stream and their 2^-10 neighbours (every boundary coincidence). "
                f"Same rule restricted to the limiter, evaluated inside Coq over all direct cases incl. duplicates: {extras.get('nt')}",
        "samples": [cases[0], cases[min(len(cases) - 1, n_corpus + 1)]] + e2e_cases[:1],
        "mismatches": mism, "oracle_failures": oracle_failures[:3], "ties": ties, "distribution": dist,
        "traces_validated_against_impl": len(cases) + len(e2e_cases), "exhaustive": True,
    }


def search(ctx, res, broken):
    """something broke but the run's oracle was silent: oracle only, fresh larger stream, bounded by time"""
    import random
    r = random.Random(ctx.seed + 1717)
    jh, _ = job_direct()
    t0 = time.time()
    work = tempfile.mkdtemp(prefix="c17s_", dir=ctx.work)
    try:
        for m in res.get("mismatches", []):          # the mismatching cases themselves first
            c = m.get("case")
            if isinstance(c, dict) and c.get("mode") == "direct":
                f = shrink(c, check_direct)
                if f:
                    return [f]
        n = 0
        while time.time() - t0 < ctx.pick(60, 600) and n < ctx.pick(20000, 200000):
            n += 1
            c = gen_direct(r, jh, malformed=(n % 7 == 0))
            f = check_direct(c)
            if f:
                return [shrink(c, check_direct) or f]
            if n % 20 == 0:
                events = gen_e2e_events(r)
                case = {"mode": "e2e", "events": events, "cfg": gen_e2e_cfg(r, events), "filter": gen_e2e_filter(r)}
                base = drive_e2e(work, events, None, None)
                if isinstance(base, enc.Err) or sorted(base[0]) != sorted(o_uid(e) for e in events if e["ph"] == "X"):
                    continue
                f = check_e2e(case, work)
                if f:
                    return [shrink(case, lambda x: check_e2e(x, work)) or f]
    finally:
        shutil.rmtree(work, ignore_errors=True)
    return []


def replay(ctx, payload):
    f = payload.get("failing")
    if not f:
        return True, "replay file names only broken obligations: " + str(payload.get("broken"))[:500]
    case = f["input"]
    jh, _ = job_direct()
    work = tempfile.mkdtemp(prefix="c17r_", dir=ctx.work)
    try:
        if case.get("mode") == "direct":
            case = with_job(case, jh)
        g = fails_fn(case.get("mode", "direct"), work)(case)
    finally:
        shutil.rmtree(work, ignore_errors=True)
    if g is None:
        return True, {"oracle": "holds on this input", "input": case}
    return False, {"expected": g["expected"], "observed": g["observed"], "signature": g["signature"]}
