"""C16 — every stage the command line requests is registered, for all flag combinations.

Model side: gen/Registration.v (the registration program, regenerated from acelyzer.py by
tools/translate_registration.py) + Profile.v (fwd_find_stage / register_stage / _ingest_profile_data).
Tie: the REAL Acelyzer.register_processing_functions is run against a recording subclass of the real
EventProcessor with the real StageProfile for sampled argument vectors x profiles; the guard atoms of the
generated program are evaluated by Python on the parsed arguments, and Coq computes from them the call
sequence, the registered stage list and the ingested profile, which must equal what was recorded.
Oracle (independent of forward matching): every register_stage call is located by its source line; the
k-th registration statement of the source corresponds to the k-th entry of everything.json; the stage list
must be the call list filtered by the profile flag at that index.
"""
import json
import os
import shutil
import sys
import tempfile

from common import coqrun, enc

ID = "C16"
MANIFEST = {
    "text": "Proof. The registration program of Acelyzer.register_processing_functions (every register_stage call with "
            "the conjunction of its enclosing if-conditions) and the three shipped profiles are regenerated from /repo's "
            "source on every run by a fail-closed Python-ast translator. Coq theorems over the model of fwd_find_stage / "
            "register_stage / _ingest_profile_data: under the static separation check (computed on the generated program) "
            "forward name matching hits every executed registration at its own profile entry for EVERY valuation of the "
            "guard atoms (C16_forward_matching, unbounded in program/profile); hence default/everything register all "
            "requested stages once and in order (C16_default, C16_everything), a profile disabling entry k skips exactly "
            "the registration of entry k (C16_single_disabled), torch_minimal and any ingested profile filter by the flag at "
            "the matched index (C16_torch_minimal, C16_any_profile). The translator and the hand model are tied to the code by "
            "running the real register_processing_functions with a recording EventProcessor on sampled argument vectors x "
            "profiles and comparing call sequence, stage list and ingested profile with the model inside Coq.",
    "note": "Trusted: Coq kernel + vm_compute (sep_static/names_aligned are computed on the generated terms); the translator "
            "tools/translate_registration.py (accepts only register_stage calls, simple assignments and if/else; anything "
            "else aborts = broken tie); guard atoms are treated as independent (superset of reachable combinations); the "
            "evaluation of atom source text by Python eval on the parsed args in the tie. Print Assumptions: closed under "
            "the global context for every theorem.",
    "technique": "Coq proof over a model regenerated from source by a translator (general lemma by induction + computation on "
                 "the generated program) + vm_compute correspondence against the real register_processing_functions",
    "design_ref": "DESIGN.md section 3.3 and 4/C16",
}
PROP_FILE = "props/C16.v"
MODEL_TARGETS = ["theories/C16Model.vo"]
THEOREMS = ["C16_forward_matching", "C16_default", "C16_everything", "C16_single_disabled", "C16_requested_is_sel",
            "C16_torch_minimal", "C16_any_profile", "C16_shared_contexts_separated"]
ALLOWED_AXIOMS = []
TRUSTED = [
    "translator tools/translate_registration.py: Python ast walk of register_processing_functions; callback names are "
    "established as the def names imported without alias in pipeline/__init__.py",
    "modelled, not verified: argparse (the tie samples argument vectors through the real parser), JSON loading of profiles, "
    "dict.popitem on single-entry dicts",
]
ASSUMPTIONS = [
    "a requested stage = a register_stage call executed by register_processing_functions for the parsed arguments",
    "distinct if-conditions are independent atoms (over-approximation of the reachable combinations)",
]

COUNTERS = ["power_ts4", "power_ts3", "coll_bw", "bandwidth", "prep_queue", "rcu_util"]
OVERLAP = ["tid", "drop", "async", "warn", "shift"]
SWITCHES = ["--flow", "-R", "-M", "-S", "-s", "--flex_ts_fix", "--drop_globals", "--keep_prep",
            "--comm_summarize_seq", "--power-stats", "-t", "--disable_tb", "--tb", "-I", "-k", "--keep_names"]


def _tr():
    sys.path.insert(0, os.path.join(coqrun.VERIF, "tools"))
    import translate_registration
    return translate_registration


# ---------------------------------------------------------------- implementation driver
def run_impl(argv, profile_sel, custom, work, atoms):
    """returns (valuation list, calls [(name, lineno)], stage names, ingested profile) from the REAL code,
    or enc.Err"""
    from aiu_trace_analyzer.core.acelyzer import Acelyzer
    import aiu_trace_analyzer.core.processing as processing
    import aiu_trace_analyzer.pipeline as event_pipe
    from aiu_trace_analyzer.constants import TS_CYCLE_KEY
    from aiu_trace_analyzer.core.stage_profile import StageProfile
    import aiu_trace_analyzer.logger as aiulog

    argv = list(argv) + ["-D", "0", "-o", os.path.join(work, "out.json")]
    if profile_sel == 2:
        pf = os.path.join(work, "custom_profile.json")
        json.dump({"stages": [{n: f} for n, f in custom]}, open(pf, "w"))
        argv += ["-P", pf]
    a = Acelyzer(argv)
    aiulog.loglevel = 0
    rec = []

    class Rec(processing.EventProcessor):
        def register_stage(self, callback, context=None, **kw):
            rec.append((callback.__name__, sys._getframe(1).f_lineno))
            return super().register_stage(callback, context, **kw)

        def __del__(self):
            pass

    try:
        prof = StageProfile.from_json(a.args.profile)
    except Exception as e:  # noqa: BLE001
        return enc.Err(type(e).__name__)
    proc = Rec(profile=prof, intermediate=(os.path.join(work, "inter") if a.args.intermediate else None))

    class Exp:
        pass
    a.register_processing_functions(proc, a.args, Exp())
    env = {"args": a.args, "self": a, "event_pipe": event_pipe, "TS_CYCLE_KEY": TS_CYCLE_KEY}
    val = [bool(eval(t, {"__builtins__": {"any": any, "len": len}}, env)) for t in atoms]  # noqa: S307
    stages = [s[0].__name__ for s in proc.stages[1:] if s[0].__name__ != "duplicate_and_hold"]
    # contexts write files from drain/__del__: neutralise by dropping references inside the scratch dir
    proc.stages = []
    return val, rec, stages, [[n, f] for n, f in prof.profile]


# ---------------------------------------------------------------- generators
def gen_argv(r, clog):
    argv = ["-i", "dummy.json"]
    ov = r.choice(OVERLAP + ["tid"] * 3)
    if ov != "tid" or r.random() < 0.3:
        argv += ["-O", ov]
    u = r.random()
    if u < 0.55:
        cs = [c for c in COUNTERS if r.random() < 0.45]
        if "power_ts3" in cs and "power_ts4" in cs:
            cs.remove(r.choice(["power_ts3", "power_ts4"]))
        argv += ["-C"] + cs        # possibly empty: -C with no values -> []
    if r.random() < 0.5:
        # -c takes one log, a comma separated list (one per rank) or a pattern
        argv += ["-c", r.choice([clog, clog, clog + "," + clog, os.path.join(os.path.dirname(clog), "sample_comp_log_*.txt")])]
    for s in SWITCHES:
        if r.random() < 0.3:
            argv.append(s)
    if r.random() < 0.25:
        argv += ["-F", r.choice(["C", "X", "CX"])]
    return argv


def gen_profile(r, everything):
    """(selector, custom stage list).  selector 0/1 need no -P (default.json / --tb's torch_minimal)."""
    u = r.random()
    n = len(everything)
    if u < 0.35:
        return 0, []
    if u < 0.65:      # single entry disabled
        k = r.randrange(n)
        return 2, [(nm, i != k) for i, (nm, _) in enumerate(everything)]
    if u < 0.8:       # random flags over the full list
        return 2, [(nm, r.random() < 0.8) for nm, _ in everything]
    if u < 0.92:      # partial list (sub-sequence), as a user profile might be
        sub = [(nm, r.random() < 0.85) for nm, _ in everything if r.random() < 0.7]
        return 2, sub or [(everything[0][0], True)]
    # malformed-ish: unknown or out-of-order names
    sub = [(nm, True) for nm, _ in everything if r.random() < 0.5]
    if sub:
        i = r.randrange(len(sub))
        sub.insert(i, (r.choice(["no_such_stage", "sort_events", "pipeline_barrier"]), r.random() < 0.5))
    return 2, sub or [("no_such_stage", True)]


def switches_request(argv):
    """stages the command line ASKS for, read from the switches alone (the documented meaning of the options, not the
    guards of register_processing_functions): (stage name, why)"""
    a = list(argv)
    counters = None
    if "-C" in a:
        i = a.index("-C")
        counters = []
        for x in a[i + 1:]:
            if x.startswith("-"):
                break
            counters.append(x)
    if counters is None:
        counters = ["power_ts4", "coll_bw", "prep_queue", "rcu_util"]     # the default counter set
    req = []
    if "--flow" in a:
        req += [("flow_prepare_event_data", "--flow"), ("flow_extraction", "--flow")]
    if "-c" in a and "rcu_util" in counters:
        req += [("compute_utilization_fingerprints", "-c <log> with the rcu_util counter"),
                ("compute_utilization", "-c <log> with the rcu_util counter")]
    if "--drop_globals" in a:
        req.append(("drop_global_events", "--drop_globals"))
    if "--comm_summarize_seq" in a:
        req += [("communication_event_collection", "--comm_summarize_seq"),
                ("communication_event_apply", "--comm_summarize_seq")]
    if "-F" in a:
        req.append(("processing_filter", "-F"))
    if "prep_queue" in counters:
        req.append(("queueing_counter", "prep_queue counter"))
    return req


def oracle(case, impl, regs, everything_names):
    """independent statement of the property on the implementation's record.
    (a) all-enabled profile: the stage list IS the list of register_stage calls.
    (b) otherwise: the j-th registration statement of the source corresponds to the j-th entry of everything.json
        (located through the call's source line, no name matching involved); the stage list is the call list filtered
        by the ingested profile's flag at that index.  If a call's statement has no same-named entry at its index the
        correspondence is undefined for this input and only (a) applies."""
    argv, sel, custom = case
    val, rec, stages, prof = impl
    req = [n for n, _ in rec]
    if len(prof) != len(everything_names) or [p[0] for p in prof] != everything_names:
        return [("ingested_profile_names_differ", {"profile": prof})]
    if sel == 2 and custom and all(isinstance(x, (list, tuple)) and len(x) == 2 and isinstance(x[0], str) for x in custom):
        # a profile FILE says: entries in the order of everything.json, matched forward; an entry of everything.json that
        # the file does not list at its turn is DISABLED; a listed entry carries its flag
        want, j, exp = [(n, bool(f)) for n, f in custom], 0, []
        for n in everything_names:
            if j < len(want) and want[j][0] == n:
                exp.append([n, want[j][1]])
                j += 1
            else:
                exp.append([n, False])
        if [list(x) for x in prof] != exp:
            k = next(i for i in range(len(exp)) if list(prof[i]) != exp[i])
            return [("ingested_profile_differs_from_the_profile_file",
                     {"expected": exp[k], "observed": list(prof[k]), "index": k})]
    if sel in (0, 1):
        # "under the shipped default profile": without -P the profile in force is the shipped one the command line selects
        # (default.json, or torch_minimal.json with --tb) - read here straight from the file, whatever ran before
        shipped = shipped_profile("torch_minimal.json" if sel == 1 else "default.json", everything_names)
        if shipped is not None and [list(x) for x in prof] != shipped:
            return [("profile_in_force_is_not_the_one_the_command_line_selects",
                     {"expected": "flags of " + ("torch_minimal.json" if sel == 1 else "default.json"),
                      "observed_disabled": [n for n, f in prof if not f][:6],
                      "history": "earlier Acelyzer objects of this process (e.g. one built with --tb)"})]
    if all(f for _, f in prof):
        for name, why in switches_request(argv):
            if name not in stages:
                return [("stage_requested_by_a_switch_is_not_in_the_pipeline",
                         {"expected": name, "because": why, "observed": stages[:0] + [n for n in stages if n[:3] == name[:3]]})]
        if req != stages:
            return [("requested_stage_skipped_under_all_enabled_profile",
                     {"expected": req, "observed": stages,
                      "missing": [n for k, n in enumerate(req) if k >= len(stages) or stages[k] != n][:3]})]
        return []
    line2idx = {}
    for i, rg in enumerate(regs):
        line2idx.setdefault(rg["lineno"], i)
    expect = []
    for name, ln in rec:
        i = line2idx.get(ln)
        if i is None or i >= len(everything_names) or everything_names[i] != name:
            return []          # correspondence undefined for this input
        if prof[i][1]:
            expect.append(name)
    if expect != stages:
        return [("wrong_registration_skipped_for_profile",
                 {"expected": expect, "observed": stages,
                  "missing": [n for n in expect if n not in stages], "extra": [n for n in stages if n not in expect]})]
    return []


_SHIPPED = {}


def shipped_profile(fname, everything_names):
    """[[name, flag]] of a shipped profile, by the documented rule (entries of everything.json in order; a profile file
    lists the enabled ones as {name: true}, matched forward) - computed from the JSON files, not through StageProfile"""
    if fname not in _SHIPPED:
        try:
            d = json.load(open(os.path.join(coqrun.REPO, "src/aiu_trace_analyzer/profiles", fname)))
            if len(d) == 0:         # an empty profile means: everything enabled
                d = json.load(open(os.path.join(coqrun.REPO, "src/aiu_trace_analyzer/profiles/everything.json")))
            want = [(k, bool(v)) for e in d["stages"] for k, v in e.items()]
            out, j = [], 0
            for n in everything_names:
                if j < len(want) and want[j][0] == n:
                    out.append([n, want[j][1]])
                    j += 1
                else:
                    out.append([n, False])
            _SHIPPED[fname] = out if j == len(want) else None
        except Exception:  # noqa: BLE001
            _SHIPPED[fname] = None
    return _SHIPPED[fname]


def is_full_enabled(sel, custom, everything):
    return sel == 0 or (sel == 2 and [tuple(x) for x in custom] == [(n, True) for n, _ in everything])


# ---------------------------------------------------------------- check
def run(ctx):
    tr = _tr()
    translator_ok = True
    try:
        ana = tr.analyze(coqrun.REPO)
        atoms, regs = ana["atoms"], ana["regs"]
    except Exception:  # noqa: BLE001  check.py reports the translator failure; the oracle still runs on the implementation
        translator_ok, atoms, regs = False, [], []
    everything = [(k, v) for d in json.load(open(os.path.join(
        coqrun.REPO, "src/aiu_trace_analyzer/profiles/everything.json")))["stages"] for k, v in d.items()]
    enames = [n for n, _ in everything]
    clog = os.path.join(coqrun.REPO, "tests/test_data/sample_comp_log_ideal.txt")
    r = ctx.rng
    cases = []
    # corpus first
    cdir = os.path.join(coqrun.VERIF, "corpus", "C16")
    if os.path.isdir(cdir):
        for fn in sorted(os.listdir(cdir)):
            c = json.load(open(os.path.join(cdir, fn)))
            argv = [clog if x == "@CLOG" else x for x in c["argv"]]
            cases.append((argv, c["profile_sel"], [tuple(x) for x in c.get("custom", [])]))
    # structured: each switch alone and each pair with default profile, --tb with builtin torch_minimal
    base = ["-i", "dummy.json"]
    singles = [[s] for s in SWITCHES] + [["-O", o] for o in OVERLAP] + [["-C", c] for c in COUNTERS] + \
              [["-C", "rcu_util", "-c", clog], ["-C"], ["-F", "C"], ["-c", clog]]
    for s in singles:
        cases.append((base + s, 0, []))
        cases.append((base + s, 2, list(everything)))
    for k in range(len(everything)):           # every single-entry-disabled profile, on a rich argument vector
        rich = base + ["-C", "power_ts4", "prep_queue", "rcu_util", "coll_bw", "bandwidth", "-c", clog, "--flow",
                       "--comm_summarize_seq", "--power-stats", "--drop_globals", "-F", "X", "--flex_ts_fix", "-s", "-R"]
        cases.append((rich, 2, [(nm, i != k) for i, (nm, _) in enumerate(everything)]))
    cases = [(a, (1 if ("--tb" in a and s_ == 0) else s_), c) for a, s_, c in cases]
    n_struct = len(cases)
    for _ in range(ctx.pick(1500, 40000)):
        argv = gen_argv(r, clog)
        sel, custom = gen_profile(r, everything)
        if "--tb" in argv and sel == 0:
            sel = 1
        cases.append((argv, sel, custom))

    # names are written as indices into a table defined once per cases file (parsing string literals is slow)
    table = []

    def nm(x):
        if x not in table:
            table.append(x)
        return f"(nm {table.index(x)})"

    def vnames(l):
        return "(VL [" + "; ".join(f"(VS {nm(x)})" for x in l) + "])"

    def vprof(pr):
        return "(VL [" + "; ".join(f"(VL [(VS {nm(n)}); (VB {enc.B(f)})])" for n, f in pr) + "])"

    work = tempfile.mkdtemp(prefix="c16_", dir=ctx.work)
    terms, fails, dist = [], [], {"profile_kind": {}, "atoms_true": {}, "n_calls": {}, "errors": {}}
    seen_lists, nontriv = set(), set()
    cwd = os.getcwd()
    os.chdir(work)
    try:
        for ci, case in enumerate(cases):
            argv, sel, custom = case
            try:
                impl = run_impl(argv, sel, custom, work, atoms)
            except SystemExit:
                impl = enc.Err("SystemExit")
            except Exception as e:  # noqa: BLE001
                impl = enc.Err(type(e).__name__)
            if isinstance(impl, enc.Err):
                dist["errors"][impl.tag] = dist["errors"].get(impl.tag, 0) + 1
                if impl.tag == "SystemExit":      # argparse rejected the vector (e.g. power_ts3+power_ts4): not a case
                    terms.append(None)
                    continue
                # profile ingestion failed: the model must say the same (IndexError on an empty list)
                val = [False] * len(atoms)
                terms.append((enc.P(enc.P(enc.L([enc.B(b) for b in val]), enc.N(sel)),
                                    enc.L([enc.P(nm(n), enc.B(f)) for n, f in custom])), enc.V(impl)))
                continue
            val, rec, stages, prof = impl
            inp = enc.P(enc.P(enc.L([enc.B(b) for b in val]), enc.N(sel)),
                        enc.L([enc.P(nm(n), enc.B(f)) for n, f in custom]))
            terms.append((inp, f"(VL [{vnames([n for n, _ in rec])}; {vnames(stages)}; {vprof(prof)}])"))
            for kind, detail in oracle(case, impl, regs, enames):
                fails.append({"input": {"argv": [("@CLOG" if x == clog else x) for x in argv], "profile_sel": sel,
                                        "custom": custom},
                              "expected": detail.get("expected"), "observed": detail,
                              "signature": {"kind": kind}})
            key = tuple(n for n, _ in rec)
            seen_lists.add(key)
            nontriv.add((key, tuple(stages)))
            pk = {0: "default.json", 1: "torch_minimal.json(--tb)"}.get(sel) or (
                "custom:full" if len(custom) == len(everything) else "custom:partial/malformed")
            dist["profile_kind"][pk] = dist["profile_kind"].get(pk, 0) + 1
            nt = sum(val)
            dist["atoms_true"][nt] = dist["atoms_true"].get(nt, 0) + 1
            dist["n_calls"][len(rec)] = dist["n_calls"].get(len(rec), 0) + 1
    finally:
        os.chdir(cwd)
        shutil.rmtree(work, ignore_errors=True)
    idx = [i for i, t in enumerate(terms) if t is not None]
    if not translator_ok:
        return {"evaluations": len(idx), "distinct_nontrivial": len(seen_lists),
                "rule": "translator refused the source: only the implementation-side oracle was evaluated",
                "samples": [], "mismatches": [], "oracle_failures": fails[:3], "ties": [], "distribution": dist}
    bad, _, secs = coqrun.run_cases("C16", "From AiuModel Require Import Profile C16Model.",
                                    "((list bool * nat) * prof)", "c16_run", [terms[i] for i in idx],
                                    prelude="Definition NT : list string := [" + "; ".join(enc.S(x) for x in table) +
                                            "].\nDefinition nm (i : nat) : string := nth i NT EmptyString.")
    mism = [{"name": "correspondence C16Model.c16_run (generated program + Profile.v) vs real register_processing_functions",
             "case": {"argv": cases[idx[j]][0], "profile_sel": cases[idx[j]][1], "custom": cases[idx[j]][2]},
             "impl": terms[idx[j]][1][:600]} for j in bad[:5]]
    # the translator's atom table must have the size the generated Coq file has
    return {
        "evaluations": len(idx), "distinct_nontrivial": len(seen_lists),
        "rule": "argument vectors through the real argparse: every switch / overlap mode / counter alone under default and "
                "explicit everything profile, every single-entry-disabled profile on a rich vector, then random vectors x "
                "{default, torch_minimal via --tb, single-disabled, random flags, partial, malformed} profiles. "
                f"distinct_nontrivial = number of DISTINCT register_stage call sequences observed ({len(seen_lists)}); "
                f"distinct (call sequence, stage list) pairs: {len(nontriv)}",
        "samples": [{"argv": cases[j][0], "profile_sel": cases[j][1]} for j in (0, n_struct, len(cases) - 1)],
        "mismatches": mism, "oracle_failures": fails[:3],
        "ties": [{"name": "C16Model.c16_run = recorded calls/stages/ingested profile", "cases": len(idx),
                  "mismatching": len(bad), "coq_seconds": round(secs, 1)}],
        "distribution": dist,
        "traces_validated_against_impl": len(idx),
    }


def search(ctx, res, broken):
    """proof/tie broke but the run's oracle was silent: brute force over argument vectors under the default profile and
    all single-disabled profiles for a requested-but-skipped stage"""
    import random
    import time
    tr = _tr()
    try:
        ana = tr.analyze(coqrun.REPO)
        regs, atoms = ana["regs"], ana["atoms"]
    except Exception:  # noqa: BLE001  translator refuses the source: only the all-enabled clause of the oracle applies
        regs, atoms = [], []
    everything = [(k, v) for d in json.load(open(os.path.join(
        coqrun.REPO, "src/aiu_trace_analyzer/profiles/everything.json")))["stages"] for k, v in d.items()]
    enames = [n for n, _ in everything]
    clog = os.path.join(coqrun.REPO, "tests/test_data/sample_comp_log_ideal.txt")
    r = random.Random(ctx.seed + 7)
    work = tempfile.mkdtemp(prefix="c16s_", dir=ctx.work)
    t0 = time.time()
    cwd = os.getcwd()
    os.chdir(work)
    try:
        for _ in range(ctx.pick(20000, 200000)):
            if time.time() - t0 > ctx.pick(90, 900):
                break
            argv = gen_argv(r, clog)
            sel, custom = gen_profile(r, everything)
            if "--tb" in argv and sel == 0:
                sel = 1
            try:
                impl = run_impl(argv, sel, custom, work, atoms)
            except (SystemExit, Exception):  # noqa: BLE001
                continue
            if isinstance(impl, enc.Err):
                continue
            fl = oracle((argv, sel, custom), impl, regs, enames)
            if fl:
                kind, detail = fl[0]
                return [{"input": {"argv": [("@CLOG" if x == clog else x) for x in argv], "profile_sel": sel,
                                   "custom": custom},
                         "expected": detail.get("expected"), "observed": detail, "signature": {"kind": kind}}]
    finally:
        os.chdir(cwd)
        shutil.rmtree(work, ignore_errors=True)
    return []


def replay(ctx, payload):
    f = payload.get("failing")
    if not f:
        return True, "replay file names only broken obligations: " + str(payload.get("broken"))[:500]
    tr = _tr()
    ana = tr.analyze(coqrun.REPO)
    everything = [(k, v) for d in json.load(open(os.path.join(
        coqrun.REPO, "src/aiu_trace_analyzer/profiles/everything.json")))["stages"] for k, v in d.items()]
    clog = os.path.join(coqrun.REPO, "tests/test_data/sample_comp_log_ideal.txt")
    argv = [clog if x == "@CLOG" else x for x in f["input"]["argv"]]
    custom = [tuple(x) for x in f["input"]["custom"]]
    work = tempfile.mkdtemp(prefix="c16r_", dir=ctx.work)
    cwd = os.getcwd()
    os.chdir(work)
    try:
        if f.get("signature", {}).get("kind") == "profile_in_force_is_not_the_one_the_command_line_selects":
            try:        # the history the finding names: an object built with --tb earlier in this process
                run_impl(["-i", "dummy.json", "--tb"], 1, [], work, ana["atoms"])
            except (SystemExit, Exception):  # noqa: BLE001
                pass
        impl = run_impl(argv, f["input"]["profile_sel"], custom, work, ana["atoms"])
        fl = oracle((argv, f["input"]["profile_sel"], custom), impl, ana["regs"], [n for n, _ in everything])
    finally:
        os.chdir(cwd)
        shutil.rmtree(work, ignore_errors=True)
    return not fl, {"oracle_failures": fl[:2]}
