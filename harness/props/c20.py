"""C20 — communication summarization replaces each sequence by the hull of its parts.

Ties (all evaluated inside Coq by vm_compute against coq/theories/CommSumm.v):
  * names   : CommSumm.name_val  vs  Python `"SenRdma" in name` and the REAL
              CommunicationGroupContext.extract_sequence_number on generated/adversarial names.
  * overlap : CommSumm.overlap_val vs the name the REAL add_to_sequence leaves in its queue after two parts
              (the nested _longest_name_overlap incl. its "EmptyName" quirk).
  * direct  : the REAL stage functions communication_event_collection / pipeline_barrier /
              communication_event_apply registered, in the order Acelyzer registers them, on a REAL EventProcessor
              with ONE real CommunicationGroupContext and the real module-level barrier, driven by the real
              Engine; exported stream (uid, ph, name, ts, dur, Peers as a set) or exception class vs
              CommSumm.summarize_val AND vs CommSumm.pipeline_val (the same three stages on Pipeline.v).
  * e2e     : Acelyzer(argv).run() in process on generated multi-rank / multi-job FLEX scenarios with
              --comm_summarize_seq -I: the stream the real pipeline delivers to the collection stage (snapshot) is
              given to the model, CommSumm.summarize_val must equal the snapshot behind the apply stage.
Oracle (independent brute force, Python): paired runs without / with --comm_summarize_seq matched by args.uid.
  Every (input file, sequence number) group of SenRdma slices exported by the run without the option is replaced by
  exactly one slice [min start, max end) with the union of the parts' peers (what a part names in args.Peer and
  what it lists in args.Peers); every other slice is exported unchanged; (direct drive additionally: the merged slice sits at the position of the last part).
"""
import contextlib
import copy
import glob
import io
import json
import os
import re
import shutil
import tempfile
import time
import zlib

from common import coqrun, e2e, enc

ID = "C20"
PROP_FILE = "props/C20.v"
MODEL_TARGETS = ["theories/CommSumm.vo", "theories/JobIds.vo"]
THEOREMS = ["C20_summarize_spec", "C20_hull", "C20_one_slice_per_sequence", "C20_others_unchanged",
            "C20_key_is_file_and_number", "C20_inputs_have_distinct_jobs", "C20_same_path_same_job", "C20_job_ids_always_assigned",
            "C20_two_phase", "C20_error_branch"]
ALLOWED_AXIOMS = []
MANIFEST = {
    "text": "Proof. Coq theorems over an executable model (CommSumm.v) of CommunicationGroupContext "
            "(extract_sequence_number, add_to_sequence, apply), communication_event_collection / _apply and their "
            "registration around the shared barrier, for arbitrary event streams of any length, any number of jobs, "
            "ranks and interleavings (no bound): the output of the two stages equals, event by event, 'unchanged if "
            "not part of a sequence, removed if a later part of the same (job, number) exists, otherwise the slice "
            "built from ALL parts of the sequence' (C20_summarize_spec); that slice starts at the minimum start, ends "
            "at the maximum end of the parts and lists exactly the union of what ALL parts of the sequence name in "
            "args.Peer and list in args.Peers (any input Peers: list, comma separated string, single value, blank items "
            "skipped), strictly ascending (C20_hull); with distinct uids exactly one exported slice stems from each sequence and the slices that "
            "are not parts are exported unchanged and in order (C20_one_slice_per_sequence, C20_others_unchanged); two "
            "parts share a key iff they come from the same job and carry the same digit string "
            "(C20_key_is_file_and_number); the operational pipeline collection;barrier;apply of Pipeline.v computes "
            "exactly this function (C20_two_phase); the only exception is int() of a malformed Peer or of a malformed "
            "item of Peers of a part (C20_error_branch). The model is tied to the code by correspondence runs (name classifier, name overlap, "
            "the three real stages on the real EventProcessor, Acelyzer end to end with -I snapshots) and an "
            "independent paired-run oracle (without/with --comm_summarize_seq, matched by args.uid).",
    "note": "Trusted: Coq kernel + vm_compute; hand-written model CommSumm.v tied by differential testing only; "
            "Python re for the fixed pattern [_-](\\d+) re-implemented on ASCII strings; Python set of ints modelled "
            "as a strictly ascending list (Peers compared as sets); times on the exact grid. The name of the merged "
            "slice (longest common prefix with the code's 'EmptyName' quirk) is modelled and tied but is not part "
            "of the property. F8 (key int(str(job)+digits): collisions across jobs, falsy 0) was found by this "
            "check and is fixed in /repo (ce60951); seeded/revert_fix_C20 re-introduces it and is caught by the "
            "corpus cases d02/d03 (direct) and e01/e02 (CLI object, file names chosen to hit job ids 441/4411/0). "
            "Until /repo cff7329 add_to_sequence collected only args.Peer, so the peers a part lists in args.Peers (the "
            "BcList part of a multicast has nothing else) were missing on the merged slice; found by this check's audit, "
            "fixed in /repo; the model (e_peers = the items of args.Peers, peers_add), C20_hull and the oracles now cover "
            "Peers of the parts; seeded/revert_fix_C20d re-introduces the defect and is caught by corpus d10/d13/d15/e04 "
            "and the generated streams (22% of the slices carry a Peers). The e2e oracle takes the parts' peers from the "
            "INPUT files, because with --flow the run without the option drops a part's Peer when it has a Peers as well. "
            "End to end a slice belongs to a sequence by the name the run WITHOUT the option exports it with "
            "(earlier stages normalise RDMA -> Rdma). Print Assumptions: closed under the global context.",
    "technique": "Coq proof (induction over the stream with a per-key invariant linking the counter to the number of "
                 "remaining parts) + vm_compute correspondence against the real stage functions and the real CLI "
                 "object + brute-force paired-run oracle",
    "design_ref": "DESIGN.md section 4/C20, section 6 F8",
}
TRUSTED = [
    "modelled, not verified: Python re.search for the one fixed pattern [_-](\\d+) and `in` on ASCII names (\\d on "
    "non-ASCII digits is outside the generated domain); int() of args.Peer and of each item of args.Peers is modelled as "
    "'accepts -> integer / rejects -> ValueError' (an item of Peers additionally: 'blank -> skipped') with the harness "
    "deciding which (Python int, str of int with blanks, blank, or a non-number string); splitting a Peers string at ',' "
    "and taking the elements of a list/tuple/set or a single value as the items is done by the harness encoding "
    "(peers_entries); values on which int() raises TypeError (None, dict) are outside the generated domain",
    "Python set iteration order is not modelled: Peers is compared as a set of ints (sorted on both sides)",
    "e2e tie: the stream given to the model is the -I snapshot behind communication_event_collection of the same run "
    "(what the earlier stages do to the input is C01/C04/C05/C08's business); -I itself is trusted to be transparent "
    "and additionally tested (final export with and without -I compared)",
    "float arithmetic: inputs on the exact grid (multiples of 1/8 below 2^20), so ts+dur, max-min are exact doubles",
]
ASSUMPTIONS = [
    "default or 'everything' profile: the barrier between collection and apply is enabled",
    "uids (args.uid) of the input slices are pairwise distinct (C20_one_slice_per_sequence / C20_others_unchanged "
    "identify exported slices by uid, as the observation does)",
    "no part of a sequence carries an args.Peer, or an item in its args.Peers, that int() rejects (otherwise the run "
    "aborts with ValueError, C20_error_branch); args.Peers of the parts is otherwise unrestricted and part of the union",
    "input paths of one run are pairwise distinct strings (the same path listed twice is one job for the tool); paths "
    "whose crc32 % 10000 collide are included: the tool gives the later one the next free id (fix 'unique job ids')",
    "end to end, a slice is a part of sequence (input file, number) by the name the run without the option exports it "
    "with; options that rewrite names between the comm stages and the export (-R, -O async) are outside the domain",
]

REPO = coqrun.REPO
IMPORTS = "From AiuModel Require Import CommSumm."
EV_TY = "(list ev)"
_SEQ_RE = re.compile(r"[_-](\d+)")       # the oracle's own reading of "sequence number"
CORPUS = os.path.join(coqrun.VERIF, "corpus", "C20")


# ================================================================== quiet helpers
def _quiet():
    return contextlib.redirect_stdout(io.StringIO()), contextlib.redirect_stderr(io.StringIO())


def _silence_logger():
    import aiu_trace_analyzer.logger as aiulog
    aiulog.loglevel = -1


# ================================================================== case representation
# event: {"uid", "ph" ("X"|"C"), "name", "job", "pid", "tid", "ts", "dur", "peer": ["none"]|["int", z, how]|["bad", text],
#         "peers": None | [entries] | "comma separated string" | int,  "peers_form": absent | "list" | "tuple" | "set"}
#         how in {"int", "str", "pad"}; an entry is an int or a string (number, number with blanks, blank, non-number);
#         peers_form says as which Python container a list reaches the stages in the direct drive (JSON files: a list)
def peer_value(p):
    if p[0] == "none":
        return None
    if p[0] == "int":
        return {"int": p[1], "str": str(p[1]), "pad": f" {p[1]} "}[p[2]]
    return p[1]


def event_dict(e, jobhash=True):
    """the event as the stages see it (direct drive) / as written into a FLEX file (e2e, jobhash=False)"""
    args = {"uid": e["uid"]}
    if jobhash:
        args["jobhash"] = e["job"]
    pv = peer_value(e["peer"])
    if pv is not None:
        args["Peer"] = pv
    if e.get("peers") is not None:
        v = e["peers"]
        if isinstance(v, list):
            form = e.get("peers_form") if jobhash else None
            v = tuple(v) if form == "tuple" else set(v) if form == "set" else list(v)
        args["Peers"] = v
    d = {"ph": e["ph"], "pid": e["pid"], "tid": e["tid"], "name": e["name"], "ts": float(e["ts"]), "args": args}
    if e["ph"] == "X":
        d["dur"] = float(e["dur"])
    return d


def _peer_list(v):
    """ORACLE side: the peers a slice names in one args value: absent, one int / numeric string, a comma separated
    string or a list; an empty item names nobody.  ValueError/TypeError if an item is not a number (malformed input)."""
    if v is None:
        return []
    if isinstance(v, str):
        items = v.split(",")
    elif isinstance(v, (list, tuple, set, frozenset)):
        items = list(v)
    else:
        items = [v]
    return [int(x) for x in items if not (isinstance(x, str) and x.strip() == "")]


def _malformed(e):
    """ORACLE side: a case event whose Peer / Peers do not name integers"""
    try:
        _peer_list(peer_value(e["peer"]))
        _peer_list(e.get("peers"))
        return False
    except (ValueError, TypeError):
        return True


def peers_entries(v):
    """TIE side (encoding of the model's input and of the observation): the entries of an args.Peers value in the sense
    of CommSumm.e_peers: a string is split at ',', a list/tuple/set gives its elements, anything else is ONE entry"""
    if isinstance(v, str):
        return v.split(",")
    if isinstance(v, (list, tuple, set, frozenset)):
        return list(v)
    return [v]


def entry_class(x):
    """one entry: None = blank, int = int() accepts it, "bad" = int() rejects it (the harness decides, the model acts)"""
    if str(x).strip() == "":
        return None
    try:
        return int(x)
    except (ValueError, TypeError):
        return "bad"


def canon_peers(v):
    """= CommSumm.peers_val: None | ascending set of the listed ints | the string malformed"""
    if v is None:
        return None
    cls = [entry_class(x) for x in peers_entries(v)]
    if "bad" in cls:
        return "malformed"
    return sorted({c for c in cls if c is not None})


def project(d):
    """what the ties observe of one event: [uid, is X, name, ts, dur, Peers as ascending ints | None]"""
    a = d.get("args") or {}
    return [a.get("uid"), d.get("ph") == "X", d.get("name"), float(d.get("ts")), float(d.get("dur", 0.0)),
            canon_peers(a.get("Peers"))]


def coq_peer(p):
    if p[0] == "none":
        return "PNone"
    if p[0] == "int":
        return f"(PInt {enc.Z(p[1])})"
    return "PBad"


def coq_entry(x):
    c = entry_class(x)
    return "PNone" if c is None else "PBad" if c == "bad" else f"(PInt {enc.Z(c)})"


def coq_ev(e):
    peers = "None" if e.get("peers") is None else f"(Some {enc.L([coq_entry(x) for x in peers_entries(e['peers'])])})"
    dur = e["dur"] if e["ph"] == "X" else 0
    return (f"(mkev {enc.B(e['ph'] == 'X')} {enc.S(e['name'])} {enc.Z(e['job'])} {enc.Q(float(e['ts']))} "
            f"{enc.Q(float(dur))} {coq_peer(e['peer'])} {enc.Z(e['uid'])} {peers})")


def coq_events(evs):
    return enc.L([coq_ev(e) for e in evs])


def snapshot_event(d):
    """-I snapshot dict -> case event (for the e2e tie)"""
    a = d.get("args") or {}
    if "Peer" in a:
        try:
            peer = ["int", int(a["Peer"]), "int"]
        except (ValueError, TypeError):
            peer = ["bad", str(a["Peer"])]
    else:
        peer = ["none"]
    return {"uid": a.get("uid", -1), "ph": d["ph"] if d["ph"] == "X" else "C", "name": d["name"],
            "job": a.get("jobhash", -1), "pid": d.get("pid", 0), "tid": d.get("tid", 0), "ts": d["ts"],
            "dur": d.get("dur", 0.0), "peer": peer, "peers": a.get("Peers")}


# ================================================================== the property's own reading (oracle side)
def seq_group(name, ph):
    """None, or the digit string of the sequence a slice with this name belongs to"""
    if ph != "X" or "SenRdma" not in name:
        return None
    m = _SEQ_RE.search(name)
    return m.group(1) if m else None


def old_key(job, digits):
    try:
        return int(str(job) + digits)
    except ValueError:
        return None


def old_key_facts(groups):
    """does the pre-fix key int(str(job)+digits) collide / vanish on these (job, digits) groups? (signature detail)"""
    keys = {}
    for (job, digits) in groups:
        keys.setdefault(old_key(job, digits), []).append((job, digits))
    return {"old_key_collision": any(len(v) > 1 for k, v in keys.items() if k is not None),
            "old_key_zero": any(k == 0 for k in keys)}


# ================================================================== direct drive of the real stages
def drive_direct(events):
    """the three stages as Acelyzer registers them, on the real EventProcessor/Engine.
    Returns the exported event dicts (in order) or enc.Err(exception class)."""
    import aiu_trace_analyzer.core.processing as processing
    import aiu_trace_analyzer.core.engine as engine
    import aiu_trace_analyzer.pipeline as event_pipe
    import aiu_trace_analyzer.pipeline.barrier as barrier
    from aiu_trace_analyzer.core.stage_profile import StageProfile
    _silence_logger()
    o, e_ = _quiet()
    with o, e_:
        barrier._main_barrier_context.drain()
        names = ["communication_event_collection", "pipeline_barrier", "communication_event_apply", "zz_end"]
        prof = StageProfile({"stages": [{n: True} for n in names]}, {"stages": [{n: True} for n in names]})
        proc = processing.EventProcessor(profile=prof)
        cctx = event_pipe.CommunicationGroupContext()
        try:
            proc.register_stage(callback=event_pipe.communication_event_collection, context=cctx)
            proc.register_stage(callback=event_pipe.pipeline_barrier, context=event_pipe._main_barrier_context)
            proc.register_stage(callback=event_pipe.communication_event_apply, context=cctx)
            out = []

            class Exp:
                def export(self, evs):
                    out.extend(copy.deepcopy(x.json()) for x in evs)

                def flush(self):
                    pass
            engine.Engine([event_dict(e) for e in events], proc, Exp()).run()
            return out
        except Exception as ex:  # noqa: BLE001
            return enc.Err(type(ex).__name__)
        finally:
            barrier._main_barrier_context.drain()
            cctx.queues = {}          # __del__ would log an ERROR line per unfinished context of an aborted run


def direct_observed(out):
    if isinstance(out, enc.Err):
        return out
    return [project(d) for d in out]


def oracle_direct(events, out):
    """the property on one direct-drive case; returns None or a failure description"""
    if any((e["peer"][0] == "bad" or _malformed(e)) and seq_group(e["name"], e["ph"]) is not None for e in events):
        return None                               # a part with a malformed Peer / Peers: outside the property (tie only)
    if isinstance(out, enc.Err):
        return {"kind": "stages_raised", "error": out.tag}
    groups, order = {}, []
    for e in events:
        g = seq_group(e["name"], e["ph"])
        if g is not None:
            groups.setdefault((e["job"], g), []).append(e)
    facts = old_key_facts(groups)
    last_uid = {k: v[-1]["uid"] for k, v in groups.items()}
    part_uids = {e["uid"] for v in groups.values() for e in v}
    for e in events:
        if e["uid"] not in part_uids or e["uid"] in last_uid.values():
            order.append(e["uid"])
    got = [d["args"].get("uid") for d in out]
    if sorted(got) != sorted(order):
        return dict(kind="wrong_set_of_exported_slices", expected_uids=order, observed_uids=got, **facts)
    if got != order:
        return dict(kind="merged_slice_not_at_position_of_last_part", expected_uids=order, observed_uids=got, **facts)
    byuid = {e["uid"]: e for e in events}
    for d in out:
        uid = d["args"]["uid"]
        e = byuid[uid]
        if uid not in part_uids:
            if _core(d) != _core(event_dict(e)):
                return dict(kind="non_sequence_slice_changed", uid=uid, **facts)
            continue
        k = (e["job"], seq_group(e["name"], e["ph"]))
        ps = groups[k]
        start = min(float(p["ts"]) for p in ps)
        end = max(float(p["ts"]) + float(p["dur"]) for p in ps)
        # "the union of their peers": what a part names in args.Peer AND what it lists in args.Peers (the BcList part of a
        # multicast carries only "Peers"; until /repo fix cff7329 those were ignored)
        peers = sorted({q for p in ps for q in _peer_list(peer_value(p["peer"])) + _peer_list(p.get("peers"))})
        if d["ts"] != start:
            return dict(kind="hull_start_wrong", group=list(k), expected=start, observed=d["ts"], **facts)
        if d["ts"] + d["dur"] != end:
            return dict(kind="hull_end_wrong", group=list(k), expected=end, observed=d["ts"] + d["dur"], **facts)
        if canon_peers(d["args"].get("Peers")) != peers:
            return dict(kind="peers_not_union", group=list(k), expected=peers,
                        observed=canon_peers(d["args"].get("Peers")), **facts)
    return None


def _core(d):
    """the fields of an event dict that 'exported unchanged' speaks about"""
    return [d.get("ph"), d.get("name"), d.get("pid"), d.get("ts"), d.get("dur"), d.get("args")]


# ================================================================== end-to-end drive
def write_files(sc, d):
    """one FLEX file per scenario file; names re-rolled until the job ids crc32(path) % 10000 are pairwise distinct
    (or equal to the id the scenario asks for with "job_id")."""
    paths, ids = [], set()
    layout = sc.get("layout", "flat")
    for k, f in enumerate(sc["files"]):
        salt = 0
        while True:
            p = os.path.join(d, f"rank{f['pid']}_job{k}_{salt}.json")
            if layout == "dirs":         # one directory per input, the SAME base name everywhere (rank0/trace.json, ...)
                os.makedirs(os.path.join(d, f"in{k}_{salt}"), exist_ok=True)
                p = os.path.join(d, f"in{k}_{salt}", "flex_trace.json")
            jid = zlib.crc32(p.encode()) % 10000
            want = f.get("job_id")
            if layout == "collide" and k == 1 and want is None:
                want = zlib.crc32(paths[0].encode()) % 10000     # two different inputs of one run share a job id
            if (want is None and jid not in ids) or (want is not None and jid == want):
                ids.add(jid)
                break
            salt += 1
            if salt > 2000000:
                raise RuntimeError("cannot find a file name with the requested job id")
        with open(p, "w") as fh:
            json.dump([event_dict(dict(e, pid=f["pid"]), jobhash=False) for e in f["events"]], fh)
        paths.append(p)
    return paths


def _run_acelyzer(argv):
    from aiu_trace_analyzer.core.acelyzer import Acelyzer
    o, e_ = _quiet()
    with o, e_:
        try:
            ace = Acelyzer(argv)
            _silence_logger()
            rc = ace.run()
            del ace
        except SystemExit as ex:
            return enc.Err("SystemExit%s" % ex.code)
        except Exception as ex:  # noqa: BLE001
            _cleanup_after_abort()
            return enc.Err(type(ex).__name__)
    return None if rc == 0 else enc.Err("rc%s" % rc)


def _cleanup_after_abort():
    import gc
    import aiu_trace_analyzer.pipeline.barrier as barrier
    barrier._main_barrier_context.drain()
    gc.collect()


def _slices(path):
    res = json.load(open(path))
    return [x for x in res["traceEvents"] if x.get("ph") == "X"]


_LOG_TEXT = "\n".join([
    "[DeepRT] ===== Perf BEGIN =====", "====== Perf Summary ======", "~~~~ Ideal/Total Cycles ~~~~", "-" * 91,
    "Name" + " " * 76 + "Ideal Cy.", "-" * 91, "relu_3-opCatScalar".ljust(80) + "155500         ", "-" * 91,
    "Total\t\t\t\t\t\t\t\t\t\t155500", "-" * 91, "====== Perf Summary End ======", "[DeepRT] ===== Perf END =====", ""])


def real_job_ids(inp):
    """the job ids the REAL ingestion gives the inputs of one run (one MultifileIngest, per-file ingesters in -i order)"""
    import aiu_trace_analyzer.logger as aiulog
    from aiu_trace_analyzer.ingest.ingestion import MultifileIngest
    old = aiulog.loglevel
    aiulog.loglevel = -1
    try:
        m = MultifileIngest(inp)
        ids = [g.jobhash for g in m.ingesters]
        for g in list(m.ingesters) + [m]:
            for w in g.warnings.values():
                w.auto_log = False
        del m
    except Exception as ex:  # noqa: BLE001
        ids = enc.Err(type(ex).__name__)
    finally:
        aiulog.loglevel = old
    return ids


def drive_e2e(sc, workdir=None):
    """three runs on the same files: plain, --comm_summarize_seq, --comm_summarize_seq -I.
    Returns dict(a=slices|Err, b=slices|Err, c=slices|Err, coll=[snapshot events], appl=[snapshot events], jobs=[ids])"""
    d = tempfile.mkdtemp(prefix="c20_", dir=workdir)
    try:
        paths = write_files(sc, d)
        inp = ",".join(paths)
        res = {"jobs": real_job_ids(inp), "path_hashes": [zlib.crc32(p.encode()) % 10000 for p in paths],
               "mirror_jobs": e2e.job_ids(paths),
               # the first input listed once more at the end: one job, the same id (C20_same_path_same_job)
               "jobs_dup": real_job_ids(inp + "," + paths[0])}
        base = ["-i", inp, "-D", "0", "--disable_tb"] + list(sc.get("opts", []))
        if "@LOG" in base:          # a compiler log switches the utilization stages on (default counter rcu_util)
            log = os.path.join(d, "compiler.log")
            with open(log, "w") as fh:
                fh.write(_LOG_TEXT)
            base[base.index("@LOG")] = log
        for key, extra in (("a", []), ("b", ["--comm_summarize_seq"]), ("c", ["--comm_summarize_seq", "-I"])):
            outp = os.path.join(d, f"out_{key}.json")
            err = _run_acelyzer(base + ["-o", outp] + extra)
            res[key] = err if err is not None else _slices(outp)
        res["coll"], res["appl"] = None, None
        if not isinstance(res["c"], enc.Err):
            pre = os.path.join(d, "out_c.json")
            fc = glob.glob(pre + "_*_communication_event_collection")
            fa = glob.glob(pre + "_*_communication_event_apply")
            if len(fc) == 1:
                res["coll"] = json.load(open(fc[0]))["traceEvents"]
            if len(fa) == 1:
                res["appl"] = json.load(open(fa[0]))["traceEvents"]
        return res
    finally:
        shutil.rmtree(d, ignore_errors=True)


def oracle_e2e(sc, res):
    """paired runs matched by uid. Reference = what the run WITHOUT the option exported."""
    a, b = res["a"], res["b"]
    if isinstance(a, enc.Err):
        return None                                # the scenario is not processable at all: not C20's business
    if isinstance(b, enc.Err):
        return {"kind": "run_with_option_failed", "error": b.tag}
    a_by, b_by = {}, {}
    for x in a:
        a_by.setdefault(x["args"].get("uid"), []).append(x)
    for x in b:
        b_by.setdefault(x["args"].get("uid"), []).append(x)
    # a slice belongs to the sequence (input file, number) by the name it is exported with when the option is off
    # (earlier stages may normalise names, e.g. RDMA -> Rdma); slices the plain run does not export have no group
    groups = {}
    for k, f in enumerate(sc["files"]):
        for e in f["events"]:
            for xa in a_by.get(e["uid"], [])[:1]:
                g = seq_group(xa["name"], xa["ph"])
                if g is not None:
                    groups.setdefault((k, g), []).append(e["uid"])
    in_by = {e["uid"]: e for f in sc["files"] for e in f["events"]}
    facts = old_key_facts({(res["jobs"][k], g) for (k, g) in groups})
    facts["path_hashes_collide_within_run"] = len(set(res["path_hashes"])) < len(res["path_hashes"])
    part_uids = {u for v in groups.values() for u in v}
    for uid in sorted(set(a_by) | set(b_by), key=str):
        if uid in part_uids:
            continue
        if a_by.get(uid) != b_by.get(uid):
            return dict(kind="non_sequence_slice_changed", uid=uid, without=a_by.get(uid), with_option=b_by.get(uid),
                        **facts)
    for (k, g), uids in sorted(groups.items()):
        ps = [x for u in uids for x in a_by.get(u, [])]
        ms = [x for u in uids for x in b_by.get(u, [])]
        if not ps:
            if ms:
                return dict(kind="slice_for_sequence_without_exported_parts", group=[k, g], **facts)
            continue
        if len(ms) != 1:
            return dict(kind="sequence_not_replaced_by_exactly_one_slice", group=[k, g], parts=len(ps),
                        observed=len(ms), **facts)
        m = ms[0]
        start = min(p["ts"] for p in ps)
        end = max(p["ts"] + p["dur"] for p in ps)
        # "their peers" = what the parts (those the reference run exports) name in args.Peer and list in args.Peers IN THE
        # INPUT: with --flow a later stage of the reference run renames Peer to Peers and drops a part's Peer when that part
        # has a Peers list as well, so the exported reference slices are not a faithful record of the parts' peers
        exported = {p["args"]["uid"] for p in ps}
        peers = sorted({q for u in uids if u in exported
                        for q in _peer_list(peer_value(in_by[u]["peer"])) + _peer_list(in_by[u].get("peers"))})
        if m["ts"] != start:
            return dict(kind="hull_start_wrong", group=[k, g], expected=start, observed=m["ts"], **facts)
        if m["ts"] + m["dur"] != end:
            return dict(kind="hull_end_wrong", group=[k, g], expected=end, observed=m["ts"] + m["dur"], **facts)
        if sorted(set(_peer_list(m["args"].get("Peers")))) != peers:
            return dict(kind="peers_not_union", group=[k, g], expected=peers,
                        observed=sorted(set(_peer_list(m["args"].get("Peers")))), **facts)
        ref = [p for p in ps if p["args"]["uid"] == m["args"]["uid"]][0]
        if (m["pid"], m["tid"]) != (ref["pid"], ref["tid"]) or \
                {x: y for x, y in m["args"].items() if x not in ("Peers", "Peer")} != \
                {x: y for x, y in ref["args"].items() if x not in ("Peers", "Peer")}:
            return dict(kind="merged_slice_lost_identity_of_its_part", group=[k, g], **facts)
    return None


# ================================================================== generators
_SFX = ["", " a", " b", " part0", " part1", " part", "a", "b", "_x", " [4B]", "_1", "-2 x"]
_DIG = ["0", "00", "1", "2", "5", "05", "12", "15", "23", "3", "007", "44115"]


def gen_name(r, digits=None, safe=False):
    """mostly SenRdma names with a sequence number; a share of near misses.  safe: no name that the end-to-end
    pipeline classifies as a device kernel (those need TS1..TS5 counters)"""
    x = r.random()
    dg = digits if digits is not None else r.choice(_DIG)
    sep = r.choice("__-")
    if x < 0.62:
        return r.choice(["", "", "AllReduce ", "x "]) + "SenRdma" + sep + dg + r.choice(_SFX)
    if x < 0.70:
        return "Send" + sep + dg + " SenRdma" + r.choice(["", "_9", "-77"]) + r.choice(_SFX)   # first match wins
    if x < 0.76:
        return "SenRdma" + r.choice([" ", "_", "-", "__", "_-", ""]) + r.choice(["x", "", "y1", "_"]) + \
            r.choice(["", sep + dg])
    if x < 0.82:
        return r.choice(["senrdma", "SenRdm", "Senrdma", "RecvRdma", "SenRDMA", "SenRdm a"]) + sep + dg + r.choice(_SFX)
    if x < 0.90:
        return r.choice(["host op", "memcpy_3", "other-12", "barrier-4 x"] if safe else
                        ["host op", "Cmpt Exec", "DmaI_3", "other-12", "AllReduce_4 Cmpt"])
    return "SenRdma" + sep + dg + "".join(r.choice("ab_ 0-") for _ in range(r.randint(0, 4)))


def gen_peer(r, bad=0.0):
    x = r.random()
    if x < bad:
        return ["bad", r.choice(["1,2", "x", "", "3.5", "0x1"])]
    if x < 0.2:
        return ["none"]
    return ["int", r.choice([0, 1, 2, 3, 4, 7, 11, 63, -1]), r.choice(["int", "str", "str", "pad"])]


_BAD_PEERS = ["1,x", ["a"], "1;2", [3, "2.5"], "x", [1, "0x2"], "1,2,y", "4 5", ["", "-"], ",z"]


def gen_peers(r, p_some, bad=0.0, containers=True, blanks=True):
    """args.Peers of a slice: (value, form).  Absent, a list of ints (sorted or not, possibly empty, possibly as a
    tuple/set), a list with numeric strings / blanks, a comma separated string (incl. "", blanks, empty items), a single
    int; with probability `bad` something with an item int() rejects.  blanks=False: no empty items (the --flow stages of
    the run WITHOUT the option do int() on every item of a Peers string themselves)."""
    if r.random() >= p_some:
        return None, None
    ints = r.sample(range(0, 13), r.randint(0, 4))
    if r.random() < bad:
        return copy.deepcopy(r.choice(_BAD_PEERS)), None
    x = r.random()
    if x < 0.45:
        return sorted(ints), None
    if x < 0.58:
        return ints, (r.choice(["tuple", "set", "list"]) if containers else None)
    if x < 0.70:
        return [r.choice([i, str(i), f" {i} ", i]) for i in ints] + (r.choice([[], [], [""], [" "]]) if blanks else []), None
    if x < 0.92:
        if not blanks:
            return r.choice([",", ",", ", ", " ,"]).join(map(str, ints or [r.randint(0, 12)])), None
        return r.choice([",", ",", ", ", " ,"]).join(map(str, ints)) + r.choice(["", "", "", ",", " "]), None
    return r.choice([0, 5, 11, 13, -2]), None


_JOBS = [0, 1, 4, 12, 44, 123, 441, 4411, 9999, 5]


def gen_direct(r, uid0=1, malformed=False):
    n = r.choice([1, 2, 3, 4, 6, 8, 12, 16, 24])
    njobs = r.randint(1, 3)
    jobs = r.sample(_JOBS, njobs)
    digs = r.sample(_DIG, r.randint(1, 3))
    evs = []
    # host time as recorded in the field is epoch scale (~2^41 us): still exact on the 1/8 us grid
    epoch = r.choice([0.0, 0.0, 0.0, 2.0 ** 41 + r.randrange(0, 1 << 20)])
    for i in range(n):
        job = r.choice(jobs)
        ph = "X" if r.random() < 0.93 else "C"
        name = gen_name(r, r.choice(digs) if r.random() < 0.85 else None)
        if ph == "C":
            name = name.strip()        # CounterEvents.__init__ strips the name at export time (not a comm stage effect)
        e = {"uid": uid0 + i, "ph": ph, "name": name, "job": job, "pid": jobs.index(job) % 2, "tid": r.randint(0, 3),
             "ts": epoch + r.randint(0, 4000) / 8.0, "dur": r.randint(1, 400) / 8.0,
             "peer": gen_peer(r, 0.08 if malformed else 0.0)}
        e["peers"], form = gen_peers(r, 0.22, 0.3 if malformed else 0.0)
        if form is not None:
            e["peers_form"] = form
        evs.append(e)
    return {"kind": "direct", "events": evs}


def gen_e2e(r):
    """multi-rank, several jobs per rank, sequences interleaved in time; slices of one rank occupy disjoint slots
    (plus optional enclosing host slices) so that overlap resolution has nothing to do"""
    ranks = r.randint(1, 4)
    epoch = r.choice([0.0, 0.0, 0.0, 2.0 ** 41 + r.randrange(0, 1 << 20)])      # epoch-scale host time (exact on the grid)
    files, uid = [], 1
    opts = r.choice([[], [], ["--flow"], ["--keep_names"], ["-c", "@LOG"]])
    shared_digs = r.sample(_DIG, 3)
    for pid in range(ranks):
        njobs = r.choice([1, 1, 2, 3])
        nslots = r.randint(2, 26)
        slots = list(range(nslots))
        r.shuffle(slots)
        per_job = [[] for _ in range(njobs)]
        # sequences of this rank: (job, digits, parts)
        seqs = []
        for j in range(njobs):
            for dg in r.sample(shared_digs + r.sample(_DIG, 2), r.randint(0, 3)):
                if (j, dg) not in [(a, b) for a, b, _ in seqs]:
                    seqs.append((j, dg, r.choice([1, 2, 2, 3, 4, 6])))
        base = 100.0 * pid if r.random() < 0.5 else 0.0
        base += epoch
        for s in slots:
            t0 = base + 16.0 * s + r.randint(0, 8) / 8.0
            dur = r.randint(1, 48) / 8.0
            x = r.random()
            live = [q for q in seqs if q[2] > 0]
            if live and x < 0.7:
                k = r.randrange(len(live))
                j, dg, left = live[k]
                seqs[seqs.index(live[k])] = (j, dg, left - 1)
                sep = r.choice("_-")
                name = r.choice(["", "AllReduce "]) + "SenRdma" + sep + dg + r.choice(_SFX)
                peer = gen_peer(r)
            else:
                j = r.randrange(njobs)
                name = gen_name(r, safe=True) if x > 0.85 else r.choice(["host op", "RecvRdma_3 x", "SenRdma nonum", "memcpy-4"])
                peer = gen_peer(r) if r.random() < 0.3 else ["none"]
            per_job[j].append({"uid": uid, "ph": "X", "name": name, "job": -1, "pid": pid,
                               "tid": r.choice([1, 1, 2, 3]), "ts": t0, "dur": dur, "peer": peer,
                               "peers": gen_peers(r, 0.22, containers=False, blanks="--flow" not in opts)[0]})
            uid += 1
        if nslots >= 3 and seqs and r.random() < 0.35:
            # one more part of some sequence that ENCLOSES a range of slots (nesting is legal): the part that comes
            # last in stream order is then not the one that ends last
            j, dg, _ = r.choice(seqs)
            s0 = r.randint(1, nslots - 2)
            s1 = r.randint(s0, nslots - 1)
            per_job[j].append({"uid": uid, "ph": "X", "name": "SenRdma_" + dg + " all", "job": -1, "pid": pid,
                               "tid": 1, "ts": base + 16.0 * s0 - 0.125, "dur": 16.0 * (s1 - s0 + 1),
                               "peer": gen_peer(r), "peers": None})
            uid += 1
        if r.random() < 0.4:            # an enclosing host slice (nesting, no partial overlap)
            per_job[0].append({"uid": uid, "ph": "X", "name": "step", "job": -1, "pid": pid, "tid": 1,
                               "ts": base - 1.0 if base else 0.0, "dur": 16.0 * nslots + 64.0, "peer": ["none"],
                               "peers": None})
            uid += 1
        for j in range(njobs):
            evs = sorted(per_job[j], key=lambda e: e["ts"])
            if evs:
                files.append({"pid": pid, "events": evs})
    if not files:
        files.append({"pid": 0, "events": [{"uid": uid, "ph": "X", "name": "SenRdma_1", "job": -1, "pid": 0, "tid": 1,
                                            "ts": 1.0, "dur": 1.0, "peer": ["none"], "peers": None}]})
    # the property quantifies over runs "with --comm_summarize_seq": other options may be on as well
    # ... and where the input files live is free: one directory, one directory each with equal base names, or two
    # paths that happen to share the 4-digit job id
    return {"kind": "e2e", "files": files, "opts": opts,
            "layout": r.choice(["flat"] * 6 + ["dirs", "dirs", "collide"])}


def adversarial_names():
    base = ["", "SenRdma", "SenRdma_", "SenRdma_1", "SenRdma-1", "SenRdma_12 part0", "SenRdma__12", "SenRdma_-5",
            "SenRdma-_5", "_7 SenRdma", "-", "_", "_a1", "a_1b_2", "SenRdma_007", "SenRdma_0", "SenRdma_00x",
            "xSenRdmay_3", "SenRdmSenRdma_4", "SenRdSenRdma-9", "SSenRdma_1", "senrdma_1", "SenRdma 5", "SenRdma_1_2",
            "SenRdma_12-34", "9_9", "_9", "SenRdma:_/_3", "SenRdma_1a", "SenRdma_1b", "SenRdma_1ab"]
    return base


def adversarial_pairs():
    ns = ["", "a", "b", "ab", "aa", "abb", "aba", "SenRdma_1", "SenRdma_1a", "SenRdma_1b", "SenRdma_1 a", "SenRdma_1 b",
          "SenRdma_12", "EmptyName", "E", "SenRdma_1ab", "x"]
    return [(a, b) for a in ns for b in ns]


# ================================================================== small ties on the string functions
def impl_name(name):
    import aiu_trace_analyzer.pipeline as event_pipe
    c = event_pipe.CommunicationGroupContext()
    k = c.extract_sequence_number(name, 7)
    if k is None:
        d = None
    elif isinstance(k, tuple) and len(k) == 2 and k[0] == 7:
        d = k[1]
    else:
        d = ["unexpected-key", str(k)]
    return ["SenRdma" in name, d]


def impl_overlap(a, b):
    import aiu_trace_analyzer.pipeline as event_pipe
    c = event_pipe.CommunicationGroupContext()
    try:
        c.add_to_sequence({"name": a, "ts": 0.0, "dur": 1.0}, "k")
        c.add_to_sequence({"name": b, "ts": 0.0, "dur": 1.0}, "k")
        return c.queues["k"]["name"]
    except Exception as ex:  # noqa: BLE001
        return enc.Err(type(ex).__name__)
    finally:
        c.queues = {}


# ================================================================== shrinking
def _fails_direct(case):
    out = drive_direct(case["events"])
    return oracle_direct(case["events"], out), out


def _fails_e2e(case, work=None):
    res = drive_e2e(case, work)
    return oracle_e2e(case, res), res


def shrink(case, sig_kind, work=None, budget=40.0):
    """greedy one-event deletion keeping a failure of the same kind"""
    t0 = time.time()
    case = copy.deepcopy(case)

    def fails(c):
        f = (_fails_direct(c) if c["kind"] == "direct" else _fails_e2e(c, work))[0]
        return f is not None and f["kind"] == sig_kind
    changed = True
    while changed and time.time() - t0 < budget:
        changed = False
        if case["kind"] == "direct":
            for k in range(len(case["events"])):
                c2 = dict(case, events=case["events"][:k] + case["events"][k + 1:])
                if fails(c2):
                    case, changed = c2, True
                    break
        else:
            for fi in range(len(case["files"])):
                if len(case["files"]) > 1:
                    c2 = dict(case, files=case["files"][:fi] + case["files"][fi + 1:])
                    if fails(c2):
                        case, changed = c2, True
                        break
                f = case["files"][fi]
                hit = False
                for k in range(len(f["events"])):
                    if len(f["events"]) == 1:
                        break
                    f2 = dict(f, events=f["events"][:k] + f["events"][k + 1:])
                    c2 = dict(case, files=case["files"][:fi] + [f2] + case["files"][fi + 1:])
                    if fails(c2):
                        case, changed, hit = c2, True, True
                        break
                if hit:
                    break
    return case


def failure_record(case, work=None, do_shrink=True):
    """run the oracle on a case; None or the oracle_failures entry (shrunk)"""
    f, obs = (_fails_direct(case) if case["kind"] == "direct" else _fails_e2e(case, work))
    if f is None:
        return None
    if do_shrink:
        case = shrink(case, f["kind"], work)
        f2, obs2 = (_fails_direct(case) if case["kind"] == "direct" else _fails_e2e(case, work))
        if f2 is not None:
            f, obs = f2, obs2
    return _record(case, f, obs)


def _record(case, f, obs):
    if case["kind"] == "direct":
        observed = direct_observed(obs)
        observed = repr(observed) if isinstance(observed, enc.Err) else observed
    else:
        observed = {k: (repr(v) if isinstance(v, enc.Err) else [project(x) for x in v])
                    for k, v in obs.items() if k in ("a", "b")}
        observed["jobs"] = obs.get("jobs")
    sig = {k: v for k, v in f.items() if k in ("kind", "old_key_collision", "old_key_zero", "error", "path_hashes_collide_within_run")}
    return {"input": case, "expected": {k: v for k, v in f.items() if k not in sig or k == "kind"},
            "observed": observed, "signature": sig}


# ================================================================== corpus
def load_corpus():
    out = []
    if os.path.isdir(CORPUS):
        for fn in sorted(os.listdir(CORPUS)):
            if fn.endswith(".json"):
                c = json.load(open(os.path.join(CORPUS, fn)))
                c["corpus"] = fn
                out.append(c)
    return out


# ================================================================== the check
def multi_part(case):
    """non-triviality rule: some (job/file, number) sequence of the case has >= 2 parts"""
    cnt = {}
    if case["kind"] == "direct":
        for e in case["events"]:
            g = seq_group(e["name"], e["ph"])
            if g is not None:
                cnt[(e["job"], g)] = cnt.get((e["job"], g), 0) + 1
    else:
        for k, f in enumerate(case["files"]):
            for e in f["events"]:
                g = seq_group(e["name"], e["ph"])
                if g is not None:
                    cnt[(k, g)] = cnt.get((k, g), 0) + 1
    return any(v >= 2 for v in cnt.values())


def _hist(d, k):
    d[k] = d.get(k, 0) + 1


def run(ctx):
    r = ctx.rng
    work = ctx.work
    corpus = load_corpus()
    directs = [c for c in corpus if c["kind"] == "direct"]
    e2es = [c for c in corpus if c["kind"] == "e2e"]
    n_corpus = len(corpus)
    uid = 1
    for _ in range(ctx.pick(1500, 20000)):
        directs.append(gen_direct(r))
    for _ in range(ctx.pick(150, 2000)):
        directs.append(gen_direct(r, malformed=True))
    for _ in range(ctx.pick(200, 2500)):
        e2es.append(gen_e2e(r))

    dist = {"direct_events": {}, "direct_outcome": {}, "e2e_files": {}, "e2e_ranks": {}, "e2e_events": {},
            "parts_per_sequence": {}, "corpus_cases": n_corpus}
    oracle_failures, mismatches, ties = [], [], []
    seen, nontriv = set(), 0
    failing_cases = []

    # ---- string ties
    names = adversarial_names() + [gen_name(r) for _ in range(ctx.pick(600, 6000))]
    nterms = [(enc.S(n), enc.V(impl_name(n))) for n in names]
    bad, _, secs = coqrun.run_cases("C20_names", IMPORTS, "string", "name_val", nterms)
    ties.append({"name": "CommSumm.name_val = ('SenRdma' in name, extract_sequence_number digits)", "cases": len(names),
                 "mismatching": len(bad), "coq_seconds": round(secs, 1)})
    for j in bad[:3]:
        mismatches.append({"name": "correspondence CommSumm.name_val vs extract_sequence_number",
                           "case": names[j], "impl": nterms[j][1]})
    pairs = adversarial_pairs() + [(gen_name(r), gen_name(r)) for _ in range(ctx.pick(400, 4000))]
    pterms = [(enc.P(enc.S(a), enc.S(b)), enc.V(impl_overlap(a, b))) for a, b in pairs]
    bad, _, secs = coqrun.run_cases("C20_overlap", IMPORTS, "(string * string)", "overlap_val", pterms)
    ties.append({"name": "CommSumm.overlap_val = name left by add_to_sequence after two parts", "cases": len(pairs),
                 "mismatching": len(bad), "coq_seconds": round(secs, 1)})
    for j in bad[:3]:
        mismatches.append({"name": "correspondence CommSumm.overlap vs _longest_name_overlap",
                           "case": list(pairs[j]), "impl": pterms[j][1]})

    # ---- direct drive
    dterms = []
    for c in directs:
        out = drive_direct(c["events"])
        dterms.append((coq_events(c["events"]), enc.V(direct_observed(out))))
        f = oracle_direct(c["events"], out)
        if f is not None:
            failing_cases.append(c)
        key = json.dumps(c["events"], sort_keys=True)
        if key not in seen:
            seen.add(key)
            nontriv += multi_part(c)
        _hist(dist["direct_events"], len(c["events"]))
        _hist(dist["direct_outcome"], out.tag if isinstance(out, enc.Err) else "ok")
        cnt = {}
        for e in c["events"]:
            g = seq_group(e["name"], e["ph"])
            if g is not None:
                cnt[(e["job"], g)] = cnt.get((e["job"], g), 0) + 1
        for v in cnt.values():
            _hist(dist["parts_per_sequence"], min(v, 8))
    extra = "Definition nt := Eval vm_compute in (count_if nontrivial cases).\nPrint nt."
    bad, extras, secs = coqrun.run_cases("C20_direct", IMPORTS, EV_TY, "summarize_val", dterms, extra=extra)
    ties.append({"name": "CommSumm.summarize_val = real collection;barrier;apply on the real EventProcessor",
                 "cases": len(directs), "mismatching": len(bad), "coq_seconds": round(secs, 1)})
    for j in bad[:3]:
        mismatches.append({"name": "correspondence CommSumm.summarize_val vs communication_event_collection/_apply",
                           "case": directs[j], "impl": dterms[j][1][:600]})
    for j in bad[:20]:
        if directs[j] not in failing_cases:
            failing_cases.append(directs[j])
    nt_coq = extras.get("nt")
    bad2, _, secs = coqrun.run_cases("C20_pipeline", IMPORTS, EV_TY, "pipeline_val", dterms)
    ties.append({"name": "CommSumm.pipeline_val (Pipeline.v run of comm_graph) = the same real run",
                 "cases": len(directs), "mismatching": len(bad2), "coq_seconds": round(secs, 1)})
    for j in bad2[:3]:
        mismatches.append({"name": "correspondence CommSumm.pipeline_val vs real EventProcessor run",
                           "case": directs[j], "impl": dterms[j][1][:600]})

    # ---- end to end
    eterms, ecases, transparent_bad, no_snapshot = [], [], [], []
    idterms, idcases = [], []
    for c in e2es:
        res = drive_e2e(c, work)
        f = oracle_e2e(c, res)
        if f is not None:
            failing_cases.append(c)
        key = json.dumps(c["files"], sort_keys=True)
        if key not in seen:
            seen.add(key)
            nontriv += multi_part(c)
        _hist(dist["e2e_files"], len(c["files"]))
        _hist(dist["e2e_ranks"], len({f_["pid"] for f_ in c["files"]}))
        _hist(dist["e2e_events"], 10 * (sum(len(f_["events"]) for f_ in c["files"]) // 10))
        for k, f_ in enumerate(c["files"]):
            cnt = {}
            for e in f_["events"]:
                g = seq_group(e["name"], e["ph"])
                if g is not None:
                    cnt[g] = cnt.get(g, 0) + 1
            for v in cnt.values():
                _hist(dist["parts_per_sequence"], min(v, 8))
        if not isinstance(res["jobs"], enc.Err):
            idterms.append((enc.P(enc.Z(e2e.TOP_LEVEL_JOB), enc.L([enc.P(enc.N(k + 1), enc.Z(h))
                                                                   for k, h in enumerate(res["path_hashes"])])),
                            enc.V(res["jobs"])))
            idcases.append(c)
            if not isinstance(res.get("jobs_dup"), enc.Err) and res.get("jobs_dup") is not None:
                hs = res["path_hashes"]
                idterms.append((enc.P(enc.Z(e2e.TOP_LEVEL_JOB),
                                      enc.L([enc.P(enc.N(k + 1), enc.Z(h)) for k, h in enumerate(hs)] +
                                            [enc.P(enc.N(1), enc.Z(hs[0]))])), enc.V(res["jobs_dup"])))
                idcases.append(dict(c, note="first input listed twice"))
            if len(set(res["path_hashes"])) < len(res["path_hashes"]):
                _hist(dist, "e2e_runs_with_colliding_path_hashes")
        if isinstance(res["a"], enc.Err):
            _hist(dist, "e2e_plain_run_failed")
            continue
        if isinstance(res["c"], enc.Err) or res["coll"] is None or res["appl"] is None:
            no_snapshot.append((c, repr(res["c"])))
            continue
        if not isinstance(res["b"], enc.Err) and \
                sorted(map(json.dumps, map(project, res["b"]))) != sorted(map(json.dumps, map(project, res["c"]))):
            transparent_bad.append(c)
        evs = [snapshot_event(d) for d in res["coll"]]
        eterms.append((coq_events(evs), enc.V([project(d) for d in res["appl"]])))
        ecases.append(c)
    # job ids: JobIds.run_ids on (path key, crc32(path) % 10000) in -i order vs the ids of the real ingesters
    bad_i, _, secs_i = coqrun.run_cases(
        "C20_ids", "From Coq Require Import String.\nFrom AiuModel Require Import Base JobIds.", "(Z * list (nat * Z))", "ids_val", idterms, prelude=IDS_PRELUDE)
    ties.append({"name": "JobIds.run_ids(crc32 of the input paths) = job ids of the real MultifileIngest ingesters",
                 "cases": len(idterms), "mismatching": len(bad_i), "coq_seconds": round(secs_i, 1)})
    for j in bad_i[:3]:
        mismatches.append({"name": "correspondence JobIds.run_ids vs MultifileIngest job ids",
                           "case": idcases[j], "impl": idterms[j][1][:300]})
    bad, _, secs = coqrun.run_cases("C20_e2e", IMPORTS, EV_TY, "summarize_val", eterms)
    ties.append({"name": "CommSumm.summarize_val(snapshot behind collection) = snapshot behind apply (Acelyzer -I)",
                 "cases": len(eterms), "mismatching": len(bad), "coq_seconds": round(secs, 1)})
    for j in bad[:3]:
        mismatches.append({"name": "correspondence CommSumm.summarize_val vs Acelyzer --comm_summarize_seq -I snapshots",
                           "case": ecases[j], "impl": eterms[j][1][:600]})
    for c, why in no_snapshot[:2]:
        mismatches.append({"name": "e2e: run with --comm_summarize_seq -I gave no collection/apply snapshots "
                                   "(stage not registered or run failed: %s)" % why, "case": c})
    for c in transparent_bad[:2]:
        mismatches.append({"name": "e2e: export with -I differs from export without -I", "case": c})

    # ---- failing inputs (shrunk); corpus / earliest first
    for c in failing_cases[:4]:
        rec = failure_record({k: v for k, v in c.items() if k != "corpus"}, work)
        if rec is not None:
            oracle_failures.append(rec)

    n_eval = len(names) + len(pairs) + 2 * len(directs) + len(eterms)
    return {
        "evaluations": n_eval, "distinct_nontrivial": nontriv,
        "rule": "corpus first (%d cases), then direct-drive streams of 1..24 events over 1..3 jobs with colliding "
                "digit strings, 22%% of the slices with an args.Peers (list/tuple/set/comma separated string/single value) "
                "(%d, of which a malformed-Peer/Peers stream of %d) and end-to-end scenarios with 1..4 ranks, "
                "1..3 jobs per rank, interleaved sequences of 1..6 parts (%d; each = 3 Acelyzer runs). non-trivial = "
                "distinct case in which some (job, sequence number) has >= 2 parts (same rule evaluated inside Coq "
                "over the direct cases incl. duplicates: %s)" % (n_corpus, len(directs), ctx.pick(150, 2000),
                                                                 len(e2es), nt_coq),
        "samples": [directs[n_corpus] if len(directs) > n_corpus else None, e2es[-1]],
        "mismatches": mismatches, "oracle_failures": oracle_failures, "ties": ties, "distribution": dist,
        "traces_validated_against_impl": len(directs) + 3 * len(e2es),
    }


IDS_PRELUDE = """
Definition ids_val (c : Z * list (nat * Z)) : val :=
  match run_ids (fst c) (snd c) with
  | None => VE "no id"%string
  | Some js => VL (map VZ js)
  end.
"""


def search(ctx, res, broken):
    """something broke but the oracle of the run was silent: fresh, larger streams (time-bounded)"""
    import random
    r = random.Random(ctx.seed + 7919)
    t0 = time.time()
    limit = ctx.pick(90, 600)
    n = 0
    while time.time() - t0 < limit:
        n += 1
        c = gen_e2e(r) if n % 8 == 0 else gen_direct(r)
        f = (_fails_direct(c) if c["kind"] == "direct" else _fails_e2e(c, ctx.work))[0]
        if f is not None:
            rec = failure_record(c, ctx.work)
            if rec is not None:
                return [rec]
    return []


def replay(ctx, payload):
    f = payload.get("failing")
    if not f:
        return True, "replay file names only broken obligations: " + str(payload.get("broken"))[:500]
    case = f["input"]
    rec = failure_record(case, ctx.work, do_shrink=False)
    if rec is None:
        return True, {"oracle": "property holds on this input"}
    return False, {"expected": rec["expected"], "observed": rec["observed"], "signature": rec["signature"]}
